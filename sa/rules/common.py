"""Rules shared by several properties."""
import ast
from ..core import Result
from ..pm import AnalysisError, unparse
from ..paths import ipaths, paths, annotate, call_attr


def _self_loads(node):
    out = []
    if node is None or not isinstance(node, ast.AST):
        return out
    for x in ast.walk(node):
        if isinstance(x, ast.Attribute) and isinstance(x.ctx, ast.Load) and \
                isinstance(x.value, ast.Name) and x.value.id == 'self':
            out.append(x)
    return out


def _derived_attrs(P, cn):
    """attributes of class cn stored by a method other than __init__ (through
    self), i.e. values computed from the lens and kept on the helper object"""
    out = {}
    # constructor helpers: private methods reached from __init__
    ctor = set()
    for k in P.mro(cn):
        init = P.classes[k].methods.get('__init__')
        todo = [init] if init is not None else []
        while todo:
            f_ = todo.pop()
            for x in ast.walk(f_.node):
                if isinstance(x, ast.Call) and isinstance(x.func, ast.Attribute)\
                        and isinstance(x.func.value, ast.Name) and \
                        x.func.value.id == 'self' and \
                        x.func.attr.startswith('_'):
                    g_ = P.lookup(cn, x.func.attr)
                    if g_ is not None and g_.qual not in ctor:
                        ctor.add(g_.qual)
                        todo.append(g_)
    for k in P.mro(cn):
        for m in P.classes[k].methods.values():
            if m.name == '__init__' or m.qual in ctor:
                continue
            for x in ast.walk(m.node):
                if isinstance(x, ast.Attribute) and isinstance(x.ctx, ast.Store)\
                        and isinstance(x.value, ast.Name) and \
                        x.value.id == 'self':
                    out.setdefault(x.attr, m)
                # containers filled through self: self.X[k] = v,
                # self.X.append(v), self.X.setdefault(...), self.X.update(...)
                if isinstance(x, ast.Subscript) and isinstance(x.ctx, ast.Store) \
                        and isinstance(x.value, ast.Attribute) and \
                        isinstance(x.value.value, ast.Name) and \
                        x.value.value.id == 'self':
                    out.setdefault(x.value.attr, m)
                if isinstance(x, ast.Call) and isinstance(x.func, ast.Attribute) \
                        and x.func.attr in ('append', 'setdefault', 'update',
                                            'add', 'extend', 'insert') and \
                        isinstance(x.func.value, ast.Attribute) and \
                        isinstance(x.func.value.value, ast.Name) and \
                        x.func.value.value.id == 'self':
                    out.setdefault(x.func.value.attr, m)
    return out


def stale_cache(ctx, rule, classes, why, min_methods=10):
    """NO-STALE-STATE: in the stateless query helpers every read of an
    attribute that some method derives from the lens is preceded, on every
    path of the same public call, by a store of that attribute.  A memo read
    before it is recomputed (`if self._cache is None or key != self._key`) is
    exactly a value surviving from an earlier lens state."""
    P = ctx.P
    res = Result(rule, 'query helpers keep no lens-derived state across '
                 'calls: every derived attribute read in a public call has '
                 'been stored earlier in that same call, on every path')
    n = 0
    for cn in classes:
        if cn not in P.classes:
            raise AnalysisError(f'{rule}: class {cn} not found')
        derived = _derived_attrs(P, cn)
        c = P.classes[cn]
        for m in c.methods.values():
            if m.name.startswith('_'):
                continue
            res.saw(m)
            n += 1
            bad = None
            if not derived:
                res.ok(f'{m.qual}: class {cn} stores nothing outside '
                       f'__init__')
                continue
            try:
                pl = ipaths(P, m, lambda f: f.cls == cn and f.name != m.name,
                            depth=3, loop_iters=(1,), max_paths=4000)
            except AnalysisError:
                pl = annotate(P, m, paths(m, loop_iters=(1,)))
            for p in pl:
                stored = set()
                for e in p.events:
                    nodes = []
                    if e.kind == 'store':
                        nodes = [e.extra]
                        if isinstance(e.node, ast.Subscript):
                            nodes.append(e.node.value)
                            nodes.append(e.node.slice)
                    elif e.kind == 'aug':
                        nodes = [e.extra.value if hasattr(e.extra, 'value')
                                 else None, e.node]
                    elif e.kind == 'branch':
                        nodes = [e.node]
                    elif e.kind == 'return':
                        nodes = [e.node]
                    elif e.kind == 'call':
                        nodes = list(e.node.args) + [k.value for k in
                                                     e.node.keywords]
                        if isinstance(e.node.func, ast.Attribute):
                            nodes.append(e.node.func.value)
                    for nd in nodes:
                        for x in _self_loads(nd):
                            if x.attr in derived and x.attr not in stored:
                                # storing element-wise into an array created
                                # in this call is fine: base must be stored
                                bad = (p, x, e)
                                break
                        if bad:
                            break
                    if bad:
                        break
                    if e.kind in ('store', 'aug'):
                        t = e.node
                        while isinstance(t, ast.Subscript):
                            t = t.value
                        if isinstance(t, ast.Attribute) and isinstance(
                                t.value, ast.Name) and t.value.id == 'self':
                            stored.add(t.attr)
                    if e.kind == 'store' and isinstance(e.node, ast.Tuple):
                        for t in e.node.elts:
                            if isinstance(t, ast.Attribute) and isinstance(
                                    t.value, ast.Name) and t.value.id == 'self':
                                stored.add(t.attr)
                if bad:
                    break
            if bad:
                p, x, e = bad
                where = e.func.qual if e.func is not None else m.qual
                res.fail(ctx.finding(
                    rule, m, x,
                    f'{m.qual} reads self.{x.attr} (in {where}) before '
                    f'anything in this call has stored it: the value was '
                    f'derived from an earlier state of the lens, so after an '
                    f'edit {why}',
                    construct=f'{cn}.{m.name}: stale self.{x.attr}',
                    path=p.describe()))
            else:
                res.ok(f'{m.qual}: no derived attribute read before it is '
                       f'recomputed')
    # class-level containers mutated by methods (shared by all instances)
    for cn in classes:
        for k in P.mro(cn):
            for m in P.classes[k].methods.values():
                if m.name in ('__init_subclass__', '_load_dataframe'):
                    continue
                for x in ast.walk(m.node):
                    tgt = None
                    if isinstance(x, ast.Subscript) and isinstance(
                            x.ctx, ast.Store):
                        tgt = x.value
                    elif isinstance(x, ast.Call) and isinstance(
                            x.func, ast.Attribute) and x.func.attr in (
                            'append', 'setdefault', 'update', 'add'):
                        tgt = x.func.value
                    elif isinstance(x, ast.Attribute) and isinstance(
                            x.ctx, ast.Store):
                        tgt = x
                    if isinstance(tgt, ast.Attribute) and isinstance(
                            tgt.value, ast.Name) and (
                            tgt.value.id == 'cls' or
                            tgt.value.id in P.classes) and \
                            tgt.attr != '_registry':
                        res.fail(ctx.finding(
                            rule, m, x,
                            f'{m.qual} keeps state in the class-level '
                            f'attribute {tgt.value.id}.{tgt.attr}, shared by '
                            f'every instance and every call: after a change '
                            f'of inputs {why}',
                            construct=f'{m.qual}: class-level state '
                                      f'{tgt.attr}'))
    res.min_instances = min_methods
    if n < min_methods:
        raise AnalysisError(f'{rule}: only {n} public methods analysed')
    return res


# --------------------------------------------------------------------------
# ARG-WIRING: what the public editing API is given reaches the constructor
# parameter of the same meaning.  The expected maps were read off the current
# source and confirmed against the callee signatures by hand; the analysis
# recomputes the actual map from the resolved call on every run.

def call_wiring(P, f):
    """[(call node, callee, {source text or 'kw:<key>': callee parameter})]"""
    env = P.local_env(f)
    kw = {}
    for st in ast.walk(f.node):
        if isinstance(st, ast.Assign) and isinstance(st.value, ast.Call) and \
                unparse(st.value.func) == 'kwargs.get' and \
                isinstance(st.targets[0], ast.Name) and st.value.args and \
                isinstance(st.value.args[0], ast.Constant):
            kw[st.targets[0].id] = (
                'kw:' + str(st.value.args[0].value),
                unparse(st.value.args[1]) if len(st.value.args) > 1 else 'None')
    out = []
    for c in ast.walk(f.node):
        if not isinstance(c, ast.Call):
            continue
        for g in P.resolve_call(c, env, f) or []:
            params = g.params
            m = {}
            for i, a in enumerate(c.args):
                if isinstance(a, ast.Starred):
                    m['*' + unparse(a.value)] = '*'
                    continue
                s = unparse(a)
                s = kw[s][0] if s in kw else s
                m[s] = params[i] if i < len(params) else '?'
            for k in c.keywords:
                if k.arg is None:
                    m['**' + unparse(k.value)] = '**'
                    continue
                s = unparse(k.value)
                s = kw[s][0] if s in kw else s
                m[s] = k.arg if (k.arg in params or g.node.args.kwarg) \
                    else '?' + k.arg
            out.append((c, g, m))
    return out, kw


def arg_wiring(ctx, rule, sites, defaults=()):
    P = ctx.P
    res = Result(rule, 'every value given to the editing API reaches the '
                 'constructor / callee parameter of the same meaning '
                 '(argument order and keyword names), with the documented '
                 'defaults')
    cache = {}
    for caller, callee, expected in sites:
        f = P.func(caller)
        res.saw(f)
        if caller not in cache:
            cache[caller] = call_wiring(P, f)
        calls, kw = cache[caller]
        hits = [(c, g, m) for c, g, m in calls if g.qual == callee]
        if not hits:
            res.fail(ctx.finding(
                rule, f, f.node, f'{caller} no longer calls {callee}',
                construct=f'{caller} -> {callee}: call missing'))
            continue
        alts = expected if isinstance(expected, list) else [expected]
        matched = set()
        for c, g, m in hits:
            if m in alts:
                matched.add(alts.index(m))
                res.ok(f'{caller} -> {callee}: ' + ', '.join(
                    f'{a}->{b}' for a, b in sorted(m.items())))
            else:
                exp1 = min(alts, key=lambda e: len(set(e.items()) ^
                                                   set(m.items())))
                diff = {a: (exp1.get(a), m.get(a)) for a in
                        set(exp1) | set(m) if exp1.get(a) != m.get(a)}
                res.fail(ctx.finding(
                    rule, f, c,
                    f'{caller} -> {callee}: argument wiring changed: ' +
                    '; '.join(f'{a}: expected parameter {e}, now {n}'
                              for a, (e, n) in sorted(diff.items())),
                    construct=f'{caller} -> {callee}: wiring'))
        if len(matched) < len(alts) and all(m in alts for _, _, m in hits):
            res.fail(ctx.finding(
                rule, f, f.node,
                f'{caller} -> {callee}: one of the expected call forms is '
                f'gone', construct=f'{caller} -> {callee}: call form missing'))
    for caller, key, dflt in defaults:
        f = P.func(caller)
        if caller not in cache:
            cache[caller] = call_wiring(P, f)
        kw = cache[caller][1]
        got = [d for (k, d) in kw.values() if k == 'kw:' + key]
        if got and all(g_ == dflt for g_ in got):
            res.ok(f'{caller}: default {key} = {dflt}')
        else:
            res.fail(ctx.finding(
                rule, f, f.node,
                f'{caller}: default of {key!r} is {got or "missing"}, '
                f'documented {dflt}', construct=f'{caller}: default {key}'))
    return res


# --------------------------------------------------------------------------
# ARG-NAMES: an argument that is spelled like one of the callee's parameters
# is bound to that parameter (swapped / shifted positional arguments).

STAR_WIDTH = {'field': 2}       # *field is the documented (Hx, Hy) pair


def bound_args(c, g, explicit_self=False):
    """[(parameter name | None, argument node)] for call c to function g"""
    params = list(g.params)
    if explicit_self:
        params = ['self'] + params
    out = []
    pos = 0
    for a in c.args:
        if isinstance(a, ast.Starred):
            w = STAR_WIDTH.get(unparse(a.value))
            if w is None:
                return out + [(k.arg, k.value) for k in c.keywords if k.arg]
            for j in range(w):
                out.append((params[pos] if pos < len(params) else None,
                            ast.Subscript(value=a.value,
                                          slice=ast.Constant(j),
                                          ctx=ast.Load())))
                pos += 1
            continue
        out.append((params[pos] if pos < len(params) else None, a))
        pos += 1
    for k in c.keywords:
        if k.arg:
            out.append((k.arg, k.value))
    return out


def arg_names(ctx, rule, callee_ok, exceptions, min_sites, P=None):
    P = P or (ctx.Pall if ctx.tier == 'thorough' else ctx.P)
    res = Result(rule, 'an argument spelled like a parameter of the function '
                 'it is passed to (x, self.x) is bound to that parameter: '
                 'no swapped or shifted arguments')
    n = 0
    for f in P.all_funcs():
        env = P.local_env(f)
        for c in ast.walk(f.node):
            if not isinstance(c, ast.Call):
                continue
            try:
                r = P.resolve_call(c, env, f) or []
            except AnalysisError:
                continue
            for g in r:
                if not callee_ok(g):
                    continue
                explicit = isinstance(c.func, ast.Attribute) and \
                    isinstance(c.func.value, ast.Name) and \
                    c.func.value.id in P.classes and \
                    g.kind == 'method' and c.args and \
                    unparse(c.args[0]) == 'self'
                if explicit:
                    # Base.method(self, ...): no dynamic dispatch
                    tgt = P.lookup(c.func.value.id, c.func.attr)
                    if tgt is None or tgt.qual != g.qual:
                        continue
                res.saw(f)
                for prm, a in bound_args(c, g, explicit):
                    nm = a.id if isinstance(a, ast.Name) else (
                        a.attr if isinstance(a, ast.Attribute) and
                        isinstance(a.value, ast.Name) and
                        a.value.id == 'self' else None)
                    if nm is None and isinstance(a, ast.Subscript) and \
                            isinstance(a.value, ast.Name) and isinstance(
                            a.slice, ast.Constant) and isinstance(
                            a.slice.value, str):
                        nm = a.slice.value       # data['key'] spells 'key'
                    if nm is None and isinstance(a, ast.Call) and isinstance(
                            a.func, ast.Attribute) and a.func.attr == 'get' \
                            and isinstance(a.func.value, ast.Name) and a.args \
                            and isinstance(a.args[0], ast.Constant) and \
                            isinstance(a.args[0].value, str):
                        nm = a.args[0].value     # data.get('key', ...)
                    if nm is None or prm is None:
                        continue
                    n += 1
                    if nm != prm and nm in g.params:
                        if (f.qual, g.qual, prm, nm) in exceptions:
                            res.exceptions.append(
                                f'{f.qual} -> {g.qual}: {nm} passed as {prm}: '
                                + exceptions[(f.qual, g.qual, prm, nm)])
                            continue
                        res.fail(ctx.finding(
                            rule, f, c,
                            f'{f.qual} passes {unparse(a)} as parameter '
                            f'{prm!r} of {g.qual}, which also has a parameter '
                            f'{nm!r}: arguments swapped or shifted',
                            construct=f'{f.qual} -> {g.qual}: {nm} as {prm}'))
                    else:
                        res.ok(f'{f.qual} -> {g.qual}: {unparse(a)} as {prm}'
                               if n <= 3 else None)
    res.min_instances = min_sites
    if n < min_sites:
        raise AnalysisError(f'{rule}: only {n} named arguments found')
    return res


def arg_forward(ctx, rule, min_sites, P=None):
    """a constructor parameter that the base-class constructor also has is
    handed on to it (by position or keyword): a parameter accepted by the
    subclass and silently dropped makes the base class use its default."""
    P = P or (ctx.Pall if ctx.tier == 'thorough' else ctx.P)
    res = Result(rule, 'every constructor parameter that the base-class '
                 'constructor also declares is forwarded in the base '
                 'constructor call')
    n = 0
    for cn, c in P.classes.items():
        f = c.methods.get('__init__')
        if f is None:
            continue
        for call in ast.walk(f.node):
            if not isinstance(call, ast.Call):
                continue
            fn = unparse(call.func)
            base, explicit = None, False
            if fn == 'super().__init__':
                for k in P.mro(cn)[1:]:
                    if '__init__' in P.classes[k].methods:
                        base = P.classes[k].methods['__init__']
                        break
            elif fn.endswith('.__init__') and fn.split('.')[0] in P.classes:
                base = P.lookup(fn.split('.')[0], '__init__')
                explicit = True
            if base is None:
                continue
            bparams = base.params
            args = call.args[1:] if explicit else call.args
            star = any(isinstance(a, ast.Starred) for a in args) or \
                any(k.arg is None for k in call.keywords)
            bound = {bparams[i] for i in range(min(len(args), len(bparams)))}
            bound |= {k.arg for k in call.keywords if k.arg}
            n += 1
            res.saw(f)
            missing = [p for p in f.params if p in bparams and p not in bound]
            if missing and not star:
                res.fail(ctx.finding(
                    rule, f, call,
                    f'{cn}.__init__ accepts {missing} but does not pass '
                    f'{"it" if len(missing) == 1 else "them"} to '
                    f'{base.qual}, which falls back to its default',
                    construct=f'{cn}.__init__ drops {",".join(missing)}'))
            else:
                res.ok(f'{cn}.__init__ -> {base.qual}' if n <= 3 else None)
    res.min_instances = min_sites
    if n < min_sites:
        raise AnalysisError(f'{rule}: only {n} base-constructor calls found')
    return res


# --------------------------------------------------------------------------
# DERIVED-SYNC: an attribute the constructor derives from other attributes
# (d = f(a)) is recomputed by every method that rewrites a.  A constructor
# cache that an editing method leaves behind is lens state that no longer
# matches the prescription (and is not serialised).

_SHAPE_ONLY = ('np.zeros_like', 'np.ones_like', 'np.empty_like',
               'np.full_like', 'len', 'np.shape', 'np.size')


def derived_sync(ctx, rule, min_classes=40):
    P = ctx.P
    res = Result(rule, 'every attribute that a constructor computes from '
                 'other attributes of the object is recomputed by each method '
                 'that assigns one of those attributes')
    n = 0
    for cn, c in sorted(P.classes.items()):
        init = c.methods.get('__init__')
        if init is None:
            continue
        n += 1
        stores = {}
        for st in init.node.body:
            if isinstance(st, ast.Assign) and isinstance(
                    st.targets[0], ast.Attribute) and \
                    unparse(st.targets[0].value) == 'self':
                stores[st.targets[0].attr] = st.value
        p2a = {v.id: a for a, v in stores.items() if isinstance(v, ast.Name)}

        def reads_of(expr, depth=0):
            deps = set()
            for x in ast.walk(expr):
                if isinstance(x, ast.Call) and unparse(x.func) in _SHAPE_ONLY:
                    return set()      # depends on the shape only
            for x in ast.walk(expr):
                if isinstance(x, ast.Name) and x.id in p2a:
                    deps.add(p2a[x.id])
                elif isinstance(x, ast.Attribute) and \
                        unparse(x.value) == 'self' and x.attr in stores and \
                        isinstance(x.ctx, ast.Load):
                    deps.add(x.attr)
                elif isinstance(x, ast.Call) and isinstance(
                        x.func, ast.Attribute) and \
                        unparse(x.func.value) == 'self' and depth == 0:
                    g = P.lookup(cn, x.func.attr)
                    if g is not None:
                        for y in ast.walk(g.node):
                            if isinstance(y, ast.Attribute) and unparse(
                                    y.value) == 'self' and isinstance(
                                    y.ctx, ast.Load) and y.attr in stores:
                                deps.add(y.attr)
            return deps
        for d, v in stores.items():
            if isinstance(v, (ast.Name, ast.Constant)):
                continue
            deps = reads_of(v) - {d}
            if not deps:
                continue
            res.saw(init)
            bad = None
            for mn, m in list(c.methods.items()) + list(c.setters.items()):
                if mn == '__init__':
                    continue
                st_attrs = set()
                for x in ast.walk(m.node):
                    if isinstance(x, (ast.Assign, ast.AugAssign)):
                        tgs = x.targets if isinstance(x, ast.Assign) \
                            else [x.target]
                        for t in tgs:
                            for e in (t.elts if isinstance(t, ast.Tuple)
                                      else [t]):
                                if isinstance(e, ast.Attribute) and \
                                        unparse(e.value) == 'self':
                                    st_attrs.add(e.attr)
                if st_attrs & deps and d not in st_attrs:
                    bad = (m, sorted(st_attrs & deps))
                    break
            if bad:
                res.fail(ctx.finding(
                    rule, bad[0], bad[0].node,
                    f'{cn}.__init__ derives self.{d} = {unparse(v)[:50]} from '
                    f'{sorted(deps)}; {bad[0].qual} assigns {bad[1]} without '
                    f'recomputing self.{d}: after that call the object holds '
                    f'a value derived from the old state',
                    construct=f'{cn}.{d} stale after {bad[0].name}'))
            else:
                res.ok(f'{cn}.{d} (from {sorted(deps)}): recomputed wherever '
                       f'its sources are assigned')
    if n < min_classes:
        raise AnalysisError(f'{rule}: only {n} constructors analysed')
    return res

"""Rules shared by several properties."""
import ast
from ..core import Result
from ..pm import AnalysisError, unparse
from ..paths import ipaths, paths, annotate, call_attr


def _self_loads(node):
    """loads of self.X, also written getattr(self, 'X'[, d]), hasattr(self,
    'X'), self.__dict__['X'] / .get('X'), vars(self)['X']"""
    out = []
    if node is None or not isinstance(node, ast.AST):
        return out

    def pseudo(name, at):
        n = ast.Attribute(value=ast.Name('self', ast.Load()), attr=name,
                          ctx=ast.Load())
        return ast.copy_location(n, at)

    def is_self(x):
        return isinstance(x, ast.Name) and x.id == 'self'

    def is_dict(x):
        return (isinstance(x, ast.Attribute) and x.attr == '__dict__' and
                is_self(x.value)) or (
            isinstance(x, ast.Call) and unparse(x.func) == 'vars' and
            len(x.args) == 1 and is_self(x.args[0]))
    for x in ast.walk(node):
        if isinstance(x, ast.Attribute) and isinstance(x.ctx, ast.Load) and \
                is_self(x.value) and x.attr != '__dict__':
            out.append(x)
        elif isinstance(x, ast.Call) and isinstance(x.func, ast.Name) and \
                x.func.id in ('getattr', 'hasattr') and len(x.args) >= 2 and \
                is_self(x.args[0]) and isinstance(x.args[1], ast.Constant) \
                and isinstance(x.args[1].value, str):
            out.append(pseudo(x.args[1].value, x))
        elif isinstance(x, ast.Subscript) and isinstance(x.ctx, ast.Load) and \
                is_dict(x.value) and isinstance(x.slice, ast.Constant) and \
                isinstance(x.slice.value, str):
            out.append(pseudo(x.slice.value, x))
        elif isinstance(x, ast.Call) and isinstance(x.func, ast.Attribute) \
                and x.func.attr in ('get', 'pop') and is_dict(x.func.value) \
                and x.args and isinstance(x.args[0], ast.Constant) and \
                isinstance(x.args[0].value, str):
            out.append(pseudo(x.args[0].value, x))
        elif isinstance(x, ast.Compare) and len(x.ops) == 1 and isinstance(
                x.ops[0], (ast.In, ast.NotIn)) and is_dict(x.comparators[0]) \
                and isinstance(x.left, ast.Constant) and \
                isinstance(x.left.value, str):
            out.append(pseudo(x.left.value, x))
    return out


_REF_ATTRS = None


def _ref_class_attrs():
    """{class name: names X mentioned as self.X in the reference tree}"""
    global _REF_ATTRS
    if _REF_ATTRS is None:
        from .. import canon
        out = {}
        for key, ent in canon.load_fn_table().items():
            src = ent[1]
            rel, cls, fn, k = key.split('::')
            if not cls:
                continue
            names = out.setdefault(cls, set())
            for x in ast.walk(ast.parse(src)):
                if isinstance(x, ast.Attribute) and isinstance(
                        x.value, ast.Name) and x.value.id == 'self':
                    names.add(x.attr)
        _REF_ATTRS = out
    return _REF_ATTRS


def anchor_classes(ctx, exclude=()):
    """classes defined in the files the property is anchored in"""
    import fnmatch
    import json
    import os
    from ..core import VERIF
    pats = []
    for line in open(os.path.join(VERIF, 'properties.jsonl')):
        pr = json.loads(line)
        if pr['id'] == ctx.prop:
            pats = pr['anchors']['files']
    out = []
    for cn, c in sorted(ctx.P.classes.items()):
        if cn in exclude:
            continue
        if any(fnmatch.fnmatch(c.module, pt) for pt in pats):
            out.append(cn)
    return out


def _derived_attrs(P, cn):
    """attributes of class cn stored by a method other than __init__ (through
    self), i.e. values computed from the lens and kept on the helper object"""
    out = {}
    # constructor helpers: private methods reached from __init__
    ctor = set()
    for k in P.mro(cn):
        init = P.classes[k].methods.get('__init__')
        todo = [init] if init is not None else []
        while todo:
            f_ = todo.pop()
            for x in ast.walk(f_.node):
                if isinstance(x, ast.Call) and isinstance(x.func, ast.Attribute)\
                        and isinstance(x.func.value, ast.Name) and \
                        x.func.value.id == 'self' and \
                        x.func.attr.startswith('_'):
                    g_ = P.lookup(cn, x.func.attr)
                    if g_ is not None and g_.qual not in ctor:
                        ctor.add(g_.qual)
                        todo.append(g_)
    for k in P.mro(cn):
        for m in P.classes[k].methods.values():
            if m.name == '__init__' or m.qual in ctor:
                continue
            for x in ast.walk(m.node):
                if isinstance(x, ast.Attribute) and isinstance(x.ctx, ast.Store)\
                        and isinstance(x.value, ast.Name) and \
                        x.value.id == 'self':
                    out.setdefault(x.attr, m)
                if isinstance(x, ast.Call) and unparse(x.func) == 'setattr' \
                        and len(x.args) == 3 and isinstance(
                            x.args[0], ast.Name) and x.args[0].id == 'self' \
                        and isinstance(x.args[1], ast.Constant):
                    out.setdefault(str(x.args[1].value), m)
                if isinstance(x, ast.Subscript) and isinstance(x.ctx, ast.Store) \
                        and unparse(x.value) in ('self.__dict__', 'vars(self)') \
                        and isinstance(x.slice, ast.Constant):
                    out.setdefault(str(x.slice.value), m)
                # containers filled through self: self.X[k] = v,
                # self.X.append(v), self.X.setdefault(...), self.X.update(...)
                if isinstance(x, ast.Subscript) and isinstance(x.ctx, ast.Store) \
                        and isinstance(x.value, ast.Attribute) and \
                        isinstance(x.value.value, ast.Name) and \
                        x.value.value.id == 'self':
                    out.setdefault(x.value.attr, m)
                if isinstance(x, ast.Call) and isinstance(x.func, ast.Attribute) \
                        and x.func.attr in ('append', 'setdefault', 'update',
                                            'add', 'extend', 'insert') and \
                        isinstance(x.func.value, ast.Attribute) and \
                        isinstance(x.func.value.value, ast.Name) and \
                        x.func.value.value.id == 'self':
                    out.setdefault(x.func.value.attr, m)
    return out


def stale_cache(ctx, rule, classes, why, min_methods=10, new_state=None):
    """NO-STALE-STATE: in the stateless query helpers every read of an
    attribute that some method derives from the lens is preceded, on every
    path of the same public call, by a store of that attribute.  A memo read
    before it is recomputed (`if self._cache is None or key != self._key`) is
    exactly a value surviving from an earlier lens state."""
    P = ctx.P
    res = Result(rule, 'query helpers keep no lens-derived state across '
                 'calls: every derived attribute read in a public call has '
                 'been stored earlier in that same call, on every path; in '
                 'the other classes of the anchor files the same holds for '
                 'every attribute the reference tree does not have (state '
                 'that somebody added)')
    n = 0
    if new_state is None:
        new_state = anchor_classes(ctx, exclude=classes)
    refattrs = _ref_class_attrs()
    for cn in list(classes) + [c_ for c_ in new_state if c_ not in classes]:
        if cn not in P.classes:
            raise AnalysisError(f'{rule}: class {cn} not found')
        derived = _derived_attrs(P, cn)
        if cn not in classes:
            # a state-holding class: only attributes that no class of its
            # hierarchy has in the reference tree
            if cn not in refattrs:
                continue
            known = set()
            for k in P.mro(cn):
                known |= refattrs.get(k, set())
            for k, sub in refattrs.items():
                if k in P.classes and cn in P.mro(k):
                    known |= sub
            derived = {a: m for a, m in derived.items() if a not in known}
            if not derived:
                res.ok(f'{cn}: no stored attribute beyond those of the '
                       f'reference tree')
                continue
        c = P.classes[cn]
        for m in c.methods.values():
            if m.name.startswith('_'):
                continue
            res.saw(m)
            n += 1
            bad = None
            if not derived:
                res.ok(f'{m.qual}: class {cn} stores nothing outside '
                       f'__init__')
                continue
            try:
                pl = ipaths(P, m, lambda f: f.cls == cn and f.name != m.name,
                            depth=3, loop_iters=(1,), max_paths=4000)
            except AnalysisError:
                pl = annotate(P, m, paths(m, loop_iters=(1,)))
            for p in pl:
                stored = set()
                for e in p.events:
                    nodes = []
                    if e.kind == 'store':
                        nodes = [e.extra]
                        if isinstance(e.node, ast.Subscript):
                            nodes.append(e.node.value)
                            nodes.append(e.node.slice)
                    elif e.kind == 'aug':
                        nodes = [e.extra.value if hasattr(e.extra, 'value')
                                 else None, e.node]
                    elif e.kind == 'branch':
                        nodes = [e.node]
                    elif e.kind == 'return':
                        nodes = [e.node]
                    elif e.kind == 'call':
                        nodes = list(e.node.args) + [k.value for k in
                                                     e.node.keywords]
                        if isinstance(e.node.func, ast.Attribute):
                            nodes.append(e.node.func.value)
                    for nd in nodes:
                        for x in _self_loads(nd):
                            if x.attr in derived and x.attr not in stored:
                                # storing element-wise into an array created
                                # in this call is fine: base must be stored
                                bad = (p, x, e)
                                break
                        if bad:
                            break
                    if bad:
                        break
                    if e.kind == 'call' and unparse(e.node.func) == 'setattr' \
                            and len(e.node.args) == 3 and \
                            unparse(e.node.args[0]) == 'self' and \
                            isinstance(e.node.args[1], ast.Constant):
                        stored.add(str(e.node.args[1].value))
                    if e.kind in ('store', 'aug'):
                        t = e.node
                        while isinstance(t, ast.Subscript):
                            t = t.value
                        if isinstance(t, ast.Attribute) and isinstance(
                                t.value, ast.Name) and t.value.id == 'self':
                            stored.add(t.attr)
                    if e.kind == 'store' and isinstance(e.node, ast.Tuple):
                        for t in e.node.elts:
                            if isinstance(t, ast.Attribute) and isinstance(
                                    t.value, ast.Name) and t.value.id == 'self':
                                stored.add(t.attr)
                if bad:
                    break
            if bad:
                p, x, e = bad
                where = e.func.qual if e.func is not None else m.qual
                res.fail(ctx.finding(
                    rule, m, x,
                    f'{m.qual} reads self.{x.attr} (in {where}) before '
                    f'anything in this call has stored it: the value was '
                    f'derived from an earlier state of the lens, so after an '
                    f'edit {why}',
                    construct=f'{cn}.{m.name}: stale self.{x.attr}',
                    path=p.describe()))
            else:
                res.ok(f'{m.qual}: no derived attribute read before it is '
                       f'recomputed')
    # class-level containers mutated by methods (shared by all instances)
    for cn in classes:
        for k in P.mro(cn):
            for m in P.classes[k].methods.values():
                if m.name in ('__init_subclass__', '_load_dataframe'):
                    continue
                for x in ast.walk(m.node):
                    tgt = None
                    if isinstance(x, ast.Subscript) and isinstance(
                            x.ctx, ast.Store):
                        tgt = x.value
                    elif isinstance(x, ast.Call) and isinstance(
                            x.func, ast.Attribute) and x.func.attr in (
                            'append', 'setdefault', 'update', 'add'):
                        tgt = x.func.value
                    elif isinstance(x, ast.Attribute) and isinstance(
                            x.ctx, ast.Store):
                        tgt = x
                    if isinstance(tgt, ast.Attribute) and isinstance(
                            tgt.value, ast.Name) and (
                            tgt.value.id == 'cls' or
                            tgt.value.id in P.classes) and \
                            tgt.attr != '_registry':
                        res.fail(ctx.finding(
                            rule, m, x,
                            f'{m.qual} keeps state in the class-level '
                            f'attribute {tgt.value.id}.{tgt.attr}, shared by '
                            f'every instance and every call: after a change '
                            f'of inputs {why}',
                            construct=f'{m.qual}: class-level state '
                                      f'{tgt.attr}'))
    _memo_sites(ctx, res, rule, why)
    res.min_instances = min_methods
    if n < min_methods:
        raise AnalysisError(f'{rule}: only {n} public methods analysed')
    return res


_IO_CALLS = ('open', 'np.load', 'np.loadtxt', 'np.genfromtxt', 'json.load',
             'yaml.safe_load', 'yaml.load', 'pd.read_csv', 'read_csv')


def _memo_sites(ctx, res, rule, why):
    """memoising decorators and module-level containers in the anchor files:
    a memo keyed by object identity or by a path outlives an edit of the
    object / the file; a memo of a function of plain numbers is harmless"""
    import fnmatch
    import json
    import os
    from ..core import VERIF
    P = ctx.P
    pats = []
    for line in open(os.path.join(VERIF, 'properties.jsonl')):
        pr = json.loads(line)
        if pr['id'] == ctx.prop:
            pats = pr['anchors']['files']
    nfun = 0
    for rel, tree in P.modules.items():
        if not any(fnmatch.fnmatch(rel, pt) for pt in pats):
            continue
        glob = {}
        for n in tree.body:
            if isinstance(n, (ast.Assign, ast.AnnAssign)):
                t = n.targets[0] if isinstance(n, ast.Assign) else n.target
                if isinstance(t, ast.Name) and isinstance(
                        n.value, (ast.Dict, ast.List, ast.Set, ast.Call)):
                    glob[t.id] = n
        funcs = []
        for n in tree.body:
            if isinstance(n, ast.FunctionDef):
                funcs.append((None, n))
            elif isinstance(n, ast.ClassDef):
                funcs += [(n.name, m) for m in n.body
                          if isinstance(m, ast.FunctionDef)]
        for cn, fn in funcs:
            nfun += 1
            q = f'{cn}.{fn.name}' if cn else fn.name
            for d in fn.decorator_list:
                txt = unparse(d.func if isinstance(d, ast.Call) else d)
                if txt.split('.')[-1] not in ('lru_cache', 'cache',
                                              'cached_property', 'memoize'):
                    continue
                params = [a.arg for a in fn.args.args]
                objarg = [x for x in ast.walk(fn) if isinstance(
                    x, ast.Attribute) and isinstance(x.value, ast.Name) and
                    x.value.id in params]
                io = [c for c in ast.walk(fn) if isinstance(c, ast.Call) and
                      unparse(c.func) in _IO_CALLS]
                if (params and params[0] in ('self', 'cls')) or objarg or io:
                    what = ('the object it is called on' if params[:1] in (
                        ['self'], ['cls']) else
                        'a file' if io else 'an object passed in')
                    res.fail(ctx.finding(
                        rule, q, fn,
                        f'{q} is memoised ({txt}) although its result '
                        f'depends on {what}, which can change between two '
                        f'calls with the same arguments: {why}',
                        construct=f'{q}: memoised by {txt.split(".")[-1]}'))
            for x in ast.walk(fn):
                tgt = None
                if isinstance(x, ast.Global):
                    for nm in x.names:
                        res.fail(ctx.finding(
                            rule, q, x,
                            f'{q} rebinds the module-level name {nm}: state '
                            f'shared by every call; {why}',
                            construct=f'{q}: global {nm}'))
                if isinstance(x, ast.Subscript) and isinstance(x.ctx, ast.Store):
                    tgt = x.value
                elif isinstance(x, ast.Call) and isinstance(
                        x.func, ast.Attribute) and x.func.attr in (
                        'append', 'setdefault', 'update', 'add', 'extend',
                        'insert'):
                    tgt = x.func.value
                if isinstance(tgt, ast.Name) and tgt.id in glob and not any(
                        isinstance(y, (ast.Name, ast.arg)) and
                        getattr(y, 'id', getattr(y, 'arg', None)) == tgt.id and
                        (isinstance(y, ast.arg) or isinstance(y.ctx, ast.Store))
                        and y is not tgt for y in ast.walk(fn)):
                    res.fail(ctx.finding(
                        rule, q, x,
                        f'{q} stores into the module-level container '
                        f'{tgt.id}: state shared by every call; {why}',
                        construct=f'{q}: module-level state {tgt.id}'))
    res.ok(f'{nfun} functions of the anchor files: no memoising decorator on '
           f'a function of objects or files, no module-level state')


# --------------------------------------------------------------------------
# ARG-WIRING: what the public editing API is given reaches the constructor
# parameter of the same meaning.  The expected maps were read off the current
# source and confirmed against the callee signatures by hand; the analysis
# recomputes the actual map from the resolved call on every run.

def call_wiring(P, f):
    """[(call node, callee, {source text or 'kw:<key>': callee parameter})]"""
    env = P.local_env(f)
    kw = {}
    for st in ast.walk(f.node):
        if isinstance(st, ast.Assign) and isinstance(st.value, ast.Call) and \
                unparse(st.value.func) == 'kwargs.get' and \
                isinstance(st.targets[0], ast.Name) and st.value.args and \
                isinstance(st.value.args[0], ast.Constant):
            kw[st.targets[0].id] = (
                'kw:' + str(st.value.args[0].value),
                unparse(st.value.args[1]) if len(st.value.args) > 1 else 'None')
    out = []
    for c in ast.walk(f.node):
        if not isinstance(c, ast.Call):
            continue
        for g in P.resolve_call(c, env, f) or []:
            params = g.params
            m = {}
            for i, a in enumerate(c.args):
                if isinstance(a, ast.Starred):
                    m['*' + unparse(a.value)] = '*'
                    continue
                s = unparse(a)
                s = kw[s][0] if s in kw else s
                m[s] = params[i] if i < len(params) else '?'
            for k in c.keywords:
                if k.arg is None:
                    m['**' + unparse(k.value)] = '**'
                    continue
                s = unparse(k.value)
                s = kw[s][0] if s in kw else s
                m[s] = k.arg if (k.arg in params or g.node.args.kwarg) \
                    else '?' + k.arg
            out.append((c, g, m))
    return out, kw


def arg_wiring(ctx, rule, sites, defaults=()):
    P = ctx.P
    res = Result(rule, 'every value given to the editing API reaches the '
                 'constructor / callee parameter of the same meaning '
                 '(argument order and keyword names), with the documented '
                 'defaults')
    cache = {}
    for caller, callee, expected in sites:
        f = P.func(caller)
        res.saw(f)
        if caller not in cache:
            cache[caller] = call_wiring(P, f)
        calls, kw = cache[caller]
        hits = [(c, g, m) for c, g, m in calls if g.qual == callee]
        if not hits:
            res.fail(ctx.finding(
                rule, f, f.node, f'{caller} no longer calls {callee}',
                construct=f'{caller} -> {callee}: call missing'))
            continue
        alts = expected if isinstance(expected, list) else [expected]
        matched = set()
        for c, g, m in hits:
            if m in alts:
                matched.add(alts.index(m))
                res.ok(f'{caller} -> {callee}: ' + ', '.join(
                    f'{a}->{b}' for a, b in sorted(m.items())))
            else:
                exp1 = min(alts, key=lambda e: len(set(e.items()) ^
                                                   set(m.items())))
                diff = {a: (exp1.get(a), m.get(a)) for a in
                        set(exp1) | set(m) if exp1.get(a) != m.get(a)}
                res.fail(ctx.finding(
                    rule, f, c,
                    f'{caller} -> {callee}: argument wiring changed: ' +
                    '; '.join(f'{a}: expected parameter {e}, now {n}'
                              for a, (e, n) in sorted(diff.items())),
                    construct=f'{caller} -> {callee}: wiring'))
        if len(matched) < len(alts) and all(m in alts for _, _, m in hits):
            res.fail(ctx.finding(
                rule, f, f.node,
                f'{caller} -> {callee}: one of the expected call forms is '
                f'gone', construct=f'{caller} -> {callee}: call form missing'))
    for caller, key, dflt in defaults:
        f = P.func(caller)
        if caller not in cache:
            cache[caller] = call_wiring(P, f)
        kw = cache[caller][1]
        got = [d for (k, d) in kw.values() if k == 'kw:' + key]
        if got and all(g_ == dflt for g_ in got):
            res.ok(f'{caller}: default {key} = {dflt}')
        else:
            res.fail(ctx.finding(
                rule, f, f.node,
                f'{caller}: default of {key!r} is {got or "missing"}, '
                f'documented {dflt}', construct=f'{caller}: default {key}'))
    return res


# --------------------------------------------------------------------------
# ARG-NAMES: an argument that is spelled like one of the callee's parameters
# is bound to that parameter (swapped / shifted positional arguments).

STAR_WIDTH = {'field': 2}       # *field is the documented (Hx, Hy) pair


def bound_args(c, g, explicit_self=False):
    """[(parameter name | None, argument node)] for call c to function g"""
    params = list(g.params)
    if explicit_self:
        params = ['self'] + params
    out = []
    pos = 0
    for a in c.args:
        if isinstance(a, ast.Starred):
            w = STAR_WIDTH.get(unparse(a.value))
            if w is None:
                return out + [(k.arg, k.value) for k in c.keywords if k.arg]
            for j in range(w):
                out.append((params[pos] if pos < len(params) else None,
                            ast.Subscript(value=a.value,
                                          slice=ast.Constant(j),
                                          ctx=ast.Load())))
                pos += 1
            continue
        out.append((params[pos] if pos < len(params) else None, a))
        pos += 1
    for k in c.keywords:
        if k.arg:
            out.append((k.arg, k.value))
    return out


def arg_names(ctx, rule, callee_ok, exceptions, min_sites, P=None):
    P = P or (ctx.Pall if ctx.tier == 'thorough' else ctx.P)
    res = Result(rule, 'an argument spelled like a parameter of the function '
                 'it is passed to (x, self.x) is bound to that parameter: '
                 'no swapped or shifted arguments')
    n = 0
    for f in P.all_funcs():
        env = P.local_env(f)
        for c in ast.walk(f.node):
            if not isinstance(c, ast.Call):
                continue
            try:
                r = P.resolve_call(c, env, f) or []
            except AnalysisError:
                continue
            for g in r:
                if not callee_ok(g):
                    continue
                explicit = isinstance(c.func, ast.Attribute) and \
                    isinstance(c.func.value, ast.Name) and \
                    c.func.value.id in P.classes and \
                    g.kind == 'method' and c.args and \
                    unparse(c.args[0]) == 'self'
                if explicit:
                    # Base.method(self, ...): no dynamic dispatch
                    tgt = P.lookup(c.func.value.id, c.func.attr)
                    if tgt is None or tgt.qual != g.qual:
                        continue
                res.saw(f)
                for prm, a in bound_args(c, g, explicit):
                    nm = a.id if isinstance(a, ast.Name) else (
                        a.attr if isinstance(a, ast.Attribute) and
                        isinstance(a.value, ast.Name) and
                        a.value.id == 'self' else None)
                    if nm is None and isinstance(a, ast.Subscript) and \
                            isinstance(a.value, ast.Name) and isinstance(
                            a.slice, ast.Constant) and isinstance(
                            a.slice.value, str):
                        nm = a.slice.value       # data['key'] spells 'key'
                    if nm is None and isinstance(a, ast.Call) and isinstance(
                            a.func, ast.Attribute) and a.func.attr == 'get' \
                            and isinstance(a.func.value, ast.Name) and a.args \
                            and isinstance(a.args[0], ast.Constant) and \
                            isinstance(a.args[0].value, str):
                        nm = a.args[0].value     # data.get('key', ...)
                    if nm is None or prm is None:
                        continue
                    n += 1
                    if nm != prm and nm in g.params:
                        if (f.qual, g.qual, prm, nm) in exceptions:
                            res.exceptions.append(
                                f'{f.qual} -> {g.qual}: {nm} passed as {prm}: '
                                + exceptions[(f.qual, g.qual, prm, nm)])
                            continue
                        res.fail(ctx.finding(
                            rule, f, c,
                            f'{f.qual} passes {unparse(a)} as parameter '
                            f'{prm!r} of {g.qual}, which also has a parameter '
                            f'{nm!r}: arguments swapped or shifted',
                            construct=f'{f.qual} -> {g.qual}: {nm} as {prm}'))
                    else:
                        res.ok(f'{f.qual} -> {g.qual}: {unparse(a)} as {prm}'
                               if n <= 3 else None)
    res.min_instances = min_sites
    if n < min_sites:
        raise AnalysisError(f'{rule}: only {n} named arguments found')
    return res


def arg_forward(ctx, rule, min_sites, P=None):
    """a constructor parameter that the base-class constructor also has is
    handed on to it (by position or keyword): a parameter accepted by the
    subclass and silently dropped makes the base class use its default."""
    P = P or (ctx.Pall if ctx.tier == 'thorough' else ctx.P)
    res = Result(rule, 'every constructor parameter that the base-class '
                 'constructor also declares is forwarded in the base '
                 'constructor call')
    n = 0
    for cn, c in P.classes.items():
        f = c.methods.get('__init__')
        if f is None:
            continue
        for call in ast.walk(f.node):
            if not isinstance(call, ast.Call):
                continue
            fn = unparse(call.func)
            base, explicit = None, False
            if fn == 'super().__init__':
                for k in P.mro(cn)[1:]:
                    if '__init__' in P.classes[k].methods:
                        base = P.classes[k].methods['__init__']
                        break
            elif fn.endswith('.__init__') and fn.split('.')[0] in P.classes:
                base = P.lookup(fn.split('.')[0], '__init__')
                explicit = True
            if base is None:
                continue
            bparams = base.params
            args = call.args[1:] if explicit else call.args
            star = any(isinstance(a, ast.Starred) for a in args) or \
                any(k.arg is None for k in call.keywords)
            bound = {bparams[i] for i in range(min(len(args), len(bparams)))}
            bound |= {k.arg for k in call.keywords if k.arg}
            n += 1
            res.saw(f)
            missing = [p for p in f.params if p in bparams and p not in bound]
            if missing and not star:
                res.fail(ctx.finding(
                    rule, f, call,
                    f'{cn}.__init__ accepts {missing} but does not pass '
                    f'{"it" if len(missing) == 1 else "them"} to '
                    f'{base.qual}, which falls back to its default',
                    construct=f'{cn}.__init__ drops {",".join(missing)}'))
            else:
                res.ok(f'{cn}.__init__ -> {base.qual}' if n <= 3 else None)
    res.min_instances = min_sites
    if n < min_sites:
        raise AnalysisError(f'{rule}: only {n} base-constructor calls found')
    return res


# --------------------------------------------------------------------------
# DERIVED-SYNC: an attribute the constructor derives from other attributes
# (d = f(a)) is recomputed by every method that rewrites a.  A constructor
# cache that an editing method leaves behind is lens state that no longer
# matches the prescription (and is not serialised).

_SHAPE_ONLY = ('np.zeros_like', 'np.ones_like', 'np.empty_like',
               'np.full_like', 'len', 'np.shape', 'np.size')


def derived_sync(ctx, rule, min_classes=40):
    P = ctx.P
    res = Result(rule, 'every attribute that a constructor computes from '
                 'other attributes of the object is recomputed by each method '
                 'that assigns one of those attributes')
    n = 0
    for cn, c in sorted(P.classes.items()):
        init = c.methods.get('__init__')
        if init is None:
            continue
        n += 1
        stores = {}
        for st in init.node.body:
            if isinstance(st, ast.Assign) and isinstance(
                    st.targets[0], ast.Attribute) and \
                    unparse(st.targets[0].value) == 'self':
                stores[st.targets[0].attr] = st.value
        p2a = {v.id: a for a, v in stores.items() if isinstance(v, ast.Name)}

        def reads_of(expr, depth=0):
            deps = set()
            for x in ast.walk(expr):
                if isinstance(x, ast.Call) and unparse(x.func) in _SHAPE_ONLY:
                    return set()      # depends on the shape only
            for x in ast.walk(expr):
                if isinstance(x, ast.Name) and x.id in p2a:
                    deps.add(p2a[x.id])
                elif isinstance(x, ast.Attribute) and \
                        unparse(x.value) == 'self' and x.attr in stores and \
                        isinstance(x.ctx, ast.Load):
                    deps.add(x.attr)
                elif isinstance(x, ast.Call) and isinstance(
                        x.func, ast.Attribute) and \
                        unparse(x.func.value) == 'self' and depth == 0:
                    g = P.lookup(cn, x.func.attr)
                    if g is not None:
                        for y in ast.walk(g.node):
                            if isinstance(y, ast.Attribute) and unparse(
                                    y.value) == 'self' and isinstance(
                                    y.ctx, ast.Load) and y.attr in stores:
                                deps.add(y.attr)
            return deps
        for d, v in stores.items():
            if isinstance(v, (ast.Name, ast.Constant)):
                continue
            deps = reads_of(v) - {d}
            if not deps:
                continue
            res.saw(init)
            bad = None
            for mn, m in list(c.methods.items()) + list(c.setters.items()):
                if mn == '__init__':
                    continue
                st_attrs = set()
                for x in ast.walk(m.node):
                    if isinstance(x, (ast.Assign, ast.AugAssign)):
                        tgs = x.targets if isinstance(x, ast.Assign) \
                            else [x.target]
                        for t in tgs:
                            for e in (t.elts if isinstance(t, ast.Tuple)
                                      else [t]):
                                if isinstance(e, ast.Attribute) and \
                                        unparse(e.value) == 'self':
                                    st_attrs.add(e.attr)
                if st_attrs & deps and d not in st_attrs:
                    bad = (m, sorted(st_attrs & deps))
                    break
            if bad:
                res.fail(ctx.finding(
                    rule, bad[0], bad[0].node,
                    f'{cn}.__init__ derives self.{d} = {unparse(v)[:50]} from '
                    f'{sorted(deps)}; {bad[0].qual} assigns {bad[1]} without '
                    f'recomputing self.{d}: after that call the object holds '
                    f'a value derived from the old state',
                    construct=f'{cn}.{d} stale after {bad[0].name}'))
            else:
                res.ok(f'{cn}.{d} (from {sorted(deps)}): recomputed wherever '
                       f'its sources are assigned')
    if n < min_classes:
        raise AnalysisError(f'{rule}: only {n} constructors analysed')
    return res

"""C07 -- results transform correctly under symmetries and re-descriptions."""
import ast
from fractions import Fraction as Fr
from ..core import Result
from ..pm import AnalysisError, unparse
from ..match import Code
from ..rat import (Ev, Rat, Sym, Poly, fn_eval, rat_eq, Inconclusive, ONE,
                   ZERO, const_of)
from ..sem import (rat_grade, parity, Inhomogeneous, L as GL, W as GW, ONE_G,
                   fmt_grade)
from .C02 import _inline_methods, cross, dot, _unit_rel
from .C04 import _parax_step

META = {
    'explanation': (
        'SCALE-HOMOGENEOUS (units-of-measure argument on rational normal '
        'forms): the formulas of the real and paraxial trace are homogeneous '
        'in length with positions, radii, paths of grade L and direction '
        'cosines, slopes, normals dimensionless, so scaling every length by s '
        'scales each L^d output by s^d. SCALE-SYSTEM: scale_system multiplies '
        'exactly radii, thicknesses, EPD and physical apertures by the '
        'factor. MIRROR (parity typing on the same forms): under x -> -x '
        '(y -> -y) every stored x, L (y, M) flips and everything else is '
        'unchanged, through rotations, propagation, intersection, normals, '
        'refraction, reflection, clipping and ray launch. W-FLOW: the ray '
        'wavelength is read only as the argument of an index / extinction '
        'lookup or inside the absorption coefficient. DUMMY-IDENTITY: with '
        'equal media refraction returns the incoming direction (real and '
        'paraxial) and successive propagations add.'),
    'declined': ['tilt of a sphere about its centre of curvature (geometric '
                 'invariance of two different prescriptions; numerical)',
                 'numerical side of the other relations'],
    'trusted': ['grade table (positions, radii, thickness, EPD, apertures, '
                'optical path: L; wavelength: W; cosines, slopes, indices, '
                'intensities: 1; even-asphere coefficient i: L^(-1-2i))',
                'literals 1e3 / 1e-3 next to a wavelength are the um/mm '
                'conversion', 'Kennedy 1997: well-typed => scale-invariant'],
    'level_text': ('Static analysis; the scaling and mirror clauses are '
                   'invariance theorems for the typed formulas (proof level '
                   'inside the evidence), the rest structural.'),
}

A = Rat.atom
C = Rat.const


def _dims(extra=None):
    table = {}
    for a in ('self.x', 'self.y', 'self.z', 'rays.x', 'rays.y', 'rays.z',
              'self.radius', 'X', 'Y', 't', 'dx', 'dy', 'dz', 'z', 'y', 'R',
              'self.geometry.radius', 'EPD', 'EPL', 'OFFSET', 'SAG',
              'self.r_max', 'self.r_min', 'xc', 'yc', 'zc'):
        table[a] = GL
    for a in ('self.L', 'self.M', 'self.N', 'rays.L', 'rays.M', 'rays.N',
              'self.k', 'nx', 'ny', 'nz', 'n1', 'n2', 'u', 'rx', 'ry', 'rz',
              'pi', 'Px', 'Py', 'Hx', 'Hy', 'v_x', 'v_y', 'K', 'self.i',
              'th'):
        table[a] = ONE_G
    for a in ('self.w', 'wavelength'):
        table[a] = GW
    if extra:
        table.update(extra)

    def f(atom):
        if atom in table:
            return table[atom]
        if atom.startswith('self.c['):
            try:
                i = int(atom[7:-1])
                return (Fr(-1 - 2 * i), Fr(0))
            except ValueError:
                return None
        if atom.startswith('sgn<') or atom.startswith('cos<') or \
                atom.startswith('sin<'):
            return None
        return None
    return f


def _check_grade(res, ctx, f, name, r, want, dims, sym):
    try:
        g = rat_grade(r, dims, sym)
    except Inhomogeneous as e:
        res.fail(ctx.finding(
            'SCALE-HOMOGENEOUS', f, f.node,
            f'{name} is not homogeneous in length ({e}): the result does not '
            f'scale with the lens', construct=f'{name} homogeneity'))
        return
    if g is None:
        res.notes.append(f'{name}: an atom has no grade (not checked)')
        return
    if g == 'zero' or g == want:
        res.ok(f'{name}: grade {fmt_grade(g)}')
    else:
        res.fail(ctx.finding(
            'SCALE-HOMOGENEOUS', f, f.node,
            f'{name} has dimension {fmt_grade(g)}, expected '
            f'{fmt_grade(want)}: scaling every length by s does not scale it '
            f'by the right power', construct=f'{name} grade'))


def scale_homogeneous(ctx):
    P = ctx.P
    res = Result('SCALE-HOMOGENEOUS', 'trace formulas are homogeneous in '
                 'length with the declared grades (=> results scale with the '
                 'lens)', level='proof')
    # propagate
    f = P.func('RealRays.propagate')
    res.saw(f)
    sym = Sym()

    def inl(call, ev):
        if isinstance(call.func, ast.Attribute) and call.func.attr == 'k':
            return A('K')
    ev = fn_eval(P, f, sym=sym, inline=inl,
                 choose=lambda t, e: True if 'material' in unparse(t) else (False if isinstance(t, ast.Name) else None))
    dims = _dims()
    for k in ('self.x', 'self.y', 'self.z'):
        _check_grade(res, ctx, f, f'propagate {k}', ev.heap[k], GL, dims, sym)
    # absorption exponent: alpha * t * 1e3 with 1e3 the um/mm conversion
    ex = [x[0] for a, (k, x) in sym.defs.items() if k == 'exp']
    if ex:
        conv = ex[0] / C(1000) * A('UM_PER_MM')
        d2 = _dims({'UM_PER_MM': (Fr(-1), Fr(1))})
        _check_grade(res, ctx, f, 'absorption exponent (with um/mm)', conv,
                     ONE_G, d2, sym)
    # rotations
    for fn, ang in (('rotate_x', 'rx'), ('rotate_y', 'ry'), ('rotate_z', 'rz')):
        g = P.func('RealRays.' + fn)
        res.saw(g)
        sym = Sym()
        ev = fn_eval(P, g, [A(ang)], sym=sym)
        for k, v in ev.heap.items():
            want = GL if k[-1] in 'xyz' else ONE_G
            _check_grade(res, ctx, g, f'{fn} {k}', v, want, dims, sym)
    # refraction / reflection
    for q in ('RealRays.refract', 'RealRays.reflect'):
        g = P.func(q)
        res.saw(g)
        sym = Sym()
        ev = fn_eval(P, g, sym=sym, inline=_inline_methods(
            P, 'RealRays', {'_align_surface_normal'}))
        for k in ('self.L', 'self.M', 'self.N'):
            _check_grade(res, ctx, g, f'{g.name} {k}', ev.heap[k], ONE_G, dims,
                         sym)
    # conic intersection and normals
    g = P.func('StandardGeometry.distance')
    res.saw(g)
    sym = Sym()
    # masks of discarded roots (behind the ray, off the conic branch) are
    # False for the ray considered
    ev = Ev(sym=sym, choose=lambda t_, e_: False)
    ev.env['rays'] = 'rays'
    for s in g.node.body:
        if isinstance(s, ast.With):
            for s2 in s.body:
                if isinstance(s2, ast.Assign):
                    ev.stmt(s2)
        elif isinstance(s, ast.Assign) and isinstance(s.targets[0], ast.Name) \
                and s.targets[0].id in ('a', 'b', 'c', 'd'):
            ev.stmt(s)
    for nm, want in (('a', ONE_G), ('b', GL), ('c', (Fr(2), Fr(0))),
                     ('t1', GL), ('t2', GL)):
        if nm in ev.env and isinstance(ev.env[nm], Rat):
            _check_grade(res, ctx, g, f'distance {nm}', ev.env[nm], want, dims,
                         sym)
    for cn in ('StandardGeometry', 'EvenAsphere'):
        sag = P.lookup(cn, 'sag')
        sn = P.lookup(cn, '_surface_normal') or P.lookup(cn, 'surface_normal')
        res.saw(sag), res.saw(sn)
        sym = Sym()
        lens = {'self.c': 3}
        z = fn_eval(P, sag, [A('X'), A('Y')], sym=sym, lens=lens).returned
        _check_grade(res, ctx, sag, f'{cn}.sag', z, GL, dims, sym)
        if sn.name == 'surface_normal':
            evn = fn_eval(P, sn, None, sym=sym,
                          heap={'rays.x': A('X'), 'rays.y': A('Y')}, lens=lens)
        else:
            evn = fn_eval(P, sn, [A('X'), A('Y')], sym=sym, lens=lens)
        for i, comp in enumerate(evn.returned):
            _check_grade(res, ctx, sn, f'{cn} normal[{i}]', comp, ONE_G, dims,
                         sym)
    # paraxial step
    g = P.func('Surface._trace_paraxial')
    res.saw(g)
    for mirror in (False, True):
        h = _parax_step(P, g, A('y'), A('u'), mirror)
        _check_grade(res, ctx, g, f'paraxial y (mirror={mirror})',
                     h['rays.y'], GL, dims, None)
        _check_grade(res, ctx, g, f'paraxial u (mirror={mirror})',
                     h['rays.u'], ONE_G, dims, None)
    # aperture test compares like with like
    g = P.func('RadialAperture.clip')
    res.saw(g)
    for n in ast.walk(g.node):
        if isinstance(n, ast.Compare):
            e2 = Ev()
            e2.env['rays'] = 'rays'
            for s in g.node.body:
                if isinstance(s, ast.Assign) and isinstance(s.targets[0],
                                                            ast.Name) and \
                        not isinstance(s.value, ast.BinOp) or (
                        isinstance(s, ast.Assign) and
                        isinstance(s.targets[0], ast.Name) and
                        isinstance(s.value, ast.BinOp) and
                        not isinstance(s.value.op, (ast.BitOr, ast.BitAnd))):
                    try:
                        e2.stmt(s)
                    except Inconclusive:
                        pass
            try:
                l, r = e2.ev(n.left), e2.ev(n.comparators[0])
            except Inconclusive:
                continue
            try:
                gl, gr = rat_grade(l, dims), rat_grade(r, dims)
            except Inhomogeneous as e:
                res.fail(ctx.finding(
                    'SCALE-HOMOGENEOUS', g, n,
                    f'aperture test operand is not homogeneous in length '
                    f'({e}): clipping does not scale with the lens',
                    construct='clip comparison grades'))
                continue
            if gl is not None and gr is not None and gl == gr:
                res.ok(f'clip: {unparse(n)} compares {fmt_grade(gl)} with '
                       f'{fmt_grade(gr)}')
            elif gl is not None and gr is not None:
                res.fail(ctx.finding(
                    'SCALE-HOMOGENEOUS', g, n,
                    f'aperture test compares {fmt_grade(gl)} with '
                    f'{fmt_grade(gr)}: clipping does not scale with the lens',
                    construct='clip comparison grades'))
    res.require(34, 'graded obligations')
    return res


def scale_system(ctx):
    P = ctx.P
    res = Result('SCALE-SYSTEM', 'scale_system multiplies exactly the radii, '
                 'thicknesses, entrance pupil diameter and physical apertures '
                 'by the factor, each read before anything is changed')
    f = P.func('Optic.scale_system')
    res.saw(f)
    calls = {}
    for c in ast.walk(f.node):
        if isinstance(c, ast.Call) and isinstance(c.func, ast.Attribute) and \
                c.func.attr in ('set_radius', 'set_thickness', 'scale'):
            calls.setdefault(c.func.attr, []).append(c)
    for nm, src in (('set_radius', 'radii[surf_idx]'),
                    ('set_thickness', 'thicknesses[surf_idx]')):
        ok = False
        if nm in calls:
            c = calls[nm][0]
            try:
                v = Ev().ev(c.args[0])
                ok = rat_eq(v, A(src) * A('scale_factor')) and \
                    unparse(c.args[1]) == 'surf_idx'
            except Inconclusive:
                ok = False
        if ok:
            res.ok(f'{nm}({src} * scale_factor, surf_idx)')
        else:
            res.fail(ctx.finding('SCALE-SYSTEM', f, f.node,
                                 f'{nm} does not receive old * scale_factor '
                                 f'for the same surface',
                                 construct=f'scale {nm}'))
    s = Code(P, f)
    checks = [
        ('radii = self.surface_group.radii' in s and
         'self.surface_group.get_thickness(surf_idx)[0]' in s and
         s.index('thicknesses = [') < s.index('self.set_radius'),
         'radii and thicknesses captured before any edit'),
        ('for surf_idx in range(num_surfaces)' in s,
         'every surface visited'),
        ('not np.isinf(radii[surf_idx])' in s and
         'not np.isinf(thicknesses[surf_idx])' in s,
         'infinite radii / thicknesses left alone'),
        ("if self.aperture.ap_type == 'EPD'" in s and
         'self.aperture.value *= scale_factor' in s,
         'EPD multiplied by the factor (only for an EPD aperture)'),
        ('surface.aperture.scale(scale_factor)' in s and
         'for surface in self.surface_group.surfaces' in s and
         'surface.aperture is not None' in s,
         'every physical aperture scaled'),
    ]
    for ok, what in checks:
        if ok:
            res.ok(what)
        else:
            res.fail(ctx.finding('SCALE-SYSTEM', f, f.node,
                                 f'scale_system: {what} violated',
                                 construct='scale_system ' + what[:40]))
    g = P.func('RadialAperture.scale')
    res.saw(g)
    ev = fn_eval(P, g)
    if rat_eq(ev.heap.get('self.r_max', ZERO),
              A('self.r_max') * A('scale_factor')) and \
            rat_eq(ev.heap.get('self.r_min', ZERO),
                   A('self.r_min') * A('scale_factor')):
        res.ok('RadialAperture.scale: r_max, r_min *= factor')
    else:
        res.fail(ctx.finding('SCALE-SYSTEM', g, g.node,
                             'RadialAperture.scale does not multiply both '
                             'radii by the factor',
                             construct='RadialAperture.scale'))
    return res


def _par_check(res, ctx, f, name, r, want, odd, sym, axis):
    try:
        p = parity(r, odd, sym)
    except Inhomogeneous as e:
        res.fail(ctx.finding(
            'MIRROR', f, f.node,
            f'{name}: {e} ({axis} -> -{axis}): mirrored inputs do not give '
            f'mirrored rays', construct=f'{name} parity {axis}'))
        return
    if p == 0 or p == want:
        res.ok(f'{name}: {"odd" if p == -1 else "even" if p == 1 else "zero"} '
               f'under {axis} -> -{axis}')
    else:
        res.fail(ctx.finding(
            'MIRROR', f, f.node,
            f'{name} is {"odd" if p == -1 else "even"} under {axis} -> '
            f'-{axis}, expected {"odd" if want == -1 else "even"}: mirrored '
            f'inputs do not give mirrored rays',
            construct=f'{name} parity {axis}'))


def mirror(ctx):
    P = ctx.P
    res = Result('MIRROR', 'under x -> -x (and y -> -y) positions and '
                 'direction cosines along that axis flip, everything else is '
                 'unchanged, in every step of launch and trace',
                 level='proof')
    for axis, pos, dc, nrm, rot_odd in (
            ('x', 'x', 'L', 'nx', ('ry', 'rz')),
            ('y', 'y', 'M', 'ny', ('rx', 'rz'))):
        odd_names = {f'self.{pos}', f'self.{dc}', f'rays.{pos}', f'rays.{dc}',
                     nrm, 'P' + axis, 'H' + axis, 'd' + axis, axis.upper(),
                     f'self.{dc}0', f'rays.{dc}0'} | set(rot_odd)

        def odd(a, odd_names=odd_names):
            return a in odd_names

        def want_of(key):
            k = key.split('.')[-1]
            return -1 if k in (pos, dc, dc + '0') else 1
        # rotations, translate, propagate
        for fn, arg in (('rotate_x', 'rx'), ('rotate_y', 'ry'),
                        ('rotate_z', 'rz')):
            f = P.func('RealRays.' + fn)
            res.saw(f)
            sym = Sym()
            ev = fn_eval(P, f, [A(arg)], sym=sym)
            for k, v in ev.heap.items():
                _par_check(res, ctx, f, f'{fn} {k}', v, want_of(k), odd, sym,
                           axis)
        f = P.func('BaseRays.translate')
        ev = fn_eval(P, f)
        for k, v in ev.heap.items():
            _par_check(res, ctx, f, f'translate {k}', v, want_of(k), odd, None,
                       axis)
        f = P.func('RealRays.propagate')
        res.saw(f)
        sym = Sym()
        ev = fn_eval(P, f, sym=sym, choose=lambda t, e: False)
        for k, v in ev.heap.items():
            _par_check(res, ctx, f, f'propagate {k}', v, want_of(k), odd, sym,
                       axis)
        # refraction / reflection
        for q in ('RealRays.refract', 'RealRays.reflect'):
            f = P.func(q)
            res.saw(f)
            sym = Sym()
            ev = fn_eval(P, f, sym=sym, inline=_inline_methods(
                P, 'RealRays', {'_align_surface_normal'}))
            for k in ('self.L', 'self.M', 'self.N'):
                _par_check(res, ctx, f, f'{f.name} {k}', ev.heap[k], want_of(k),
                           odd, sym, axis)
        # conic distance and normals
        f = P.func('StandardGeometry.distance')
        res.saw(f)
        sym = Sym()
        ev = Ev(sym=sym, choose=lambda t_, e_: False)
        ev.env['rays'] = 'rays'
        for s in f.node.body:
            if isinstance(s, ast.With):
                for s2 in s.body:
                    if isinstance(s2, ast.Assign):
                        ev.stmt(s2)
            elif isinstance(s, ast.Assign) and isinstance(
                    s.targets[0], ast.Name) and s.targets[0].id in 'abcd':
                ev.stmt(s)
        for nm in ('t1', 't2'):
            if nm in ev.env:
                _par_check(res, ctx, f, f'distance {nm}', ev.env[nm], 1, odd,
                           sym, axis)
        for cn in ('StandardGeometry', 'EvenAsphere'):
            sn = P.lookup(cn, '_surface_normal') or \
                P.lookup(cn, 'surface_normal')
            res.saw(sn)
            sym = Sym()
            lens = {'self.c': 2}
            if sn.name == 'surface_normal':
                evn = fn_eval(P, sn, None, sym=sym,
                              heap={'rays.x': A('X'), 'rays.y': A('Y')},
                              lens=lens)
            else:
                evn = fn_eval(P, sn, [A('X'), A('Y')], sym=sym, lens=lens)
            for i, comp in enumerate(evn.returned):
                want = -1 if i == (0 if axis == 'x' else 1) else 1
                _par_check(res, ctx, sn, f'{cn} normal[{i}]', comp, want, odd,
                           sym, axis)
        # frame change: localize with decentre / tilt of that parity
    # ray launch
    from .C03 import _eval_gen
    for tele, inf, ft, name in ((False, True, 'angle', 'infinite/angle'),
                                (False, False, 'object_height',
                                 'finite/height')):
        ev, built, sym = _eval_gen(P, tele, inf, ft)
        gen = P.func('RayGenerator.generate_rays')
        res.saw(gen)
        names = ['x0', 'y0', 'z0', 'L', 'M', 'N']
        for axis, oddset, flips in (('x', {'Hx', 'Px'}, {'x0', 'L'}),
                                    ('y', {'Hy', 'Py'}, {'y0', 'M'})):
            def odd(a, oddset=oddset):
                return a in oddset
            for nm, v in zip(names, built['args'][:6]):
                _par_check(res, ctx, gen, f'launch {name} {nm}', v,
                           -1 if nm in flips else 1, odd, sym, axis)
    # vignetting lookup is even in (Hx, Hy)
    f = P.func('FieldGroup.get_vig_factor')
    res.saw(f)
    symv = Sym()

    def inl(call, ev):
        return None
    evv = Ev(sym=symv, choose=lambda t, e: True)
    evv.env['Hx'], evv.env['Hy'] = A('Hx'), A('Hy')
    hval = None
    for s_ in ast.walk(f.node):
        if isinstance(s_, ast.Call) and isinstance(s_.func, ast.Attribute) and \
                s_.func.attr == 'interp' and s_.args:
            # the abscissa the factors are looked up at
            defs = {n_.targets[0].id: n_.value for n_ in ast.walk(f.node)
                    if isinstance(n_, ast.Assign) and
                    isinstance(n_.targets[0], ast.Name)}
            a0 = s_.args[0]
            if isinstance(a0, ast.Name) and a0.id in defs:
                a0 = defs[a0.id]
            try:
                hval = evv.ev(a0)
            except Inconclusive:
                hval = None
            break
    if hval is None:
        res.notes.append('get_vig_factor: lookup abscissa not evaluable')
    else:
        for axis, on in (('x', {'Hx'}), ('y', {'Hy'})):
            opaque_odd = [a for a in hval.atoms() if a in symv.defs and
                          symv.defs[a][0].startswith('call:') and any(
                              isinstance(x, Rat) and (on & x.atoms())
                              for x in symv.defs[a][1])]
            if opaque_odd:
                res.fail(ctx.finding(
                    'MIRROR', f, f.node,
                    f'the vignetting lookup abscissa passes H{axis} through '
                    f'{opaque_odd[0].split("<")[0]}, which is not even in '
                    f'H{axis}: mirrored fields get different pupil shrink '
                    f'factors', construct=f'vignetting abscissa parity {axis}'))
            else:
                _par_check(res, ctx, f, 'vignetting abscissa', hval, 1,
                           lambda a, on=on: a in on, symv, axis)
    # aperture test is even
    f = P.func('RadialAperture.clip')
    e2 = Ev()
    e2.env['rays'] = 'rays'
    for s in f.node.body:
        if isinstance(s, ast.Assign) and isinstance(s.targets[0], ast.Name) \
                and isinstance(s.value, ast.BinOp) and not isinstance(
                    s.value.op, (ast.BitOr, ast.BitAnd)):
            e2.stmt(s)
            for axis, on in (('x', {'rays.x'}), ('y', {'rays.y'})):
                _par_check(res, ctx, f, f'clip {s.targets[0].id}',
                           e2.env[s.targets[0].id], 1, lambda a, on=on: a in on,
                           None, axis)
    res.require(80, 'parity obligations')
    return res


def w_flow(ctx):
    P = ctx.P
    res = Result('W-FLOW', 'the ray wavelength is read only as the argument '
                 'of an index / extinction lookup or in the absorption '
                 'coefficient: a dispersion-free lens is wavelength '
                 'independent')
    n = 0
    scope = ('optiland/rays/real_rays.py', 'optiland/surfaces/',
             'optiland/coatings.py', 'optiland/jones.py', 'optiland/scatter.py',
             'optiland/geometries/', 'optiland/coordinate_system.py',
             'optiland/physical_apertures.py')
    for f in P.all_funcs():
        if not f.module.startswith(scope):
            continue
        env = None
        parents = {}
        for node in ast.walk(f.node):
            for ch in ast.iter_child_nodes(node):
                parents[ch] = node
        for node in ast.walk(f.node):
            if not (isinstance(node, ast.Attribute) and node.attr == 'w' and
                    isinstance(node.ctx, ast.Load)):
                continue
            if env is None:
                env = P.local_env(f)
            bt = P.expr_t(node.value, env, f.cls)
            if not (isinstance(bt, str) and bt in ('RealRays', 'BaseRays',
                                                   'PolarizedRays',
                                                   'ParaxialRays')):
                continue
            n += 1
            res.saw(f)
            par = parents.get(node)
            ok = False
            if isinstance(par, ast.Call) and isinstance(par.func, ast.Attribute)\
                    and par.func.attr in ('n', 'k') and node in par.args:
                ok = True
            elif isinstance(par, ast.BinOp) and isinstance(par.op, ast.Div) and \
                    par.right is node and 'k' in unparse(par.left):
                ok = True      # alpha = 4 pi k / w
            if ok:
                res.ok(f'{f.qual}: {unparse(par, 60)}')
            else:
                res.fail(ctx.finding(
                    'W-FLOW', f, par if par is not None else node,
                    'the ray wavelength enters the trace other than through '
                    'the media\'s index / extinction: a dispersion-free lens '
                    'would depend on wavelength'))
    res.require(6, 'reads of rays.w')
    return res


def dummy_identity(ctx):
    P = ctx.P
    res = Result('DUMMY-IDENTITY', 'with equal media on both sides refraction '
                 'returns the incoming direction (real and paraxial); two '
                 'successive propagations add', level='proof')
    f = P.func('RealRays.refract')
    res.saw(f)
    sym = Sym()
    ev = fn_eval(P, f, [A('nx'), A('ny'), A('nz'), A('n0'), A('n0')], sym=sym,
                 inline=_inline_methods(P, 'RealRays',
                                        {'_align_surface_normal'}))
    d = (A('self.L'), A('self.M'), A('self.N'))
    n = (A('nx'), A('ny'), A('nz'))
    t = tuple(ev.heap[k] for k in ('self.L', 'self.M', 'self.N'))
    rel = _unit_rel(sym, d, n)
    roots = [a for a, (k, x) in sym.defs.items() if k == 'sqrt']
    sg = [a for a, (k, x) in sym.defs.items() if k == 'sgn']
    if len(roots) != 1 or len(sg) != 1:
        raise AnalysisError('DUMMY-IDENTITY: unexpected atoms')
    root = A(roots[0])
    dot_al = A(sg[0]) * dot(d, n)
    # root^2 == dot_al^2  (both >= 0  =>  root == dot_al)
    if sym.eq(sym.defs[roots[0]][1], dot_al * dot_al, rel):
        res.ok('n1 = n2: root^2 == (d.n)^2, both non-negative')
        ok = all(sym.is_zero((t[i] - d[i]) * (root + dot_al), rel)
                 for i in range(3))
        if ok:
            res.ok('n1 = n2: refracted direction == incoming direction')
        else:
            res.fail(ctx.finding('DUMMY-IDENTITY', f, f.node,
                                 'a surface between equal media deviates the '
                                 'ray', construct='refract mu=1 identity'))
    else:
        res.fail(ctx.finding('DUMMY-IDENTITY', f, f.node,
                             'with equal media the radicand is not (d.n)^2',
                             construct='refract mu=1 radicand'))
    g = P.func('Surface._trace_paraxial')
    res.saw(g)
    h = _parax_step(P, g, A('y'), A('u'), False)
    same = Rat(h['rays.u'].n.subst('n2', Poly.atom('n1')),
               h['rays.u'].d.subst('n2', Poly.atom('n1')))
    if rat_eq(same, A('u')):
        res.ok('paraxial: n1 = n2 => u\' = u')
    else:
        res.fail(ctx.finding('DUMMY-IDENTITY', g, g.node,
                             'paraxial refraction between equal media changes '
                             'the slope', construct='paraxial mu=1 identity'))
    p = P.func('RealRays.propagate')
    res.saw(p)
    heap = {}
    fn_eval(P, p, [A('t1')], heap=heap, choose=lambda t, e: False)
    fn_eval(P, p, [A('t2')], heap=heap, choose=lambda t, e: False)
    heap2 = {}
    fn_eval(P, p, [A('t1') + A('t2')], heap=heap2, choose=lambda t, e: False)
    if all(rat_eq(heap[k], heap2[k]) for k in heap2):
        res.ok('propagate(t1) then propagate(t2) == propagate(t1 + t2)')
    else:
        res.fail(ctx.finding('DUMMY-IDENTITY', p, p.node,
                             'successive propagations do not add',
                             construct='propagate additivity'))
    return res


def scale_relies_on_thickness_edit(ctx):
    # scale_system is implemented through set_thickness: the scaled lens is
    # exact only if a thickness edit is a rigid shift that keeps surface 1 at
    # z = 0 (the frame EPL / ray launch are expressed in)
    from .C01 import thickness_edit
    r = thickness_edit(ctx)
    r.rule = 'SCALE-VIA-THICKNESS-EDIT'
    for f in r.findings:
        f.rule = 'SCALE-VIA-THICKNESS-EDIT'
    return r


def c01_arg_wiring_rule(ctx):
    """shared with C01: the prescription this property reads (media on both
    sides of each surface, placement and tilt of the surface frames) is the
    one the editing API was given."""
    from .C01 import arg_wiring_rule as _r
    return _r(ctx)


def c01_init_stores(ctx):
    """shared with C01: the prescription this property reads (media on both
    sides of each surface, placement and tilt of the surface frames) is the
    one the editing API was given."""
    from .C01 import init_stores as _r
    return _r(ctx)


def c04_chief_ray(ctx):
    """shared with C04: the paraxial chief ray of the maximum (radial) field"""
    from .C04 import chief_ray as _r
    return _r(ctx)

LENGTH_ATTRS = {
    # attribute written (typed store) : what it is
    ('CoordinateSystem', 'x'): 'decentres (cs.x, cs.y)',
    ('CoordinateSystem', 'y'): 'decentres (cs.x, cs.y)',
    ('EvenAsphere', 'c'): 'aspheric / polynomial coefficients and norms',
    ('PolynomialGeometry', 'c'): 'aspheric / polynomial coefficients and norms',
    ('ChebyshevPolynomialGeometry', 'c'):
        'aspheric / polynomial coefficients and norms',
    ('ChebyshevPolynomialGeometry', 'norm_x'):
        'aspheric / polynomial coefficients and norms',
    ('Field', 'y'): 'object-height field values',
    # lengths held by the rules that update() re-applies: left unscaled they
    # pull the scaled lens back at the next update
    ('MarginalRayHeightSolve', 'height'): 'solve target heights',
    ('Pickup', 'offset'): 'radius / thickness pickup offsets',
}


def scale_covers(ctx):
    """every quantity of the prescription that is a length (or a power of a
    length) is multiplied by scale_system; the list comes from the dimension
    table of the design (A.2): radii, thicknesses, EPD and physical apertures
    are handled, the ones below are checked here"""
    P, eff = ctx.P, ctx.effects
    res = Result('SCALE-COVERS', 'scale_system writes every length-valued '
                 'prescription quantity: decentres, aspheric / polynomial '
                 'coefficients (as powers of the length) and norms, '
                 'object-height fields')
    f = P.func('Optic.scale_system')
    res.saw(f)
    written = set()
    for g in eff.closure(f):
        fe = eff.fe.get(g.qual if hasattr(g, 'qual') else g)
        if fe is None:
            continue
        for st in fe.stores:
            written.add((st.base_t, st.attr))
    missing = {}
    for (cn, attr), what in LENGTH_ATTRS.items():
        hit = any(a == attr and (t == cn or (t in P.classes and
                                            cn in P.mro(t)) or
                                 (cn in P.classes and t in P.mro(cn)))
                  for t, a in written if t)
        if not hit:
            missing.setdefault(what, []).append(f'{cn}.{attr}')
    # the power of s each coefficient gets is the dimension of the coefficient:
    # a sag term c x^p y^q is a length, so c scales with s^(1 - p - q)
    from ..match import find
    laws = [
        ('even asphere: c_i r^(2(i+1)) -> c_i s^(1 - 2(i+1))',
         find(f, '[$c * scale_factor ** (1 - 2 * ($i + 1)) '
                 'for $i, $c in enumerate($g.c)]') or
         find(f, '$g.c[$i] *= scale_factor ** (1 - 2 * ($i + 1))')),
        ('polynomial: c_ij x^i y^j -> c_ij s^(1 - i - j)',
         find(f, '$g.c[$i][$j] *= scale_factor ** (1 - $i - $j)')),
        ('Chebyshev: coefficients and normalisation lengths -> x s',
         find(f, '$g.c = $g.c * scale_factor') and
         find(f, '$g.norm_x = $g.norm_x * scale_factor') and
         find(f, '$g.norm_y = $g.norm_y * scale_factor')),
        ('decentres -> x s',
         find(f, '$g.cs.x = $g.cs.x * scale_factor') and
         find(f, '$g.cs.y = $g.cs.y * scale_factor')),
    ]
    if 'aspheric / polynomial coefficients and norms' not in missing and \
            'decentres (cs.x, cs.y)' not in missing:
        for what_, ok_ in laws:
            if ok_:
                res.ok('scale_system: ' + what_)
            else:
                res.fail(ctx.finding(
                    'SCALE-COVERS', f, f.node,
                    'scale_system does not multiply by the power of s the '
                    'quantity carries: ' + what_,
                    construct='scale power: ' + what_.split(':')[0]))
    # every first-power length written by scale_system itself is written as
    # `q = q * scale_factor` (either order, or `q *= scale_factor`)
    first_power = ('height', 'offset', 'x', 'y', 'norm_x', 'norm_y', 'value',
                   'r_max', 'r_min')
    nlaw = 0
    for st in ast.walk(f.node):
        tgt = val = None
        if isinstance(st, ast.Assign) and len(st.targets) == 1:
            tgt, val = st.targets[0], st.value
        elif isinstance(st, ast.AugAssign):
            tgt, val = st.target, st
        if not (isinstance(tgt, ast.Attribute) and tgt.attr in first_power):
            continue
        t = unparse(tgt)
        if isinstance(val, ast.AugAssign):
            ok_ = isinstance(val.op, ast.Mult) and \
                unparse(val.value) == 'scale_factor'
        else:
            ok_ = isinstance(val, ast.BinOp) and isinstance(val.op, ast.Mult) \
                and {unparse(val.left), unparse(val.right)} == \
                {t, 'scale_factor'}
        nlaw += 1
        if ok_:
            res.ok(f'scale_system: {t} -> {t} * s')
        else:
            res.fail(ctx.finding(
                'SCALE-COVERS', f, st,
                f'scale_system writes the length {t} as '
                f'`{unparse(st)[:70]}`, which is not {t} * scale_factor',
                construct=f'scale law {t}'))
    if nlaw < 6:
        raise AnalysisError(f'SCALE-COVERS: only {nlaw} first-power stores '
                            f'found in scale_system, 8 confirmed by reading')
    for what in sorted(set(LENGTH_ATTRS.values())):
        if what in missing:
            res.fail(ctx.finding(
                'SCALE-COVERS', f, f.node,
                f'scale_system does not scale the {what} '
                f'({", ".join(missing[what])}): the result is not the lens '
                f'with every length multiplied by s',
                construct=f'scale_system leaves {what}'))
        else:
            res.ok(f'scale_system scales the {what}')
    return res


def c03_xy_exchange(ctx):
    """shared with C03: exchanging x and y (a re-description of a rotationally
    symmetric lens) exchanges the x and y parts of every launched ray"""
    from .C03 import xy_exchange as _r
    return _r(ctx)


def c03_registry(ctx):
    """shared with C03: the vignetting table is a function of the field
    magnitude, so a field list written in the mirror image (negative y)
    keeps its vignetting factors"""
    from .C03 import registry as _r
    return _r(ctx)


def c01_insertion(ctx):
    """shared with C01: inserting a dummy surface into an existing lens"""
    from .C01 import insertion as _r
    return _r(ctx)


def aperture_scaled_once(ctx):
    """scale_system multiplies every length once: a physical aperture object
    that is carried by several surfaces must not be scaled once per surface"""
    P = ctx.P
    res = Result('APERTURE-SCALED-ONCE', 'scale_system scales each physical '
                 'aperture object once, however many surfaces carry it')
    f = P.func('Optic.scale_system')
    res.saw(f)
    loops = [n for n in ast.walk(f.node) if isinstance(n, ast.For) and any(
        isinstance(c, ast.Call) and isinstance(c.func, ast.Attribute) and
        c.func.attr == 'scale' and 'aperture' in unparse(c.func.value)
        for c in ast.walk(n))]
    if not loops:
        raise AnalysisError('scale_system: aperture scaling loop not found')
    lp = loops[0]
    guarded = any(isinstance(t, ast.Compare) and
                  isinstance(t.ops[0], (ast.NotIn, ast.In)) and
                  ('id(' in unparse(t.left) or 'aperture' in unparse(t.left))
                  for t in ast.walk(lp)) or \
        'set(' in unparse(lp.iter) or 'unique' in unparse(lp.iter) or \
        '.values()' in unparse(lp.iter)
    if guarded:
        res.ok('aperture objects are de-duplicated before scaling')
    else:
        res.fail(ctx.finding(
            'APERTURE-SCALED-ONCE', f, lp,
            'the aperture loop calls surface.aperture.scale(factor) once per '
            'surface: a RadialAperture object shared by two surfaces ends up '
            'scaled by factor^2 (radii (4, 20) instead of (2, 10) after '
            'scale_system(2): marginal rays are clipped, rays through the '
            'central obstruction pass)',
            construct='shared aperture scaled per surface'))
    return res


def c17_pol_local_frame(ctx):
    """shared with C17: describing a surface in a rotated frame must not
    change polarized intensities"""
    from .C17 import pol_local_frame as _r
    return _r(ctx)


def c04_parax_centred(ctx):
    """shared with C04: scaling a lens with a decentred surface scales its focal length"""
    from .C04 import parax_centred as _r
    return _r(ctx)



def no_stale(ctx):
    from .common import stale_cache
    from .common import anchor_classes
    # scale_system reaches the physical apertures (APERTURE-SCALED-ONCE):
    # state added to them outlives the scaling as well
    aps = [k for k, c in ctx.P.classes.items()
           if c.module == 'optiland/physical_apertures.py']
    return stale_cache(ctx, 'NO-STALE-STATE', [],
                       'the re-described lens is answered with values of the '
                       'original one', min_methods=0,
                       new_state=sorted(set(anchor_classes(ctx)) | set(aps)))


# --------------------------------------------------------------------------
# LENGTH-GRADES: a dimension lint over the syntax tree.  Every expression gets
# the grade 'L' (a length of the lens: scales with it), '0' (pure number) or
# unknown from a small table of attribute and accessor names; a sum, a
# difference, max / min / clip / where of operands with *different known*
# grades mixes a length with an absolute number: the value cannot scale with
# the lens.  Comparisons are not looked at (tolerances are absolute by
# design).  Unknown grades never produce a report.
_GL, _GZ = 'L', '0'
_ATTR_GRADE = {'x': _GL, 'y': _GL, 'z': _GL, 'radius': _GL, 'r_max': _GL,
               'r_min': _GL, 'positions': _GL, 'thickness': _GL,
               'semi_aperture': _GL, 'radii': _GL, 'opd': _GL,
               'L': _GZ, 'M': _GZ, 'N': _GZ, 'vx': _GZ, 'vy': _GZ, 'k': _GZ}
_CALL_GRADE = {'EPD': _GL, 'EPL': _GL, 'XPL': _GL, 'XPD': _GL, 'f1': _GL,
               'f2': _GL, 'F1': _GL, 'F2': _GL, 'P1': _GL, 'P2': _GL,
               'N1': _GL, 'N2': _GL, 'sag': _GL, 'get_thickness': _GL,
               'FNO': _GZ, 'magnification': _GZ, 'n': _GZ}
_NAME_GRADE = {'Px': _GZ, 'Py': _GZ, 'Hx': _GZ, 'Hy': _GZ}
# mixed-grade sites of the reference tree, each read: the launch plane of a
# paraxial ray of zero slope (its heights do not depend on where it starts)
_GRADE_EXEMPT = {
    ('Paraxial.f1', 'surfaces.positions[0] - 1'),
    ('Paraxial.f2', 'self.surfaces.positions[1] - 1'),
    ('Paraxial.F1', 'surfaces.positions[0] - 1'),
    ('Paraxial.F2', 'self.surfaces.positions[1] - 1'),
    ('Paraxial.marginal_ray', 'self.surfaces.positions[1] - 10'),
}


def _grade(e, env, out):
    def same(gs, node):
        known = [g for g in gs if g not in (None, 'any')]
        if len(set(known)) > 1:
            out.append(node)
            return None
        if None in gs:
            return None
        return known[0] if known else 'any'
    if isinstance(e, ast.Constant):
        if isinstance(e.value, (int, float)) and not isinstance(e.value, bool):
            return 'any' if e.value == 0 else _GZ
        return None
    if isinstance(e, ast.Name):
        return env.get(e.id, _NAME_GRADE.get(e.id))
    if isinstance(e, ast.Attribute):
        if unparse(e) == 'np.pi':
            return _GZ
        if unparse(e) == 'np.inf':
            return 'any'
        return _ATTR_GRADE.get(e.attr)
    if isinstance(e, ast.Subscript):
        return _grade(e.value, env, out)
    if isinstance(e, ast.UnaryOp):
        return _grade(e.operand, env, out)
    if isinstance(e, ast.IfExp):
        return same([_grade(e.body, env, out), _grade(e.orelse, env, out)], e)
    if isinstance(e, ast.BinOp):
        a, b = _grade(e.left, env, out), _grade(e.right, env, out)
        if isinstance(e.op, (ast.Add, ast.Sub)):
            return same([a, b], e)
        if isinstance(e.op, ast.Mult):
            if 'any' in (a, b):
                return 'any'
            return {(_GL, _GZ): _GL, (_GZ, _GL): _GL,
                    (_GZ, _GZ): _GZ}.get((a, b))
        if isinstance(e.op, ast.Div):
            if a == 'any':
                return 'any'
            return {(_GL, _GZ): _GL, (_GZ, _GZ): _GZ,
                    (_GL, _GL): _GZ}.get((a, b))
        if isinstance(e.op, ast.Pow) and a == _GZ:
            return _GZ
        return None
    if isinstance(e, ast.Call):
        nm = unparse(e.func).split('.')[-1]
        args = list(e.args)
        if nm in ('max', 'min', 'maximum', 'minimum', 'fmax', 'fmin') and \
                len(args) >= 2:
            return same([_grade(a, env, out) for a in args], e)
        if nm == 'clip' and len(args) == 3:
            return same([_grade(a, env, out) for a in args], e)
        if nm == 'where' and len(args) == 3:
            _grade(args[0], env, out)
            return same([_grade(a, env, out) for a in args[1:]], e)
        if nm in ('max', 'min', 'amin', 'amax', 'nanmin', 'nanmax', 'abs',
                  'absolute', 'mean', 'sum', 'copy', 'asarray', 'array',
                  'ravel', 'float', 'atleast_1d', 'squeeze') and args:
            return _grade(args[0], env, out)
        for a in args:
            _grade(a, env, out)
        if nm in ('sin', 'cos', 'tan', 'arcsin', 'arccos', 'arctan',
                  'deg2rad', 'radians', 'exp', 'log'):
            return _GZ
        if nm in _CALL_GRADE and isinstance(e.func, ast.Attribute):
            return _CALL_GRADE[nm]
        return None
    return None


def length_grades(ctx):
    P = ctx.P
    res = Result('LENGTH-GRADES', 'no sum, difference, max / min / clip / '
                 'where mixes a length of the lens with an absolute number '
                 '(dimension lint over every non-plotting function; grades '
                 'from a table of attribute and accessor names, unknown '
                 'grades are never reported)')
    funcs = []
    for c in P.classes.values():
        funcs += list(c.methods.values()) + list(c.props.values())
    funcs += list(P.funcs.values())
    nsum, seen_exempt = 0, set()
    for f in funcs:
        if f.name.startswith(('view', 'draw', '_plot', 'info')) or \
                'visualization' in f.module:
            continue
        res.saw(f)
        env, out = {}, []
        for st in ast.walk(f.node):
            if isinstance(st, ast.Assign) and len(st.targets) == 1 and \
                    isinstance(st.targets[0], ast.Name):
                g = _grade(st.value, env, out)
                if g not in (None, 'any'):
                    env.setdefault(st.targets[0].id, g)
            elif isinstance(st, (ast.Return, ast.Expr, ast.AugAssign,
                                 ast.Assign)) and \
                    getattr(st, 'value', None) is not None:
                _grade(st.value, env, out)
        for st in ast.walk(f.node):
            if isinstance(st, ast.BinOp) and isinstance(
                    st.op, (ast.Add, ast.Sub)):
                nsum += 1
        done = set()
        for e in out:
            if id(e) in done:
                continue
            done.add(id(e))
            txt = unparse(e)
            if (f.qual, txt) in _GRADE_EXEMPT:
                seen_exempt.add((f.qual, txt))
                res.exceptions.append(
                    f'{f.qual}: {txt} -- launch plane of a paraxial ray of '
                    f'zero slope')
                continue
            res.fail(ctx.finding(
                'LENGTH-GRADES', f, e,
                f'{txt} combines a length of the lens with an absolute '
                f'number: the value does not scale with the lens, so the '
                f'scaled lens is not traced like the lens built from the '
                f'scaled prescription', construct=f'{f.qual}: {txt[:80]}'))
    res.ok(f'{nsum} sums and differences in {len(res.analysed)} functions '
           f'examined')
    # the positive control: the exempt sites must still be *seen* as mixed
    for k in seen_exempt:
        res.ok(f'exempt site recognised as mixed: {k[0]}')
    if nsum < 400:
        raise AnalysisError(f'LENGTH-GRADES: only {nsum} sums found')
    return res


def derived_sync_rule(ctx):
    """a value derived from a length in a constructor (a squared radius, a
    cached limit) is brought up to date wherever that length is written -
    scale() and scale_system included"""
    from .common import derived_sync
    return derived_sync(ctx, 'DERIVED-SYNC')

RULES = [derived_sync_rule, length_grades, no_stale, c04_parax_centred, c17_pol_local_frame, aperture_scaled_once, c01_insertion, c03_registry, c03_xy_exchange, scale_covers, c04_chief_ray, c01_arg_wiring_rule, c01_init_stores, scale_homogeneous, scale_system, scale_relies_on_thickness_edit, mirror, w_flow, dummy_identity]

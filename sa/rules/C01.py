"""C01 -- lens prescription stays consistent under any history of edits."""
import ast
from ..core import Result
from ..pm import AnalysisError, unparse
from ..match import Code
from ..paths import paths, annotate, callee_names, call_attr
from ..rat import (Ev, Rat, Sym, Poly, fn_eval, rat_eq, Inconclusive, ONE,
                   ZERO, const_of)
from ..rank import Rank

META = {
    'explanation': (
        'SCALAR-CONV (rank typing): float()/int() only of rank-0 values in the '
        'editing API. PLACEMENT: vertex z of a new surface per index arm '
        '(object: -thickness, first: 0, else predecessor vertex + recorded '
        'thickness, same predecessor index as the medium chaining); the '
        'thickness is recorded after the insert on every path. THICKNESS-EDIT: '
        'set_thickness symbolically executed on a 6-surface lens for every '
        'gap: only that gap changes, to the value set, surface 1 re-zeroed, '
        'every vertex written back. MEDIA-CHAIN: set_index writes one material '
        'to post(k) and pre(k+1); who-may-write of media, stop flag, primary '
        'flag, surface / wavelength lists. ONE-STOP / ONE-PRIMARY: clearing '
        'loop precedes the insert / append. SETTER-WRITES: each setter writes '
        'exactly its quantity at the addressed surface and the accessor reads '
        'it back. PICKUP: target = scale*source + offset and per-kind location '
        'agreement. SOLVE: transfer law with the slope of the space in front '
        'of the solved surface; shift of that surface and all successors. '
        'UPDATE-ORDER: pickups then solves.'),
    'declined': ['numerical placement values',
                 'insertion in the middle / removal placement semantics '
                 '(undocumented at this commit)'],
    'trusted': ['records y[k], u[k] = state after surface k',
                'numpy slice semantics positions[s+1:] += d',
                'call resolution and effect analysis (E0/E2)'],
}

A = Rat.atom
C = Rat.const


def _env_for_rank(R, f):
    tenv = R.P.local_env(f)
    env = {}
    for s in ast.walk(f.node):
        if isinstance(s, ast.Assign) and len(s.targets) == 1:
            t = s.targets[0]
            if isinstance(t, ast.Name):
                env[t.id] = s.value
            elif isinstance(t, ast.Tuple) and isinstance(s.value, ast.Call):
                v = R.expr(s.value, f, {}, tenv)
                if v and v[0] == 'tuple':
                    for tt, x in zip(t.elts, v[1]):
                        if isinstance(tt, ast.Name):
                            env[tt.id] = x
    return env, tenv


def scalar_conv(ctx):
    P = ctx.P
    res = Result('SCALAR-CONV', 'float(e) / int(e) in the lens-editing and '
                 'building API is applied to rank-0 values only (the installed '
                 'numpy raises TypeError for 1-element arrays)')
    R = Rank(P)
    mods = ('optiland/optic.py', 'optiland/surfaces/', 'optiland/solves.py',
            'optiland/pickup.py', 'optiland/paraxial.py',
            'optiland/coordinate_system.py', 'optiland/geometries/',
            'optiland/optimization/variable/')
    n = 0
    for f in P.all_funcs():
        if not f.module.startswith(mods):
            continue
        env = tenv = None
        for c in ast.walk(f.node):
            if isinstance(c, ast.Call) and isinstance(c.func, ast.Name) and \
                    c.func.id in ('float', 'int') and c.args:
                if env is None:
                    env, tenv = _env_for_rank(R, f)
                r = R.expr(c.args[0], f, env, tenv)
                n += 1
                res.saw(f)
                if r and r[0] not in (None, 'tuple') and r[0] > 0:
                    res.fail(ctx.finding(
                        'SCALAR-CONV', f, c,
                        f'{c.func.id}() of a rank-{r[0]} array: raises '
                        f'TypeError under the installed numpy, so a valid '
                        f'call fails'))
                else:
                    res.ok(f'{f.qual}: {unparse(c)} rank '
                           f'{r[0] if r else None}')
    res.require(2, 'scalar conversions in the editing API')
    return res


def placement(ctx):
    P = ctx.P
    res = Result('PLACEMENT', 'vertex of a new surface: object -thickness, '
                 'first surface 0, otherwise predecessor vertex + thickness '
                 'recorded for the predecessor; media chained from the same '
                 'predecessor; thickness recorded after every insert')
    f = P.func('SurfaceFactory._configure_cs')
    res.saw(f)
    arms = {}
    for idx_case, name in ((0, 'object'), (1, 'first'), (2, 'other')):
        def choose(test, ev, idx_case=idx_case):
            s = unparse(test)
            if s == 'index == 0':
                return idx_case == 0
            if s == 'index == 1':
                return idx_case == 1
            return None
        got = {}

        def inline(call, ev):
            if isinstance(call.func, ast.Name) and \
                    call.func.id == 'CoordinateSystem':
                for k in call.keywords:
                    got[k.arg] = ev.ev(k.value)
                for i, a in enumerate(call.args):
                    got['xyz'[i] if i < 3 else str(i)] = ev.ev(a)
                return A('CS')
            if isinstance(call.func, ast.Attribute) and call.func.attr == 'get':
                return A('kw.' + unparse(call.args[0]).strip("'"))
            return None
        try:
            fn_eval(P, f, [A('index'), A('thickness')], choose=choose,
                    inline=inline)
        except Inconclusive as e:
            raise AnalysisError(f'_configure_cs arm {name}: {e}')
        arms[name] = got.get('z')
    want = {
        'object': -A('thickness'),
        'first': ZERO,
        'other': A('self._surface_group.positions[index-1][0]') +
        A('self.last_thickness'),
    }
    for name in arms:
        z = arms[name]
        ok = z is not None and (rat_eq(z, want[name]) or (
            name == 'other' and _is_pred_plus_last(z)))
        if ok:
            res.ok(f'_configure_cs arm {name}: z = {z}')
        else:
            res.fail(ctx.finding(
                'PLACEMENT', f, f.node,
                f'vertex of a new surface ({name} arm) is z = {z}, expected '
                f'{ {"object": "-thickness", "first": "0", "other": "positions[index-1] + last_thickness"}[name] }',
                construct=f'_configure_cs arm {name}'))
    # decentres / tilts forwarded
    src = Code(P, f)
    for k in ('dx', 'dy', 'rx', 'ry'):
        pass
    # predecessor index agreement with the media chaining
    g = P.func('SurfaceFactory._configure_material')
    res.saw(g)
    pre = [n for n in ast.walk(g.node) if isinstance(n, ast.Subscript) and
           'surfaces' in unparse(n.value)]
    okm = pre and all(unparse(p.slice).replace(' ', '') == 'index-1' for p in pre)
    chain = [n for n in ast.walk(g.node) if isinstance(n, ast.Assign) and
             isinstance(n.targets[0], ast.Name) and
             n.targets[0].id == 'material_pre' and
             'material_post' in unparse(n.value)]
    if okm and chain:
        res.ok('_configure_material: material_pre := surfaces[index-1].'
               'material_post')
    else:
        res.fail(ctx.finding('PLACEMENT', g, g.node,
                             'the medium in front of a new surface is not the '
                             'medium behind its predecessor (index - 1)',
                             construct='_configure_material predecessor'))
    # mirror keeps the medium
    okmir = False
    for n in ast.walk(g.node):
        if isinstance(n, ast.If) and "material == 'mirror'" in unparse(n.test):
            okmir = any(unparse(s) == 'material_post = material_pre'
                        for s in n.body)
    if okmir:
        res.ok("material 'mirror': material_post := material_pre")
    else:
        res.fail(ctx.finding('PLACEMENT', g, g.node,
                             "a mirror does not keep the incident medium",
                             construct='_configure_material mirror'))
    rets = [n for n in ast.walk(g.node) if isinstance(n, ast.Return)]
    if rets and unparse(rets[-1].value).replace(' ', '') in (
            '(material_pre,material_post)', 'material_pre,material_post'):
        res.ok('_configure_material returns (pre, post)')
    else:
        res.fail(ctx.finding('PLACEMENT', g, g.node,
                             '_configure_material does not return (pre, post)',
                             construct='_configure_material return order'))
    # create_surface passes them in order to Surface(...)
    cs = P.func('SurfaceFactory.create_surface')
    res.saw(cs)
    sc = [c for c in ast.walk(cs.node) if isinstance(c, ast.Call) and
          isinstance(c.func, ast.Name) and c.func.id == 'Surface']
    ok = sc and [unparse(a) for a in sc[0].args[:4]] == [
        'geometry', 'material_pre', 'material_post', 'is_stop']
    oc = [c for c in ast.walk(cs.node) if isinstance(c, ast.Call) and
          isinstance(c.func, ast.Name) and c.func.id == 'ObjectSurface']
    ok = ok and oc and [unparse(a) for a in oc[0].args] == ['geometry',
                                                              'material_post']
    tu = [n for n in ast.walk(cs.node) if isinstance(n, ast.Assign) and
          isinstance(n.targets[0], ast.Tuple) and
          isinstance(n.value, ast.Call) and
          call_name(n.value) == '_configure_material']
    ok = ok and tu and [unparse(x) for x in tu[0].targets[0].elts] == [
        'material_pre', 'material_post'] and \
        [unparse(a) for a in tu[0].value.args] == ['index', 'material']
    cc = [c for c in ast.walk(cs.node) if isinstance(c, ast.Call) and
          call_name(c) == '_configure_cs']
    ok = ok and cc and [unparse(a) for a in cc[0].args] == ['index', 'thickness']
    if ok:
        res.ok('create_surface wires index/thickness/media/is_stop in order')
    else:
        res.fail(ctx.finding('PLACEMENT', cs, cs.node,
                             'create_surface does not pass geometry, media and '
                             'stop flag to the surface in order',
                             construct='create_surface wiring'))
    # add_surface records the thickness after the insert on every path
    ad = P.func('SurfaceGroup.add_surface')
    res.saw(ad)
    bad = None
    for p in annotate(P, ad, paths(ad)):
        if p.exit == 'raise':
            continue
        ins = [i for i, e in enumerate(p.events) if e.kind == 'call' and
               call_attr(e) == 'insert']
        st = [i for i, e in enumerate(p.events) if e.kind == 'store' and
              isinstance(e.node, ast.Attribute) and
              e.node.attr == 'last_thickness' and unparse(e.extra) == 'thickness']
        cr = [i for i, e in enumerate(p.events) if e.kind == 'call' and
              call_attr(e) == 'create_surface']
        if not ins or not st:
            bad = p
        elif cr and min(st) < max(cr):
            # the new surface would be placed with its own thickness instead
            # of the thickness given for its predecessor
            bad = p
    if bad is None:
        res.ok('add_surface: insert, then last_thickness := thickness on every '
               'path')
    else:
        res.fail(ctx.finding('PLACEMENT', ad, ad.node,
                             'the thickness to the next surface is not '
                             'recorded when a surface is added',
                             construct='add_surface last_thickness',
                             path=bad.describe()))
    ins = [c for c in ast.walk(ad.node) if isinstance(c, ast.Call) and
           call_name(c) == 'insert']
    if ins and [unparse(a) for a in ins[0].args] == ['index', 'new_surface']:
        res.ok('add_surface: surfaces.insert(index, new_surface)')
    else:
        res.fail(ctx.finding('PLACEMENT', ad, ad.node,
                             'surface not inserted at the requested index',
                             construct='add_surface insert'))
    return res


def _is_pred_plus_last(z):
    ats = sorted(z.atoms())
    if len(ats) != 2:
        return False
    pred = [a for a in ats if 'positions[index-1]' in a]
    last = [a for a in ats if a.endswith('last_thickness')]
    if not pred or not last:
        return False
    return rat_eq(z, A(pred[0]) + A(last[0]))


def call_name(c):
    f = c.func
    return f.attr if isinstance(f, ast.Attribute) else (
        f.id if isinstance(f, ast.Name) else None)


def _inf_domain_thickness(f, N, gap):
    """abstract run of Optic.set_thickness over {FIN, NINF, PINF, NAN}"""
    FIN, NINF, PINF, NAN = 'FIN', 'NINF', 'PINF', 'NAN'

    def add(a, b):
        if NAN in (a, b):
            return NAN
        if a == FIN:
            return b
        if b == FIN:
            return a
        return a if a == b else NAN

    def neg(a):
        return {NINF: PINF, PINF: NINF}.get(a, a)

    pos = [NINF] + [FIN] * (N - 1)
    env = {'value': FIN, 'surface_number': gap}
    written = [None] * N

    def idx(e):
        if isinstance(e, ast.Constant) and isinstance(e.value, int):
            return e.value
        if isinstance(e, ast.Name) and isinstance(env.get(e.id), int):
            return env[e.id]
        if isinstance(e, ast.BinOp) and isinstance(e.op, (ast.Add, ast.Sub)):
            a, b = idx(e.left), idx(e.right)
            return a + b if isinstance(e.op, ast.Add) else a - b
        raise Inconclusive(f'index {unparse(e)}')

    def ev(e):
        if isinstance(e, ast.Name):
            v = env.get(e.id)
            if v is None:
                raise Inconclusive(f'name {e.id}')
            if isinstance(v, int):
                return FIN
            return v
        if isinstance(e, ast.Constant) and isinstance(e.value, (int, float)):
            return FIN
        if isinstance(e, ast.Subscript) and isinstance(e.value, ast.Name) \
                and env.get(e.value.id) == 'POS':
            if isinstance(e.slice, ast.Slice):
                raise Inconclusive('slice read')
            return pos[idx(e.slice)]
        if isinstance(e, ast.BinOp) and isinstance(e.op, (ast.Add, ast.Sub)):
            a, b = ev(e.left), ev(e.right)
            return add(a, b if isinstance(e.op, ast.Add) else neg(b))
        if isinstance(e, ast.UnaryOp) and isinstance(e.op, ast.USub):
            return neg(ev(e.operand))
        raise Inconclusive(f'expression {unparse(e)[:50]}')

    def targets(t):
        """indices of pos a store / augmented store addresses"""
        if isinstance(t, ast.Name) and env.get(t.id) == 'POS':
            return list(range(N))
        if isinstance(t, ast.Subscript) and isinstance(t.value, ast.Name) \
                and env.get(t.value.id) == 'POS':
            if isinstance(t.slice, ast.Slice):
                lo = idx(t.slice.lower) if t.slice.lower else 0
                hi = idx(t.slice.upper) if t.slice.upper else N
                return list(range(lo, hi))
            return [idx(t.slice)]
        return None

    def run(body):
        for st in body:
            if isinstance(st, ast.Pass) or (
                    isinstance(st, ast.Expr) and isinstance(st.value,
                                                            ast.Constant)):
                continue
            if isinstance(st, ast.Assign) and len(st.targets) == 1:
                t = st.targets[0]
                if isinstance(t, ast.Name) and unparse(st.value) == \
                        'self.surface_group.positions':
                    env[t.id] = 'POS'
                    continue
                tg = targets(t)
                if tg is not None:
                    v = ev(st.value)
                    for k in tg:
                        pos[k] = v
                    continue
                if isinstance(t, ast.Name):
                    env[t.id] = ev(st.value)
                    continue
            if isinstance(st, ast.AugAssign) and isinstance(
                    st.op, (ast.Add, ast.Sub)):
                tg = targets(st.target)
                if tg is not None:
                    v = ev(st.value)
                    if isinstance(st.op, ast.Sub):
                        v = neg(v)
                    for k in tg:
                        pos[k] = add(pos[k], v)
                    continue
            if isinstance(st, ast.If) and isinstance(st.test, ast.Compare) \
                    and len(st.test.ops) == 1:
                a = idx(st.test.left)
                b = idx(st.test.comparators[0])
                op = st.test.ops[0]
                c = {ast.Eq: a == b, ast.NotEq: a != b, ast.Lt: a < b,
                     ast.LtE: a <= b, ast.Gt: a > b,
                     ast.GtE: a >= b}.get(type(op))
                if c is None:
                    raise Inconclusive('branch ' + unparse(st.test))
                run(st.body if c else st.orelse)
                continue
            if isinstance(st, ast.For) and 'geometry.cs.z' in unparse(st):
                # write-back loop: cs.z of surface k = positions[k]
                for k in range(N):
                    written[k] = pos[k]
                continue
            raise Inconclusive(f'statement {unparse(st)[:60]}')
    run(f.node.body)
    if any(w is None for w in written):
        raise Inconclusive('no write-back loop')
    return written


def thickness_edit(ctx):
    P = ctx.P
    res = Result('THICKNESS-EDIT', 'set_thickness(value, s) executed '
                 'symbolically on a 6-surface lens for every gap s: gap s '
                 'becomes value, every other gap is unchanged, surface 1 sits '
                 'at zero, every vertex is written back', level='proof')
    f = P.func('Optic.set_thickness')
    res.saw(f)
    N = 6
    for s_ in range(0, N - 1):
        p = tuple(A(f'p{i}') for i in range(N))
        heap = {}

        def inline(call, ev):
            return None

        class E2(Ev):
            def read(self, key):
                if key == 'self.surface_group.positions':
                    return p
                if key in self.heap:
                    return self.heap[key]
                pre = 'self.surface_group.surfaces['
                if key.startswith(pre) and key.endswith('].geometry.cs.z'):
                    try:
                        return p[int(key[len(pre):-len('].geometry.cs.z')])]
                    except (ValueError, IndexError):
                        pass
                return super().read(key)
        ev = E2(heap=heap)
        ev.drop_zero_index = True
        ev.env['value'] = A('value')
        ev.env['surface_number'] = C(s_)
        ev.lens = {'self.surface_group.surfaces': N}
        try:
            ev.run(f.node.body)
        except Inconclusive as e:
            raise AnalysisError(f'set_thickness outside fragment: {e}')
        new = [heap.get(f'self.surface_group.surfaces[{k}].geometry.cs.z',
                        p[k]) for k in range(N)]
        ok = True
        msg = ''
        for j in range(N - 1):
            gap = new[j + 1] - new[j]
            want = A('value') if j == s_ else p[j + 1] - p[j]
            if not rat_eq(gap, want):
                ok = False
                msg = (f'editing gap {s_}: gap {j} becomes {gap}, expected '
                       f'{want}')
        # inductive invariant: surface 1 is at z = 0 before the edit
        n1 = Rat(new[1].n.subst('p1', Poly()), new[1].d.subst('p1', Poly()))
        if not rat_eq(n1, ZERO):
            ok = False
            msg = (f'editing gap {s_}: surface 1 (at z = 0 before the edit) '
                   f'ends at z = {n1}, not 0: positions relative to surface '
                   f'1 (entrance pupil location, ray launch) become wrong')
        if ok:
            res.ok(f'gap {s_}: only that gap changes; surface 1 at 0')
        else:
            res.fail(ctx.finding('THICKNESS-EDIT', f, f.node, msg,
                                 construct='set_thickness rigid shift'))
    # infinite object: the same edit in the domain {finite, -inf, +inf, nan}
    # (p0 = -inf, every other vertex and the value finite): no vertex may
    # become nan / infinite except the object, and only when it is not the
    # edited gap
    for s_ in range(0, N - 1):
        try:
            out = _inf_domain_thickness(f, N, s_)
        except Inconclusive as e:
            raise AnalysisError(f'set_thickness (infinite object): {e}')
        want = ['FIN' if s_ == 0 else 'NINF'] + ['FIN'] * (N - 1)
        if out == want:
            res.ok(f'gap {s_}, object at infinity: vertices stay finite'
                   + (' and the object becomes finite' if s_ == 0 else ''))
        else:
            res.fail(ctx.finding(
                'THICKNESS-EDIT', f, f.node,
                f'editing gap {s_} of a lens whose object is at infinity '
                f'leaves the vertices {out} (expected {want}): inf - inf in '
                f'the rigid shift / re-zeroing',
                construct='set_thickness with the object at infinity'))
    # get_thickness consistent with delta definition
    g = P.func('SurfaceGroup.get_thickness')
    res.saw(g)

    class E3(Ev):
        def read(self, key):
            if key == 'self.positions':
                return A('POS')
            return super().read(key)
    ev = E3()
    ev.env['surface_number'] = A('s')
    ev.run(g.node.body)
    if isinstance(ev.returned, Rat) and (
            rat_eq(ev.returned, A('POS[s+1]') - A('POS[s]')) or
            rat_eq(ev.returned, A('POS[1 + s]') - A('POS[s]')) or
            rat_eq(ev.returned, A('POS[s + 1]') - A('POS[s]'))):
        res.ok('get_thickness(s) = positions[s+1] - positions[s]')
    else:
        res.fail(ctx.finding('THICKNESS-EDIT', g, g.node,
                             'get_thickness is not positions[s+1]-positions[s]',
                             construct='get_thickness'))
    # positions accessor reads the global z of each vertex
    pz = P.func('SurfaceGroup.positions')
    if 'position_in_gcs[2]' in unparse(pz.node, 2000):
        res.ok('positions reads cs.position_in_gcs[2] (global z)')
    else:
        res.fail(ctx.finding('THICKNESS-EDIT', pz, pz.node,
                             'positions does not read the global z',
                             construct='positions accessor'))
    res.require(6)
    return res


def media_chain(ctx):
    P, eff = ctx.P, ctx.effects
    res = Result('MEDIA-CHAIN', 'set_index stores one new ideal material into '
                 'material_post of surface k and material_pre of surface k+1; '
                 'who-may-write of media, stop flag, primary flag and the '
                 'surface / wavelength lists')
    f = P.func('Optic.set_index')
    res.saw(f)
    from ..rat import explore

    def run(choose):
        heap = {}

        def inline(call, ev):
            if isinstance(call.func, ast.Name) and \
                    call.func.id == 'IdealMaterial':
                kw = {k.arg: unparse(k.value) for k in call.keywords}
                args = [unparse(a) for a in call.args]
                heap['#n'] = kw.get('n', args[0] if args else None)
                return A('NEWMAT')
            return None
        ev = Ev(heap=heap, inline=inline, choose=choose)
        ev.env['value'] = A('value')
        ev.env['surface_number'] = A('k')
        ev.run(f.node.body)
        return heap
    try:
        outcomes = explore(run)
    except Inconclusive as e:
        raise AnalysisError(f'set_index: {e}')
    import re as _re

    def _off(key):
        m = _re.search(r'surfaces\[(.*)\]\.material_(pre|post)$', key)
        if not m:
            return None
        e = m.group(1).replace(' ', '').replace('1*', '')
        if e == 'k':
            return 0, m.group(2)
        m2 = _re.fullmatch(r'(?:k\+(\d+)|(\d+)\+k)', e)
        if m2:
            return int(m2.group(1) or m2.group(2)), m.group(2)
        return None
    for decisions, heap in outcomes:
        # j = number of mirrors directly behind the gap (a mirror stays in the
        # medium in front of it): post(k .. k+j) and pre(k+1 .. k+j+1) all
        # become the one new medium, nothing else is written
        media = {}
        bad_key = False
        for k_, v_ in heap.items():
            if k_.endswith(('.material_post', '.material_pre')):
                o = _off(k_)
                if o is None or not rat_eq(v_, A('NEWMAT')):
                    bad_key = True
                else:
                    media[o] = True
        posts = sorted(o for o, w in media if w == 'post')
        pres = sorted(o for o, w in media if w == 'pre')
        j = len(posts) - 1
        ok = not bad_key and j >= 0 and posts == list(range(0, j + 1)) and \
            pres == list(range(1, j + 2))
        extra = [k for k in heap if not k.startswith('#') and
                 not k.endswith(('.material_post', '.material_pre'))]
        if ok and heap.get('#n') == 'value' and not extra:
            res.ok(f'set_index (branches {decisions}, {j} mirror(s) behind '
                   f'the gap): post(k..k+{j}) := m, pre(k+1..k+{j + 1}) := m, '
                   f'm = IdealMaterial(value)')
        else:
            res.fail(ctx.finding(
                'MEDIA-CHAIN', f, f.node,
                'on some path set_index does not install one NEW medium '
                'behind surface k and in front of surface k+1 (it writes '
                f'{sorted(k for k in heap if not k.startswith("#"))}): an '
                'existing medium object may be shared with other surfaces, '
                'so editing it in place changes more than the addressed gap',
                construct='set_index pair'))
    # a mirror stays in the medium in front of it (material_post is that same
    # medium), so the edit has to run on through mirrors: some explored
    # outcome must have carried the medium past a reflecting surface, and the
    # loop must be controlled by the reflectivity of the surface reached
    loops_ = [n for n in ast.walk(f.node) if isinstance(n, ast.While) and
              'is_reflective' in unparse(n.test)]
    carried = any(
        sum(1 for k_ in heap if k_.endswith('.material_post')) >= 2
        for _, heap in outcomes)
    if loops_ and carried:
        res.ok('set_index carries the new medium through mirrors behind the '
               'gap (explored up to 2 mirrors)')
    else:
        res.fail(ctx.finding(
            'MEDIA-CHAIN', f, f.node,
            'set_index replaces material_post of surface k and material_pre '
            'of surface k+1 only: when surface k+1 is a mirror its '
            'material_post (the same medium) keeps the old material, so the '
            'ray travels back through the old index (Mangin mirror: f2 '
            '106.728 instead of 107.280, Lagrange invariant jumps by the '
            'index ratio)', construct='set_index stops at a mirror'))
    allowed = {
        ('Surface', 'material_pre'): {'Surface.__init__', 'Optic.set_index',
                                      'SurfaceGroup.inverted',
                                      'SurfaceGroup.remove_surface',
                                      'SurfaceGroup.from_dict'},
        ('Surface', 'material_post'): {'Surface.__init__', 'Optic.set_index',
                                       'SurfaceGroup.inverted',
                                       'SurfaceGroup.remove_surface',
                                       'SurfaceGroup.from_dict'},
        ('Surface', 'is_stop'): {'Surface.__init__', 'SurfaceGroup.add_surface'},
        ('Wavelength', 'is_primary'): {'Wavelength.__init__',
                                       'WavelengthGroup.add_wavelength'},
    }
    for (cn, attr), ok_f in allowed.items():
        n = 0
        for st in eff.writers([cn], attr, include_fresh=True):
            if st.base_t is None:
                continue
            n += 1
            if st.func.qual in ok_f and (not st.func.qual.endswith('inverted')
                                          or st.fresh):
                res.ok(f'{cn}.{attr} written by {st.func.qual}')
            else:
                res.fail(ctx.finding(
                    'MEDIA-CHAIN', st.func, st.stmt,
                    f'{cn}.{attr} is written outside its editing API '
                    f'({sorted(ok_f)}): the chaining / uniqueness invariant is '
                    f'no longer maintained'))
        if n == 0:
            raise AnalysisError(f'no writer of {cn}.{attr} found')
    # media are shared value objects: nothing outside the material classes
    # may store into an attribute of a material
    mats = set(P.subclasses('BaseMaterial'))
    for fe in eff.fe.values():
        if fe.func.cls in mats:
            continue
        for st in fe.stores:
            if isinstance(st.base_t, str) and st.base_t in mats and not st.fresh:
                res.fail(ctx.finding(
                    'MEDIA-CHAIN', fe.func, st.stmt,
                    f'{fe.func.qual} modifies a medium object in place '
                    f'({st.base_t}.{st.attr}); media are shared between '
                    f'surfaces (and between gaps), so the edit leaks to every '
                    f'surface holding the same object'))
    res.ok('no store into a material object outside the material classes')
    lists = {('SurfaceGroup', 'surfaces'): {'SurfaceGroup.add_surface',
                                            'SurfaceGroup.remove_surface',
                                            'SurfaceGroup.__init__'},
             ('WavelengthGroup', 'wavelengths'): {
                 'WavelengthGroup.add_wavelength', 'WavelengthGroup.__init__'}}
    for (cn, attr), ok_f in lists.items():
        fam = set(P.mro(cn)) | set(P.subclasses(cn))
        for fe in eff.fe.values():
            for c, base, bt, meth, stmt, fresh in fe.mutcalls:
                if base.attr == attr and isinstance(bt, str) and bt in fam \
                        and not fresh:
                    if fe.func.qual in ok_f:
                        res.ok(f'{cn}.{attr}.{meth} in {fe.func.qual}')
                    else:
                        res.fail(ctx.finding(
                            'MEDIA-CHAIN', fe.func, stmt,
                            f'{cn}.{attr} is mutated outside '
                            f'{sorted(ok_f)}'))
            for st in fe.stores:
                if st.attr == attr and isinstance(st.base_t, str) and \
                        st.base_t in fam and not st.fresh:
                    if fe.func.qual in ok_f:
                        res.ok(f'{cn}.{attr} stored in {fe.func.qual}')
                    else:
                        res.fail(ctx.finding(
                            'MEDIA-CHAIN', fe.func, st.stmt,
                            f'{cn}.{attr} is replaced outside {sorted(ok_f)}'))
    return res


def _idx_plus_one(key):
    import re
    m = re.search(r'surfaces\[(.*)\]\.material_pre$', key)
    if not m:
        return False
    s = m.group(1).replace(' ', '')
    return s in ('1*1+1*k', '1*k+1*1', 'k+1', '1+k')


def one_stop(ctx):
    P = ctx.P
    res = Result('ONE-STOP / ONE-PRIMARY', 'when the new surface is a stop all '
                 'existing stop flags are cleared before the insert; when the '
                 'new wavelength is primary all existing primary flags are '
                 'cleared before the append; the first wavelength is forced '
                 'primary')
    f = P.func('SurfaceGroup.add_surface')
    res.saw(f)
    bad = None
    for p in annotate(P, f, paths(f, loop_iters=(1,))):
        if p.exit == 'raise':
            continue
        ins = [i for i, e in enumerate(p.events) if e.kind == 'call' and
               call_attr(e) == 'insert']
        if not ins:
            continue
        br = [(i, e) for i, e in enumerate(p.events) if e.kind == 'branch' and
              unparse(e.node) == 'new_surface.is_stop']
        clr = [i for i, e in enumerate(p.events) if e.kind == 'store' and
               isinstance(e.node, ast.Attribute) and e.node.attr == 'is_stop'
               and unparse(e.extra) == 'False' and e.stmt is not None]
        if not br:
            bad = (p, 'the stop flag of the new surface is not tested')
            break
        if br[0][1].extra and not (clr and clr[0] < ins[0]):
            bad = (p, 'existing stop flags are not cleared before a new stop '
                   'surface is inserted')
            break
        if not br[0][1].extra and clr:
            bad = (p, 'stop flags are cleared although the new surface is not '
                   'a stop (the lens loses its stop)')
            break
    loops = [n for n in ast.walk(f.node) if isinstance(n, ast.For) and
             any(isinstance(t, ast.Attribute) and t.attr == 'is_stop'
                 for s in ast.walk(n) if isinstance(s, ast.Assign)
                 for t in s.targets)]
    if not bad and not (loops and unparse(loops[0].iter) == 'self.surfaces'):
        bad = (None, 'the clearing loop does not cover all existing surfaces')
    if bad:
        res.fail(ctx.finding('ONE-STOP', f, f.node, bad[1],
                             construct='add_surface stop clearing',
                             path=bad[0].describe() if bad[0] else None))
    else:
        res.ok('add_surface: if new.is_stop: for s in self.surfaces: '
               's.is_stop = False; then insert')
    # factory passes the is_stop flag through to the surface
    g = P.func('WavelengthGroup.add_wavelength')
    res.saw(g)
    bad = None
    for p in annotate(P, g, paths(g, loop_iters=(1,))):
        app = [i for i, e in enumerate(p.events) if e.kind == 'call' and
               call_attr(e) == 'append']
        if not app:
            bad = (p, 'wavelength not appended')
            break
        br = {unparse(e.node): (i, e.extra) for i, e in enumerate(p.events)
              if e.kind == 'branch'}
        clr = [i for i, e in enumerate(p.events) if e.kind == 'store' and
               isinstance(e.node, ast.Attribute) and e.node.attr == 'is_primary'
               and unparse(e.extra) == 'False']
        if 'is_primary' not in br:
            bad = (p, 'the primary flag of the new wavelength is not tested')
            break
        if br['is_primary'][1] and not (clr and clr[0] < app[0]):
            bad = (p, 'existing primary flags are not cleared before a new '
                   'primary wavelength is appended')
            break
        if not br['is_primary'][1] and clr and \
                clr[0] > br['is_primary'][0]:
            # cleared although not primary
            bad = (p, 'primary flags cleared although the new wavelength is '
                   'not primary')
            break
        force = [(i, e) for i, e in enumerate(p.events) if e.kind == 'branch'
                 and 'num_wavelengths == 0' in unparse(e.node)]
        if not force:
            bad = (p, 'the first wavelength is not forced to be primary')
            break
        if force[0][1].extra:
            st = [i for i, e in enumerate(p.events) if e.kind == 'store' and
                  isinstance(e.node, ast.Name) and e.node.id == 'is_primary'
                  and unparse(e.extra) == 'True']
            if not (st and st[0] < app[0]):
                bad = (p, 'the first wavelength is not forced to be primary')
                break
    ctor = [c for c in ast.walk(g.node) if isinstance(c, ast.Call) and
            isinstance(c.func, ast.Name) and c.func.id == 'Wavelength']
    if not bad and not (ctor and [unparse(a) for a in ctor[0].args] ==
                        ['value', 'is_primary', 'unit']):
        bad = (None, 'Wavelength(value, is_primary, unit) not constructed '
               'from the (possibly forced) flag')
    if bad:
        res.fail(ctx.finding('ONE-PRIMARY', g, g.node, bad[1],
                             construct='add_wavelength primary handling',
                             path=bad[0].describe() if bad[0] else None))
    else:
        res.ok('add_wavelength: clear on primary, force first, append '
               'Wavelength(value, is_primary, unit)')
    # accessors
    for q, attr in (('SurfaceGroup.stop_index', 'is_stop'),
                    ('WavelengthGroup.primary_index', 'is_primary')):
        h = P.func(q)
        src = Code(P, h)
        if f'.{attr}' in src and 'enumerate' in src and 'return index' in src:
            res.ok(f'{q} returns the index of the flagged element')
        else:
            res.fail(ctx.finding('ONE-STOP', h, h.node,
                                 f'{q} does not return the flagged index',
                                 construct=q))
    return res


SETTERS = {
    'Optic.set_radius': ({'radius', 'geometry'}, 'radius'),
    'Optic.set_conic': ({'k'}, 'k'),
    'Optic.set_thickness': ({'z'}, None),
    'Optic.set_index': ({'material_post', 'material_pre'}, None),
    'Optic.set_asphere_coeff': ({'c'}, 'c'),
}
ACCESSORS = {'SurfaceGroup.radii': 'geometry.radius',
             'SurfaceGroup.conic': 'geometry.k',
             'Optic.n': 'material_post.n('}


def setter_writes(ctx):
    P, eff = ctx.P, ctx.effects
    res = Result('SETTER-WRITES', 'each setter writes exactly its quantity, at '
                 'the addressed surface, with the value given; the accessor '
                 'reads the same attribute back')
    for q, (allowed, direct) in SETTERS.items():
        f = P.func(q)
        res.saw(f)
        fe = eff.fe[f.qual]
        extra = [st for st in fe.stores if st.attr not in allowed and not (
            # carrying the conic over to a geometry object created in this
            # call (plane <-> conic conversion) is not an edit of the conic
            q == 'Optic.set_radius' and st.attr == 'k' and
            st.value is not None and
            unparse(st.value) == 'surface.geometry.k')]
        for st in extra:
            res.fail(ctx.finding('SETTER-WRITES', f, st.stmt,
                                 f'{q} also writes {st.attr}: it must change '
                                 f'exactly its own quantity'))
        if not extra:
            res.ok(f'{q}: writes only {sorted(allowed)}')
        if not fe.stores:
            res.fail(ctx.finding('SETTER-WRITES', f, f.node,
                                 f'{q} writes nothing', construct=q))
        # surface addressed by surface_number; value stored unmodified
        if direct:
            okv = False
            for st in fe.stores:
                if st.attr == direct and st.value is not None and \
                        unparse(st.value) == 'value':
                    okv = True
            srcs = Code(P, f)
            okl = 'surfaces[surface_number]' in srcs
            if okv and okl:
                res.ok(f'{q}: surfaces[surface_number].{direct} := value')
            else:
                res.fail(ctx.finding('SETTER-WRITES', f, f.node,
                                     f'{q} does not store the given value into '
                                     f'{direct} of surface surface_number',
                                     construct=q + ' value/location'))
    # set_radius plane arm keeps the coordinate system and sets conic 0
    f = P.func('Optic.set_radius')
    ctor = [c for c in ast.walk(f.node) if isinstance(c, ast.Call) and
            isinstance(c.func, ast.Name) and c.func.id == 'StandardGeometry']
    ok = False
    if ctor:
        c = ctor[0]
        kw = {k.arg: unparse(k.value) for k in c.keywords}
        a = [unparse(x) for x in c.args]
        csname = a[0] if a else kw.get('coordinate_system')
        defs = {n.targets[0].id: unparse(n.value) for n in ast.walk(f.node)
                if isinstance(n, ast.Assign) and
                isinstance(n.targets[0], ast.Name)}
        conic_src = kw.get('conic', a[2] if len(a) > 2 else None)
        conic_src = defs.get(conic_src, conic_src)
        carried = conic_src in ("getattr(surface.geometry, 'k', 0)",
                                "getattr(surface.geometry, 'k', 0.0)",
                                'surface.geometry.k')
        ok = defs.get(csname) == 'surface.geometry.cs' and \
            (kw.get('radius') == 'value' or (len(a) > 1 and a[1] == 'value')) \
            and carried
    # only a Plane is replaced: any other geometry keeps its type (and its
    # coefficients) and just gets the new radius
    conv = [n for n in ast.walk(f.node) if isinstance(n, ast.If) and ctor and
            any(c_ is ctor[0] for b in n.body for c_ in ast.walk(b))]
    if conv and unparse(conv[0].test) != 'isinstance(surface.geometry, Plane)':
        ok = False
    if ok:
        res.ok('set_radius on a plane: StandardGeometry(same cs, value, the '
               'conic the surface already has)')
    else:
        res.fail(ctx.finding('SETTER-WRITES', f, f.node,
                             'set_radius on a plane surface does not keep the '
                             'coordinate system and conic constant / use the '
                             'given radius (a conic set while the surface was '
                             'flat is reset)',
                             construct='set_radius plane arm'))
    # an infinite radius is a plane: StandardGeometry(radius=inf) evaluates
    # inf - inf in its intersection and every real ray through the lens
    # becomes nan (this is what resetting a radius perturbation on a flat
    # surface does)
    infarm = [n for n in ast.walk(f.node) if isinstance(n, ast.If) and
              'np.isinf(value)' in unparse(n.test) and any(
                  isinstance(c, ast.Call) and unparse(c.func) == 'Plane'
                  for b in n.body for c in ast.walk(b))]
    exact = True
    if infarm:
        # the replacement keeps only the coordinate system and the conic: it
        # is right for a plain conic and drops the coefficients of every
        # subclass (EvenAsphere, polynomial, Chebyshev), which have a flat
        # base of their own
        t = unparse(infarm[0].test).replace(' ', '')
        subs = [k for k in P.classes if k != 'StandardGeometry' and
                'StandardGeometry' in P.mro(k)]
        exact = any(x in t for x in (
            'type(surface.geometry)isStandardGeometry',
            'type(surface.geometry)==StandardGeometry',
            'surface.geometry.__class__isStandardGeometry')) or not subs
        if not exact:
            res.fail(ctx.finding(
                'SETTER-WRITES', f, infarm[0],
                f'set_radius(inf) replaces the geometry by a Plane under the '
                f'condition `{unparse(infarm[0].test)[:90]}`, which also '
                f'holds for {", ".join(sorted(subs))}: their coefficients '
                f'are dropped and the surface that is traced is not the '
                f'prescribed one', construct='set_radius infinite radius '
                                             'on a subclass'))
    if infarm and exact:
        # the plane takes the place of the conic: same coordinate system,
        # the conic constant carried along, and it is the surface's geometry
        arm = infarm[0].body
        nm = None
        for st in arm:
            if isinstance(st, ast.Assign) and isinstance(
                    st.targets[0], ast.Name) and isinstance(
                    st.value, ast.Call) and unparse(st.value.func) == 'Plane':
                nm = st.targets[0].id
                cs_ok = [unparse(a) for a in st.value.args] == \
                    ['surface.geometry.cs'] or any(
                        unparse(k_.value) == 'surface.geometry.cs'
                        for k_ in st.value.keywords)
        txt = [unparse(st).replace(' ', '') for st in arm]
        want = [f'{nm}.k=surface.geometry.k', f'surface.geometry={nm}']
        if nm is None or not cs_ok or not all(w in txt for w in want) or \
                txt.index(want[0]) > txt.index(want[1]):
            res.fail(ctx.finding(
                'SETTER-WRITES', f, infarm[0],
                'set_radius(inf): the Plane that replaces the conic does not '
                'take over the coordinate system and the conic constant, or '
                'is not made the geometry of the surface',
                construct='set_radius infinite radius replacement'))
        else:
            res.ok('set_radius(inf): Plane(same cs), k carried, installed')
    if infarm and exact:
        res.ok('set_radius(inf) on a conic surface makes it a plane')
    elif infarm:
        pass
    else:
        res.fail(ctx.finding(
            'SETTER-WRITES', f, f.node,
            'set_radius stores an infinite radius into a StandardGeometry: '
            'its intersection formula evaluates inf - inf and all real rays '
            'become nan (e.g. after the reset of a radius perturbation on a '
            'flat surface)', construct='set_radius infinite radius'))
    idx = [n for n in ast.walk(P.func('Optic.set_asphere_coeff').node)
           if isinstance(n, ast.Subscript) and unparse(n.value).endswith('.c')]
    if idx and unparse(idx[0].slice) == 'aspher_coeff_idx':
        res.ok('set_asphere_coeff: c[aspher_coeff_idx] := value')
    else:
        res.fail(ctx.finding('SETTER-WRITES', P.func('Optic.set_asphere_coeff'),
                             None, 'asphere coefficient index not honoured',
                             construct='set_asphere_coeff index'))
    for q, what in ACCESSORS.items():
        g = P.func(q)
        res.saw(g)
        if what in unparse(g.node, 3000):
            res.ok(f'{q} reads {what}')
        else:
            res.fail(ctx.finding('SETTER-WRITES', g, g.node,
                                 f'{q} does not read back {what}',
                                 construct=q + ' accessor'))
    return res


def pickup(ctx):
    P = ctx.P
    res = Result('PICKUP', 'Pickup.apply: target := scale*source + offset; '
                 'source read at source_surface_idx and target written at '
                 'target_surface_idx with the matching accessor / setter; '
                 'update() applies pickups then solves')
    f = P.func('Pickup.apply')
    res.saw(f)
    got = {}

    def inline(call, ev):
        fn = call.func
        if isinstance(fn, ast.Attribute) and fn.attr == '_get_value':
            return A('SRC')
        if isinstance(fn, ast.Attribute) and fn.attr == '_set_value':
            got['v'] = ev.ev(call.args[0])
            return ZERO
        return None
    ev = Ev(inline=inline)
    ev.run(f.node.body)
    want = A('self.scale') * A('SRC') + A('self.offset')
    if 'v' in got and rat_eq(got['v'], want):
        res.ok('apply: _set_value(scale * _get_value() + offset)')
    else:
        res.fail(ctx.finding('PICKUP', f, f.node,
                             f'pickup target := {got.get("v")}, expected '
                             f'scale*source + offset',
                             construct='Pickup.apply law'))
    g = P.func('Pickup._get_value')
    s = P.func('Pickup._set_value')
    res.saw(g), res.saw(s)
    # 'conic' may be read as geometry.k or, so that a flat source (which has
    # no conic attribute unless one was set) reads 0, as
    # getattr(geometry, 'k', 0)
    table = {'radius': ('geometry.radius', 'set_radius'),
             'conic': (('geometry.k', "getattr(surface.geometry, 'k', 0)"),
                       'set_conic'),
             'thickness': ('get_thickness(self.source_surface_idx)',
                           'set_thickness')}

    def arms(fn):
        out = {}
        for n in ast.walk(fn.node):
            if isinstance(n, ast.If) and isinstance(n.test, ast.Compare) and \
                    'attr_type' in unparse(n.test.left) and \
                    isinstance(n.test.comparators[0], ast.Constant):
                out[n.test.comparators[0].value] = \
                    ' '.join(unparse(x) for x in n.body)
        return out
    ga, sa = arms(g), arms(s)
    for kind, (rd, setter) in table.items():
        rds = rd if isinstance(rd, tuple) else (rd,)
        okg = kind in ga and any(r_ in ga[kind] for r_ in rds)
        rd = rds[0]
        oks = kind in sa and f'{setter}(value, self.target_surface_idx)' in sa[kind]
        if okg and oks:
            res.ok(f"pickup '{kind}': reads {rd}, writes {setter}(value, target)")
        else:
            res.fail(ctx.finding('PICKUP', s if not oks else g, None,
                                 f"pickup '{kind}' does not read the source "
                                 f"quantity / write the target through "
                                 f"{setter}", construct=f'pickup kind {kind}'))
    gsrc = Code(P, g)
    if 'surfaces[self.source_surface_idx]' in gsrc:
        res.ok('_get_value addresses the source surface')
    else:
        res.fail(ctx.finding('PICKUP', g, g.node,
                             'pickup source surface index not honoured',
                             construct='pickup source index'))
    for fn in (g, s):
        if any(isinstance(n, ast.Raise) for n in ast.walk(fn.node)):
            res.ok(f'{fn.qual}: unknown attribute raises')
    # manager applies in insertion order; add applies immediately
    m = P.func('PickupManager.apply')
    lp = [n for n in ast.walk(m.node) if isinstance(n, ast.For)]
    if lp and unparse(lp[0].iter) == 'self.pickups' and \
            'apply()' in unparse(lp[0], 500):
        res.ok('PickupManager.apply iterates self.pickups in order')
    else:
        res.fail(ctx.finding('PICKUP', m, m.node,
                             'pickups are not all applied in order',
                             construct='PickupManager.apply'))
    # the solve manager likewise; both loops apply every entry on every pass
    # (a call under a condition is not "applied"), and add() applies the new
    # entry at once, so that the lens satisfies it before the next update()
    def uncond_calls(stmts):
        for st in stmts:
            if isinstance(st, (ast.For, ast.With)):
                yield from uncond_calls(st.body)
            elif isinstance(st, (ast.Expr, ast.Assign)):
                yield from (c for c in ast.walk(st) if isinstance(c, ast.Call))
    for mq, coll, var in (('PickupManager.apply', 'self.pickups', None),
                          ('SolveManager.apply', 'self.solves', None)):
        mf = P.func(mq)
        res.saw(mf)
        loops = [n for n in mf.node.body if isinstance(n, ast.For) and
                 unparse(n.iter) == coll and isinstance(n.target, ast.Name)]
        ok_ = bool(loops) and any(
            unparse(c.func) == loops[0].target.id + '.apply' and not c.args
            for c in uncond_calls(loops[0].body))
        if ok_:
            res.ok(f'{mq}: every entry of {coll} applied on every pass')
        else:
            res.fail(ctx.finding('PICKUP', mf, mf.node,
                                 f'{mq} does not apply every entry of {coll} '
                                 f'unconditionally',
                                 construct=mq + ' loop'))
    for aq, param in (('PickupManager.add', None), ('SolveManager.add', None)):
        af = P.func(aq)
        res.saw(af)
        made = [st.targets[0].id for st in af.node.body
                if isinstance(st, ast.Assign) and isinstance(
                    st.targets[0], ast.Name) and isinstance(
                    st.value, ast.Call)]
        ok_ = any(isinstance(c.func, ast.Attribute) and c.func.attr == 'apply'
                  and isinstance(c.func.value, ast.Name) and
                  c.func.value.id in made for c in uncond_calls(af.node.body))
        if ok_:
            res.ok(f'{aq}: the new entry is applied at once')
        else:
            res.fail(ctx.finding('PICKUP', af, af.node,
                                 f'{aq} does not apply the new entry: until '
                                 f'the next update() the lens does not '
                                 f'satisfy it', construct=aq + ' applies'))
    u = P.func('Optic.update')
    res.saw(u)
    calls = [unparse(c.func) for c in uncond_calls(u.node.body)]
    seq = [c for c in calls if c.endswith('.apply')]
    if seq == ['self.pickups.apply', 'self.solves.apply']:
        res.ok('Optic.update: pickups.apply() then solves.apply()')
    else:
        res.fail(ctx.finding('PICKUP', u, u.node,
                             'update() does not apply pickups then solves',
                             construct='Optic.update order'))
    return res


def solve(ctx):
    P = ctx.P
    res = Result('SOLVE', 'marginal-ray-height solve: offset obeys the '
                 'transfer law y[j] + u[j-1]*offset = height (slope of the '
                 'space in front of surface j) and shifts surface j and all '
                 'successors; image_solve puts the image at y + u d = 0')
    f = P.func('MarginalRayHeightSolve.apply')
    res.saw(f)
    from ..rat import explore

    def inline(call, ev):
        if isinstance(call.func, ast.Attribute) and \
                call.func.attr == 'marginal_ray':
            return (A('YA'), A('UA'))
        return None

    def run(choose):
        ev = Ev(sym=Sym(), inline=inline, choose=choose)
        ev.drop_zero_index = True
        for p_ in f.params:
            ev.env[p_] = A('param:' + p_)
        loop_ = None

        def go(body):
            nonlocal loop_
            for s_ in body:
                if isinstance(s_, ast.For):
                    loop_ = s_
                    return True
                if isinstance(s_, ast.If):
                    c = choose(s_.test, ev)
                    if go(s_.body if c else s_.orelse):
                        return True
                    continue
                ev.stmt(s_)
            return False
        go(f.node.body)
        return ev.env.get('offset'), loop_
    try:
        outcomes = explore(run)
    except Inconclusive as e:
        raise AnalysisError(f'solve: {e}')
    loop = None
    j = 'self.surface_idx'
    for decisions, (off, loop) in outcomes:
        if off is None:
            res.fail(ctx.finding('SOLVE', f, f.node,
                                 'solve computes no offset on some path',
                                 construct='solve transfer law'))
            continue
        cand = [a for a in off.atoms() if a.startswith('UA[')]
        ycand = [a for a in off.atoms() if a.startswith('YA[')]
        if len(cand) == 1 and len(ycand) == 1:
            ua = cand[0]
            idx = ua[3:-1].replace(' ', '')
            law = rat_eq(A(f'YA[{j}]') + A(ua) * off, A('self.height'))
            prev = idx == f'{j}-1'
            if law and prev:
                res.ok(f'offset = (height - ya[j]) / ua[j-1] '
                       f'(branches {decisions})')
            elif law:
                res.fail(ctx.finding(
                    'SOLVE', f, f.node,
                    f'the solve divides by {ua}, the marginal slope AFTER '
                    f'refraction at the solved surface; the ray reaches the '
                    f'surface with the slope of the preceding space (index '
                    f'j-1), so on an interior surface the ray does not land '
                    f'at the requested height', construct='solve slope index'))
            else:
                res.fail(ctx.finding('SOLVE', f, f.node,
                                     'solve offset does not satisfy the '
                                     'transfer law',
                                     construct='solve transfer law'))
        else:
            res.fail(ctx.finding(
                'SOLVE', f, f.node,
                f'on some path (branches {decisions}) the solve offset is not '
                f'computed from a marginal ray traced by this call (it uses '
                f'{sorted(off.atoms())}): with several solves, or after an '
                f'edit, a stale ray places the surface wrongly',
                construct='solve uses a ray not traced by this call'))
    if loop is not None and unparse(loop.iter).replace(' ', '') == \
            'self.optic.surface_group.surfaces[self.surface_idx:]' and any(
            isinstance(s, ast.AugAssign) and isinstance(s.op, ast.Add) and
            unparse(s.target).endswith('geometry.cs.z') and
            unparse(s.value) == 'offset' for s in loop.body):
        res.ok('surfaces[j:] shifted by +offset')
    else:
        res.fail(ctx.finding('SOLVE', f, f.node,
                             'the solved surface and its successors are not '
                             'all shifted by the offset',
                             construct='solve shift range'))
    g = P.func('Optic.image_solve')
    res.saw(g)
    ev = Ev(inline=inline)
    ev.drop_zero_index = True
    last = None
    for s in g.node.body:
        if isinstance(s, ast.AugAssign):
            last = s
            break
        ev.stmt(s)
    off = ev.env.get('offset')
    ok = False
    if off is not None and last is not None and isinstance(last.op, ast.Sub) \
            and unparse(last.value) == 'offset' and \
            'surfaces[-1].geometry.cs.z' in unparse(last.target):
        # new image plane at distance d = -offset: y + u d = 0 with u the
        # slope of the ray ARRIVING at the image surface, i.e. the record of
        # the surface before it (records hold the state after a surface, and
        # the image surface refracts into its own post medium)
        ok = rat_eq(A('YA[-1]') + A('UA[-2]') * (-off), ZERO)
    if ok:
        res.ok('image_solve: ya[-1] + ua[-2] * (-offset) = 0, image z -= offset')
    else:
        res.fail(ctx.finding('SOLVE', g, g.node,
                             'image_solve does not move the image to the '
                             'paraxial focus of the arriving ray (slope record '
                             '[-2]; [-1] is the slope after the image '
                             'surface)', construct='image_solve law'))
    m = P.func('SolveManager.add')
    src = Code(P, m)
    if 'solve.apply()' in src and 'self.solves.append(solve)' in src:
        res.ok('SolveManager.add applies and registers the solve')
    else:
        res.fail(ctx.finding('SOLVE', m, m.node,
                             'a new solve is not applied and registered',
                             construct='SolveManager.add'))
    return res


_GEO = {'cs': 'coordinate_system', 'kw:radius': 'radius', 'kw:conic': 'conic'}
_NR = dict(_GEO, **{'kw:tol': 'tol', 'kw:max_iter': 'max_iter',
                    'kw:coefficients': 'coefficients'})
_ID6 = {k: k for k in ('surface_type', 'index', 'is_stop', 'material',
                       'thickness')}
WIRING_SITES = [
    ('Optic.add_surface', 'SurfaceGroup.add_surface',
     dict(_ID6, new_surface='new_surface', **{'**kwargs': '**'})),
    ('SurfaceGroup.add_surface', 'SurfaceFactory.create_surface',
     dict(_ID6, **{'**kwargs': '**'})),
    ('SurfaceFactory.create_surface', 'SurfaceFactory._configure_cs',
     {'index': 'index', 'thickness': 'thickness', '**kwargs': '**'}),
    ('SurfaceFactory.create_surface', 'SurfaceFactory._configure_material',
     {'index': 'index', 'material': 'material'}),
    ('SurfaceFactory.create_surface', 'SurfaceFactory.configure_coating',
     {"kwargs.get('coating', None)": 'coating', 'material_pre': 'material_pre',
      'material_post': 'material_post'}),
    ('SurfaceFactory.create_surface', 'Surface.__init__',
     {'geometry': 'geometry', 'material_pre': 'material_pre',
      'material_post': 'material_post', 'is_stop': 'is_stop',
      'is_reflective': 'is_reflective', 'coating': 'coating',
      'kw:bsdf': 'bsdf', '**filtered_kwargs': '**'}),
    ('SurfaceFactory.create_surface', 'ObjectSurface.__init__',
     {'geometry': 'geometry', 'material_post': 'material_post'}),
    ('SurfaceFactory._configure_cs', 'CoordinateSystem.__init__',
     {'kw:dx': 'x', 'kw:dy': 'y', 'z': 'z', 'kw:rx': 'rx', 'kw:ry': 'ry'}),
    ('SurfaceFactory._configure_standard_geometry', 'Plane.__init__',
     {'cs': 'coordinate_system'}),
    ('SurfaceFactory._configure_standard_geometry',
     'StandardGeometry.__init__', _GEO),
    ('SurfaceFactory._configure_even_asphere_geometry', 'EvenAsphere.__init__',
     _NR),
    ('SurfaceFactory._configure_polynomial_geometry',
     'PolynomialGeometry.__init__', _NR),
    ('SurfaceFactory._configure_chebyshev_geometry',
     'ChebyshevPolynomialGeometry.__init__',
     dict(_NR, **{'kw:norm_x': 'norm_x', 'kw:norm_y': 'norm_y'})),
    ('SurfaceFactory._configure_material', 'IdealMaterial.__init__',
     {'1.0': 'n', '0.0': 'k'}),
    ('SurfaceFactory._configure_material', 'Material.__init__',
     [{'material[0]': 'name', 'material[1]': 'reference'},
      {'material': 'name'}]),
    ('SurfaceFactory.configure_coating', 'FresnelCoating.__init__',
     {'material_pre': 'material_pre', 'material_post': 'material_post'}),
    ('Optic.add_wavelength', 'WavelengthGroup.add_wavelength',
     {'value': 'value', 'is_primary': 'is_primary', 'unit': 'unit'}),
    ('WavelengthGroup.add_wavelength', 'Wavelength.__init__',
     {'value': 'value', 'is_primary': 'is_primary', 'unit': 'unit'}),
]
WIRING_SITES += [
    ('PickupManager.add', 'Pickup.__init__',
     {'self.optic': 'optic', 'source_surface_idx': 'source_surface_idx',
      'attr_type': 'attr_type', 'target_surface_idx': 'target_surface_idx',
      'scale': 'scale', 'offset': 'offset'}),
    ('SolveManager.add', 'SolveFactory.create_solve',
     {'self.optic': 'optic', 'solve_type': 'solve_type',
      'surface_idx': 'surface_idx', '*args': '*', '**kwargs': '**'}),
    ('SolveFactory.create_solve', 'MarginalRayHeightSolve.__init__',
     {'optic': 'optic', 'surface_idx': 'surface_idx', '*args': '*',
      '**kwargs': '**'}),
    ('Optic.set_radius', 'StandardGeometry.__init__',
     {'cs': 'coordinate_system', 'value': 'radius', 'conic': 'conic'}),
]
_ID = lambda *names: {n: n for n in names}       # noqa: E731
# coefficient tables are float arrays whatever literals they were written
# with: an integer table (np.atleast_2d([[0, 0], [0, 0]])) truncates every
# coefficient later written into it by a variable or perturbation
# (np.asarray hands back the caller's own array when it already is a float
# array: not a private copy)
_FLOAT_TABLE = ('np.atleast_2d(np.array(coefficients, dtype=float))',
                'np.atleast_2d(coefficients).astype(float)',
                'np.array(coefficients, dtype=float, ndmin=2)')
INIT_STORES = {
    'Pickup.__init__': (_ID('optic', 'source_surface_idx', 'attr_type',
                            'target_surface_idx', 'scale', 'offset'), None),
    'MarginalRayHeightSolve.__init__': (_ID('optic', 'surface_idx', 'height'),
                                        None),
    'CoordinateSystem.__init__': (_ID('x', 'y', 'z', 'rx', 'ry', 'rz',
                                      'reference_cs'), None),
    'BaseGeometry.__init__': ({'cs': 'coordinate_system'}, None),
    'StandardGeometry.__init__': ({'radius': 'radius', 'k': 'conic'},
                                  'super().__init__(coordinate_system)'),
    'Plane.__init__': ({'radius': 'np.inf'},
                       'super().__init__(coordinate_system)'),
    'NewtonRaphsonGeometry.__init__': (
        _ID('tol', 'max_iter'),
        'super().__init__(coordinate_system, radius, conic)'),
    'EvenAsphere.__init__': (
        {'c': ('list(coefficients)', 'np.array(coefficients, dtype=float)',
               'copy.copy(coefficients)', 'coefficients.copy()',
               '[float(c) for c in coefficients]')},
        'super().__init__(coordinate_system, radius, conic, tol, max_iter)'),
    'PolynomialGeometry.__init__': (
        {'c': _FLOAT_TABLE},
        'super().__init__(coordinate_system, radius, conic, tol, max_iter)'),
    'ChebyshevPolynomialGeometry.__init__': (
        dict(_ID('norm_x', 'norm_y'), c=_FLOAT_TABLE),
        'super().__init__(coordinate_system, radius, conic, tol, max_iter)'),
    'Surface.__init__': (_ID('geometry', 'material_pre', 'material_post',
                             'is_stop', 'aperture', 'coating', 'bsdf',
                             'is_reflective'), None),
    'IdealMaterial.__init__': ({'index': 'n', 'absorp': 'k'}, None),
    'Aperture.__init__': ({'ap_type': 'aperture_type', 'value': 'value',
                           'object_space_telecentric':
                           'object_space_telecentric'}, None),
}


def init_stores(ctx):
    P = ctx.P
    res = Result('INIT-STORES', 'constructors of the prescription objects '
                 'keep each argument in the attribute the rest of the '
                 'library reads it from, and hand the remaining arguments to '
                 'the base class in its parameter order')
    for q, (want, sup) in INIT_STORES.items():
        f = P.func(q)
        res.saw(f)
        got = {}
        for st in f.node.body:
            if isinstance(st, ast.Assign) and isinstance(
                    st.targets[0], ast.Attribute) and \
                    unparse(st.targets[0].value) == 'self':
                got[st.targets[0].attr] = unparse(st.value)
        bad = {a: (v, got.get(a)) for a, v in want.items()
               if (got.get(a) not in v if isinstance(v, tuple)
                   else got.get(a) != v)}
        sups = [unparse(c) for c in ast.walk(f.node)
                if isinstance(c, ast.Call) and
                unparse(c.func) == 'super().__init__']
        if sup is not None and sup not in sups:
            bad['super().__init__'] = (sup, sups)
        if sup is not None and not bad:
            # positional arguments reach the base-class parameter of the same
            # name
            cn = q.split('.')[0]
            base = None
            for k in P.mro(cn)[1:]:
                if '__init__' in P.classes[k].methods:
                    base = P.classes[k].methods['__init__']
                    break
            call = [c for c in ast.walk(f.node) if isinstance(c, ast.Call)
                    and unparse(c.func) == 'super().__init__'][0]
            if base is not None:
                for i, a in enumerate(call.args):
                    if i >= len(base.params) or unparse(a) != base.params[i]:
                        bad[f'super arg {i}'] = (
                            base.params[i] if i < len(base.params) else '?',
                            unparse(a))
        if bad:
            res.fail(ctx.finding(
                'INIT-STORES', f, f.node,
                f'{q}: ' + '; '.join(f'{a}: expected {e}, found {n}'
                                     for a, (e, n) in sorted(bad.items())),
                construct=f'{q} stores'))
        else:
            res.ok(f'{q}: ' + ', '.join(f'{a}<-{got.get(a)}' for a in want)
                   + (f'; {sup}' if sup else ''))
    return res


WIRING_DEFAULTS = [
    ('SurfaceFactory._configure_cs', 'dx', '0'),
    ('SurfaceFactory._configure_cs', 'dy', '0'),
    ('SurfaceFactory._configure_cs', 'rx', '0'),
    ('SurfaceFactory._configure_cs', 'ry', '0'),
] + [(f'SurfaceFactory._configure_{g}_geometry', k, d)
     for g in ('standard', 'even_asphere', 'polynomial', 'chebyshev')
     for k, d in (('radius', 'np.inf'), ('conic', '0'))] + [
    ('SurfaceFactory._configure_chebyshev_geometry', 'norm_x', '1'),
    ('SurfaceFactory._configure_chebyshev_geometry', 'norm_y', '1')]


def arg_wiring_rule(ctx):
    from .common import arg_wiring
    res = arg_wiring(ctx, 'ARG-WIRING', WIRING_SITES, WIRING_DEFAULTS)
    P = ctx.P
    # a surface is reflecting exactly when its material is given as 'mirror'
    f = P.func('SurfaceFactory.create_surface')
    from ..match import find
    if find(f, "is_reflective = material == 'mirror'"):
        res.ok("create_surface: is_reflective = (material == 'mirror')")
    else:
        res.fail(ctx.finding('ARG-WIRING', f, f.node,
                             "a surface is not made reflecting exactly when "
                             "its material is 'mirror'",
                             construct='is_reflective derivation'))
    need = {'standard': {'radius', 'conic'},
            'even_asphere': {'radius', 'conic', 'coefficients'},
            'polynomial': {'radius', 'conic', 'coefficients'},
            'chebyshev': {'radius', 'conic', 'coefficients', 'norm_x',
                          'norm_y'}}
    tab = None
    for st in ast.walk(f.node):
        if isinstance(st, ast.Assign) and isinstance(st.value, ast.Dict) and \
                unparse(st.targets[0]) == 'surface_config':
            tab = st.value
    if tab is None:
        raise AnalysisError('create_surface: surface_config table not found')
    seen = {}
    for k, v in zip(tab.keys, tab.values):
        ent = {kk.value: vv for kk, vv in zip(v.keys, v.values)}
        seen[k.value] = (unparse(ent['geometry']),
                         {e.value for e in ent['expected_params'].elts})
    for t, keys in need.items():
        if t not in seen:
            res.fail(ctx.finding('ARG-WIRING', f, tab,
                                 f'surface type {t!r} is no longer offered',
                                 construct=f'surface_config {t}'))
            continue
        g, ek = seen[t]
        if g == f'self._configure_{t}_geometry' and keys <= ek:
            res.ok(f'surface_config[{t!r}] -> {g}, passes {sorted(keys)}')
        else:
            res.fail(ctx.finding(
                'ARG-WIRING', f, tab,
                f'surface_config[{t!r}] builds {g} and passes {sorted(ek)}: '
                f'needs _configure_{t}_geometry with {sorted(keys)}',
                construct=f'surface_config {t}'))
    return res


def derived_sync_rule(ctx):
    from .common import derived_sync
    return derived_sync(ctx, 'DERIVED-SYNC')

def insertion(ctx):
    """add_surface(index=k) on a lens that already has surfaces behind k is an
    edit of the prescription: the new vertex must go where the surface it
    displaces was, the surfaces behind it move back by its thickness and the
    next surface's material_pre becomes the new material_post.  Structural
    necessary condition: SurfaceGroup.add_surface / the factory do something
    that depends on 'index < number of surfaces' and that writes the following
    vertices and the following material_pre."""
    P = ctx.P
    res = Result('INSERTION', 'inserting a surface in front of existing ones '
                 'keeps the table consistent: later vertices shifted by its '
                 'thickness, media re-linked, vertex placed from the gap it '
                 'splits (not from the thickness of the last surface added)')
    f = P.func('SurfaceGroup.add_surface')
    g = P.func('SurfaceFactory._configure_cs')
    res.saw(f), res.saw(g)
    ins = [c for c in ast.walk(f.node) if isinstance(c, ast.Call) and
           isinstance(c.func, ast.Attribute) and c.func.attr == 'insert']
    if not ins:
        raise AnalysisError('add_surface: insert call not found')
    src = unparse(f.node, 100000)
    shifts = [n for n in ast.walk(f.node)
              if isinstance(n, (ast.AugAssign, ast.Assign)) and
              '.cs.z' in unparse(n.target if isinstance(n, ast.AugAssign)
                                 else n.targets[0])]
    relink = [n for n in ast.walk(f.node) if isinstance(n, ast.Assign) and
              unparse(n.targets[0]).endswith('.material_pre')]
    stale = 'self.last_thickness' in unparse(g.node, 100000) and not any(
        isinstance(n, ast.Compare) and 'num_surfaces' in unparse(n)
        for n in ast.walk(g.node))
    if shifts and relink and not stale:
        res.ok('insertion shifts the later vertices and re-links the media')
    else:
        res.fail(ctx.finding(
            'INSERTION', f, ins[0],
            'add_surface(index=k) in front of existing surfaces only does '
            'surfaces.insert(k, new): the vertex is computed as '
            'positions[k-1] + last_thickness (the thickness of the most '
            'recently added surface, normally the image: 0), the thickness '
            'of the inserted surface is dropped (nothing behind it moves) '
            'and material_pre of the next surface is not re-linked; '
            'splitting 5 mm of glass into 2 + 3 mm by a dummy plane gives '
            'vertices [0, 2, 7, 13, ...] instead of [0, 2, 5, 11, ...] or '
            'all rays NaN, depending on the order of the two edit calls',
            construct='insertion in front of existing surfaces'))
    return res


# META update: declined clause 'insertion in the middle' re-worded
META['declined'] = [
    'removal placement semantics (insertion in front of existing surfaces is decided structurally by INSERTION and listed as a known finding)' if _d.startswith('insertion in the middle') else _d
    for _d in META['declined']]


def append_default(ctx):
    """add_surface(new_surface=s) without an index appends (docstring); the
    list insert must never see index None, and the stop flags of the existing
    surfaces must not be cleared by a call that then fails"""
    P = ctx.P
    res = Result('APPEND-DEFAULT', 'SurfaceGroup.add_surface gives index a '
                 'value on every path that reaches surfaces.insert')
    f = P.func('SurfaceGroup.add_surface')
    res.saw(f)
    from ..paths import paths, annotate, call_attr
    bad = None
    for p in annotate(P, f, paths(f)):
        if p.exit == 'raise':
            continue
        # decisions on `index is None` along the path
        idx_none = None
        assigned = False
        for e in p.events:
            if e.kind == 'branch' and unparse(e.node) == 'index is None':
                idx_none = bool(e.extra)
            if e.kind == 'store' and isinstance(e.node, ast.Name) and \
                    e.node.id == 'index':
                assigned = True
        if idx_none is True and not assigned:
            bad = p
        if idx_none is None and not assigned:
            # a path that never looked at index: ready-made surface branch
            bad = bad or p
    if bad is None:
        res.ok('index is set (or checked) before surfaces.insert on every '
               'path')
    else:
        res.fail(ctx.finding(
            'APPEND-DEFAULT', f, f.node,
            'add_surface(new_surface=s) without index reaches '
            'self.surfaces.insert(None, s): TypeError, after the stop flag '
            'of every existing surface was already cleared when s.is_stop',
            construct='insert with index None', path=bad.describe()))
    return res


def geometry_attr(ctx):
    """'the conic of a flat surface is 0': every surface has a radius and a
    conic in the prescription tables (SurfaceGroup.radii / conic), but not
    every geometry class stores them; code of the editing API that reads
    surface.geometry.k / .radius must work for every geometry class that the
    factory can put there (guarded by getattr, try / except AttributeError,
    or an isinstance test)."""
    P = ctx.P
    res = Result('GEOMETRY-ATTR', 'reads of geometry.k / geometry.radius in '
                 'the editing API are defined for every geometry class')
    geos = [cn for cn in P.classes if 'BaseGeometry' in P.mro(cn) and
            cn not in ('BaseGeometry', 'NewtonRaphsonGeometry')]
    has = {}
    for cn in geos:
        attrs = set()
        for c in P.mro(cn):
            init = P.classes[c].methods.get('__init__')
            if init is None:
                continue
            for st in ast.walk(init.node):
                if isinstance(st, ast.Assign):
                    for t in st.targets:
                        if isinstance(t, ast.Attribute) and \
                                unparse(t.value) == 'self':
                            attrs.add(t.attr)
        has[cn] = attrs
    n = 0
    for f in P.all_funcs():
        if not (f.module.endswith(('pickup.py', 'optic.py',
                                   'surface_group.py', 'solves.py')) or
                '/variable/' in f.module or '/tolerancing/' in f.module):
            continue
        src = unparse(f.node, 1000000)
        if 'isinstance(' in src and 'geometry' in src:
            continue                    # type-dispatched by the function
        tries = [t for t in ast.walk(f.node) if isinstance(t, ast.Try) and
                 any(h.type is None or 'AttributeError' in unparse(h.type) or
                     'Exception' in unparse(h.type) for h in t.handlers)]
        guarded_nodes = {id(x) for t in tries for b in t.body
                         for x in ast.walk(b)}
        for x in ast.walk(f.node):
            if isinstance(x, ast.Attribute) and x.attr in ('k', 'radius') \
                    and isinstance(x.ctx, ast.Load) and \
                    isinstance(x.value, ast.Attribute) and \
                    x.value.attr == 'geometry':
                n += 1
                missing = sorted(cn for cn in geos if x.attr not in has[cn])
                if missing and id(x) not in guarded_nodes:
                    res.saw(f)
                    res.fail(ctx.finding(
                        'GEOMETRY-ATTR', f, x,
                        f'{f.qual} reads {unparse(x)} unguarded, but '
                        f'{missing} have no attribute {x.attr!r}: a conic '
                        f'pickup / query whose source surface is flat raises '
                        f'AttributeError although the conic of a flat '
                        f'surface is 0 everywhere else',
                        construct=f'{f.qual} reads geometry.{x.attr}'))
    res.ok(f'{n} reads of geometry.k / geometry.radius examined over '
           f'{len(geos)} geometry classes')
    return res


def remove_relink(ctx):
    """material_post of surface k is material_pre of surface k+1 after every
    edit: deleting a surface puts its successor behind its predecessor, so the
    successor's material_pre has to become the predecessor's material_post"""
    P = ctx.P
    res = Result('REMOVE-RELINK', 'SurfaceGroup.remove_surface re-links the '
                 'medium in front of the surface that followed')
    f = P.func('SurfaceGroup.remove_surface')
    res.saw(f)
    dels = [i for i, st in enumerate(f.node.body) if isinstance(st, ast.Delete)
            and 'self.surfaces[index]' in unparse(st)]
    if not dels:
        raise AnalysisError('remove_surface: del self.surfaces[index] not '
                            'found')
    after = f.node.body[dels[0] + 1:]
    defs = {}
    ok = False
    for st in ast.walk(ast.Module(body=after, type_ignores=[])):
        if isinstance(st, ast.Assign) and isinstance(st.targets[0], ast.Name):
            defs[st.targets[0].id] = unparse(st.value)
    for st in ast.walk(ast.Module(body=after, type_ignores=[])):
        if isinstance(st, ast.Assign) and isinstance(
                st.targets[0], ast.Attribute) and \
                st.targets[0].attr == 'material_pre':
            base = unparse(st.targets[0].value)
            base = defs.get(base, base)
            val = unparse(st.value).replace(' ', '')
            if base == 'self.surfaces[index]' and val in (
                    'self.surfaces[index-1].material_post',):
                ok = True
    if ok:
        res.ok('after the deletion surfaces[index].material_pre := '
               'surfaces[index-1].material_post')
    else:
        res.fail(ctx.finding(
            'REMOVE-RELINK', f, f.node.body[dels[0]],
            'remove_surface only deletes the list entry: the surface that '
            'followed keeps the medium of the deleted surface as its '
            'material_pre, so the traced lens is not the prescription the '
            'tables report (f2 66.73 instead of 81.36; Lagrange invariant '
            'not constant)', construct='successor medium not re-linked'))
    # a mirror keeps its two sides in one medium, a Fresnel coating is rebuilt
    # for the new pair of media; the object surface cannot be removed
    mod = ast.Module(body=after, type_ignores=[])
    mirror = [n for n in ast.walk(mod) if isinstance(n, ast.If) and
              unparse(n.test).replace(' ', '') in (
                  'following.is_reflective',
                  'self.surfaces[index].is_reflective') and any(
                  unparse(st).replace(' ', '') in (
                      'following.material_post=following.material_pre',
                      'self.surfaces[index].material_post='
                      'self.surfaces[index].material_pre')
                  for st in n.body)]
    coat = [n for n in ast.walk(mod) if isinstance(n, ast.If) and
            'isinstance(' in unparse(n.test) and
            'FresnelCoating' in unparse(n.test) and
            unparse(n.test).replace(' ', '').startswith('isinstance(') and
            any(isinstance(st, ast.Expr) and 'set_fresnel_coating()' in
                unparse(st) for st in n.body)]
    guard0 = [n for n in f.node.body[:dels[0]] if isinstance(n, ast.If) and
              unparse(n.test).replace(' ', '') in ('index==0', '0==index')
              and any(isinstance(b, ast.Raise) for b in n.body)]
    bound = [n for n in f.node.body[dels[0] + 1:] if isinstance(n, ast.If) and
             unparse(n.test).replace(' ', '') in (
                 'index<len(self.surfaces)', 'len(self.surfaces)>index')]
    for name, ok_ in (('a mirror that followed keeps both sides in the new '
                       'medium', bool(mirror)),
                      ('a Fresnel coating is rebuilt for the new media',
                       bool(coat)),
                      ('the object surface cannot be removed', bool(guard0)),
                      ('nothing is re-linked when the last surface was '
                       'removed', bool(bound))):
        if ok_:
            res.ok('remove_surface: ' + name)
        else:
            res.fail(ctx.finding('REMOVE-RELINK', f, f.node,
                                 'remove_surface: not the case that ' + name,
                                 construct='remove_surface: ' + name[:40]))
    return res


def flat_conic(ctx):
    """'radii, conic constants ... are exactly those given' for any curvature
    including zero: the factory turns an infinite radius into a Plane, which
    has no conic parameter; the conic given must be kept on it (the attribute
    Optic.set_conic / set_radius use), else a later set_radius makes a sphere
    of the prescribed conic."""
    P = ctx.P
    res = Result('FLAT-CONIC', 'a conic constant given together with an '
                 'infinite radius is kept on the flat surface')
    f = P.func('SurfaceFactory._configure_standard_geometry')
    res.saw(f)
    arm = None
    for n in ast.walk(f.node):
        if isinstance(n, ast.If) and 'isinf' in unparse(n.test) and \
                'radius' in unparse(n.test):
            arm = n.body
    if arm is None:
        raise AnalysisError('_configure_standard_geometry: infinite-radius '
                            'arm not found')
    keeps = any(isinstance(st, ast.Assign) and
                unparse(st.targets[0]).endswith('.k') and
                unparse(st.value) == 'conic'
                for st in ast.walk(ast.Module(body=arm, type_ignores=[])))
    sr = P.func('Optic.set_radius')
    reads = "geometry.k" in unparse(sr.node, 100000) or \
        "'k'" in unparse(sr.node, 100000)
    if keeps and reads:
        res.ok('Plane built for radius = inf keeps the conic; set_radius '
               'reads it back')
    else:
        res.fail(ctx.finding(
            'FLAT-CONIC', f, f.node,
            'add_surface(radius=inf, conic=k) builds Plane(cs) and drops k: '
            'the conic reads 0, and after set_radius(-200) the surface is a '
            'sphere instead of the prescribed paraboloid (sag off by 2.5 um '
            'at r = 20; imported STANDARD surface with CURV 0 and CONI -1)',
            construct='conic dropped for a flat surface'))
    return res



def no_stale(ctx):
    from .common import stale_cache
    return stale_cache(ctx, 'NO-STALE-STATE', [],
                       'an edit made after the first update() is not followed', min_methods=0)


def c14_bounds_units(ctx):
    """shared with C14: Variable.update hands the value on unchanged (a
    variable update changes exactly that quantity and reads back the value
    set)"""
    from .C14 import bounds_units as _r
    return _r(ctx)

RULES = [c14_bounds_units, no_stale, flat_conic, remove_relink, geometry_attr, append_default, insertion, derived_sync_rule, arg_wiring_rule, init_stores, scalar_conv, placement, thickness_edit, media_chain, one_stop,
         setter_writes, pickup, solve]

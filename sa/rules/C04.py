"""C04 -- paraxial properties equal matrix optics (structural clauses)."""
import ast
from ..core import Result
from ..pm import AnalysisError, Missing, unparse
from ..match import Code
from ..paths import paths, annotate, callee_names, call_attr
from ..rat import (Ev, Rat, Sym, Poly, fn_eval, rat_eq, Inconclusive, ONE,
                   ZERO, const_of)

META = {
    'explanation': (
        'PARAX-EQ: the refraction / reflection / transfer statements of the '
        'paraxial surface trace equal the equations printed in the property '
        '(rational normal forms). INVARIANT-STEP: pushing two symbolic rays '
        'through those source expressions leaves n(ybar u - y ubar) unchanged '
        '(induction step of the Lagrange invariant). PARAX-LINEAR: the updates '
        'are homogeneous of degree 1 in (y, u). CROSSING: each cardinal / '
        'pupil location returned satisfies the transfer law y + sigma u d = 0 '
        'with sigma = -1 for reverse traces. FNO-EPD, MAG-INV: aperture arms '
        'and the invariant / magnification formulas. INVERTED-4: the reversed '
        'lens reverses order, negates radii, mirrors z about the last vertex '
        'and swaps media on a deep copy. SIGNED-RETURN: no sign-erasing '
        'operation on the returned cardinal values.'),
    'declined': ['numerical equality with explicitly multiplied ABCD matrices',
                 'pupil location by tracing from the stop (choice of skip)',
                 'chief-ray scaling values'],
    'trusted': ['ring axioms', 'records y[k], u[k] are the ray state after '
                'surface k (C02 TRACE-ORDER paraxial twin)'],
    'level_text': ('Static analysis; PARAX-EQ, INVARIANT-STEP and CROSSING are '
                   'proofs from the current source (level=proof in the '
                   'evidence), the rest structural rules.'),
}

A = Rat.atom
C = Rat.const


def _parax_step(P, f, y, u, mirror, sym=None, asphere=False):
    """evaluate Surface._trace_paraxial on a symbolic ray; returns heap.
    asphere: the geometry is an even asphere with a non-zero r^2 coefficient
    (atom self.geometry.c[0])."""
    heap = {'rays.y': y, 'rays.u': u, 'rays.z': A('z')}

    def inline(call, ev):
        fn = call.func
        if unparse(fn) in ('np.float64', 'float') and len(call.args) == 1:
            return ev.ev(call.args[0])
        if isinstance(fn, ast.Attribute) and fn.attr == 'n':
            return A('n1') if 'pre' in unparse(fn.value) else A('n2')
        if isinstance(fn, ast.Attribute) and fn.attr == 'propagate' and \
                unparse(fn.value) == 'rays':
            g = P.func('ParaxialRays.propagate')
            h2 = {'self.' + k[5:]: v for k, v in heap.items()}
            fn_eval(P, g, [ev.ev(call.args[0])], heap=h2, sym=ev.sym)
            for k, v in h2.items():
                heap['rays.' + k[5:]] = v
            return ZERO
        if isinstance(fn, ast.Attribute) and fn.attr in (
                'localize', 'globalize', 'reset', '_record'):
            return ZERO
        return None

    def choose(test, ev):
        src = unparse(test)
        if 'is_reflective' in src:
            return mirror
        if 'EvenAsphere' in src:
            return asphere
        if src.replace(' ', '') in ('curvature==0', 'curvature==0.0'):
            return False            # generic: the vertex curvature is not 0
        return None
    fn_eval(P, f, [A('rays')], sym=sym, heap=heap, inline=inline, choose=choose)
    return heap


def parax_eq(ctx):
    P = ctx.P
    res = Result('PARAX-EQ', "paraxial refraction u' = (n u - y (n'-n)/R)/n', "
                 "reflection u' = -u - 2y/R, transfer to the vertex plane",
                 level='proof')
    f = P.func('Surface._trace_paraxial')
    res.saw(f)
    res.saw(P.func('ParaxialRays.propagate'))
    y, u = A('y'), A('u')
    R = A('self.geometry.radius')
    try:
        hr = _parax_step(P, f, y, u, False)
        hm = _parax_step(P, f, y, u, True)
    except Inconclusive as e:
        raise AnalysisError(f'PARAX-EQ: outside fragment: {e}')
    # transfer: t = -z ; y_at = y + t u ; z_at = 0
    y_at = y - A('z') * u
    want = (A('n1') * u - y_at * (A('n2') - A('n1')) / R) / A('n2')
    checks = [
        ('transfer: z -> 0 at the vertex plane', rat_eq(hr['rays.z'], ZERO)),
        ('transfer: y -> y + t u', rat_eq(hr['rays.y'], y_at)),
        ("refraction u' = (n u - y (n'-n)/R)/n'", rat_eq(hr['rays.u'], want)),
        ("reflection u' = -u - 2y/R",
         rat_eq(hm['rays.u'], -u - C(2) * y_at / R)),
        ('reflection: y unchanged by the surface', rat_eq(hm['rays.y'], y_at)),
    ]
    for name, ok in checks:
        if ok:
            res.ok(name)
        else:
            res.fail(ctx.finding('PARAX-EQ', f, f.node,
                                 f'paraxial surface step differs from the '
                                 f'stated equation: {name}',
                                 construct='paraxial ' + name.split(':')[0]))
    # even asphere with an r^2 term: the vertex curvature is the second
    # derivative of the prescribed sag at the vertex, 1/R + 2 c[0]
    try:
        har = _parax_step(P, f, y, u, False, asphere=True)
        ham = _parax_step(P, f, y, u, True, asphere=True)
    except Inconclusive as e:
        raise AnalysisError(f'PARAX-EQ (asphere): outside fragment: {e}')
    cv = ONE / R + C(2) * A('self.geometry.c[0]')
    wa = (A('n1') * u - y_at * (A('n2') - A('n1')) * cv) / A('n2')
    for name, ok in (
            ("even asphere: refraction with curvature 1/R + 2 c[0]",
             rat_eq(har['rays.u'], wa)),
            ("even asphere: reflection with curvature 1/R + 2 c[0]",
             rat_eq(ham['rays.u'], -u - C(2) * y_at * cv))):
        if ok:
            res.ok(name)
        else:
            res.fail(ctx.finding(
                'PARAX-EQ', f, f.node,
                f'paraxial surface step differs from the stated equation: '
                f'{name} (the r^2 coefficient of the asphere changes the '
                f'vertex curvature)', construct='paraxial ' + name.split(':')[0]
                + ' curvature'))
    # image surface: transfer only
    g = P.func('ImageSurface._trace_paraxial')
    res.saw(g)
    hi = _parax_step(P, g, y, u, False)
    if rat_eq(hi['rays.y'], y_at) and rat_eq(hi['rays.u'], u):
        res.ok('image surface: transfer only, slope unchanged')
    else:
        res.fail(ctx.finding('PARAX-EQ', g, g.node,
                             'image surface changes the paraxial ray beyond '
                             'transfer', construct='image paraxial transfer'))
    # propagate on its own
    pr = P.func('ParaxialRays.propagate')
    ev = fn_eval(P, pr)
    if rat_eq(ev.heap.get('self.y', ZERO), A('self.y') + A('t') * A('self.u')) \
            and rat_eq(ev.heap.get('self.z', ZERO), A('self.z') + A('t')):
        res.ok('ParaxialRays.propagate: y += t u, z += t')
    else:
        res.fail(ctx.finding('PARAX-EQ', pr, pr.node,
                             'paraxial transfer is not y += t u, z += t',
                             construct='ParaxialRays.propagate'))
    return res


def invariant_step(ctx):
    P = ctx.P
    res = Result('INVARIANT-STEP', 'n (ybar u - y ubar) is unchanged by one '
                 'refraction, one reflection (index sign reversal) and one '
                 'transfer evaluated on the source expressions', level='proof')
    f = P.func('Surface._trace_paraxial')
    res.saw(f)
    ya, ua, yb, ub = A('ya'), A('ua'), A('yb'), A('ub')
    n1, n2 = A('n1'), A('n2')
    inv0 = n1 * (yb * ua - ya * ub)
    for mirror, name in ((False, 'refraction'), (True, 'reflection')):
        # at the vertex plane (z = 0 -> no transfer)
        class H(dict):
            pass
        ha = _parax_step(P, f, ya, ua, mirror)
        hb = _parax_step(P, f, yb, ub, mirror)
        # remove the transfer part: substitute z = 0
        def z0(r):
            return Rat(r.n.subst('z', Poly()), r.d.subst('z', Poly()))
        ya2, ua2 = z0(ha['rays.y']), z0(ha['rays.u'])
        yb2, ub2 = z0(hb['rays.y']), z0(hb['rays.u'])
        nn = -n1 if mirror else n2
        inv1 = nn * (yb2 * ua2 - ya2 * ub2)
        if rat_eq(inv1, inv0):
            res.ok(f'{name}: invariant preserved')
        else:
            res.fail(ctx.finding('INVARIANT-STEP', f, f.node,
                                 f'the Lagrange invariant changes across a '
                                 f'{name}', construct=f'invariant {name}'))
    pr = P.func('ParaxialRays.propagate')
    ha = {'self.y': ya, 'self.u': ua, 'self.z': A('z')}
    hb = {'self.y': yb, 'self.u': ub, 'self.z': A('z')}
    fn_eval(P, pr, [A('t')], heap=ha)
    fn_eval(P, pr, [A('t')], heap=hb)
    inv1 = n1 * (hb['self.y'] * ha['self.u'] - ha['self.y'] * hb['self.u'])
    if rat_eq(inv1, inv0):
        res.ok('transfer: invariant preserved')
    else:
        res.fail(ctx.finding('INVARIANT-STEP', pr, pr.node,
                             'the Lagrange invariant changes across a '
                             'transfer', construct='invariant transfer'))
    return res


def parax_linear(ctx):
    P = ctx.P
    res = Result('PARAX-LINEAR', 'the paraxial surface step is homogeneous of '
                 'degree 1 in (y, u): ray data are linear in launch height and '
                 'slope')
    f = P.func('Surface._trace_paraxial')
    res.saw(f)
    y, u = A('y'), A('u')
    for mirror in (False, True):
        h = _parax_step(P, f, y, u, mirror)
        for k in ('rays.y', 'rays.u'):
            r = h[k]
            ok = not ({'y', 'u'} & r.d.atoms()) and bool(r.n.d) and all(
                sum(e for a, e in mono if a in ('y', 'u')) == 1
                for mono in r.n.d)
            if ok:
                res.ok(f'{"mirror" if mirror else "refract"} {k}: degree 1')
            else:
                res.fail(ctx.finding(
                    'PARAX-LINEAR', f, f.node,
                    f'{k} after the {"mirror" if mirror else "refracting"} '
                    f'step is not linear in (y, u)',
                    construct=f'linear {k} mirror={mirror}'))
    return res


def _ret_eval(P, f, choose=None, sigma_from=True):
    """evaluate a Paraxial method; calls to other paraxial queries become atoms;
    _trace_generic returns (y, u) records as atom families."""
    sym = Sym()
    info = {'reverse': None, 'calls': []}

    def inline(call, ev):
        fn = call.func
        if isinstance(fn, ast.Attribute) and fn.attr == '_trace_generic':
            for k in call.keywords:
                if k.arg == 'reverse':
                    info['reverse'] = unparse(k.value) == 'True'
            if info['reverse'] is None:
                info['reverse'] = False
            info['calls'].append(call)
            return ('Y', 'U')
        if isinstance(fn, ast.Attribute) and fn.attr in (
                'marginal_ray', 'chief_ray'):
            return ('YA', 'UA') if fn.attr == 'marginal_ray' else ('YB', 'UB')
        if isinstance(fn, ast.Attribute) and isinstance(fn.value, ast.Name) \
                and fn.value.id == 'self' and not call.args:
            return A(fn.attr + '()')
        if isinstance(fn, ast.Attribute) and fn.attr == 'n' and \
                unparse(fn.value) == 'self.optic' and not call.args:
            return 'NIDX'
        if isinstance(fn, ast.Attribute) and fn.attr == 'inverted':
            return A('INV')
        return None

    class E2(Ev):
        def ev(self, e):
            if isinstance(e, ast.Subscript):
                b = e.value
                if isinstance(b, ast.Name) and isinstance(self.env.get(b.id), str) \
                        and self.env[b.id] in ('Y', 'U', 'YA', 'UA', 'YB', 'UB',
                                               'NIDX'):
                    return A(f'{self.env[b.id]}[{self.index_key(e.slice)}]')
            return super().ev(e)

        def assign(self, tg, v):
            if isinstance(tg, (ast.Tuple, ast.List)) and isinstance(v, tuple) \
                    and all(isinstance(x, str) for x in v):
                for t, x in zip(tg.elts, v):
                    if isinstance(t, ast.Name):
                        self.env[t.id] = x
                return
            if isinstance(tg, ast.Name) and isinstance(v, str):
                self.env[tg.id] = v
                return
            super().assign(tg, v)

        def read(self, key):
            return super().read(key)

        def key(self, e):
            if isinstance(e, ast.Name) and isinstance(self.env.get(e.id), str) \
                    and self.env[e.id] in ('Y', 'U', 'YA', 'UA', 'YB', 'UB',
                                           'NIDX'):
                return self.env[e.id]
            return super().key(e)
    ev = E2(sym=sym, P=P, func=f, choose=choose, inline=inline)
    for p in f.params:
        ev.env[p] = A(p)
    ev.run(f.node.body)
    return ev, info, sym


def crossing(ctx):
    P = ctx.P
    res = Result('CROSSING', 'focal points, focal lengths and pupil locations '
                 'satisfy the transfer law y + sigma u d = 0 on the records of '
                 'the trace they launch (sigma = -1 for reverse traces); XPD '
                 'propagates the image-space marginal ray to the exit pupil',
                 level='proof')
    spec = {
        # name: (height record index, expected reverse flag)
        'F2': ('[-1]', False), 'F1': ('[-1]', True),
        'f2': ('[0]', False), 'f1': ('[0]', True),
        'XPL': ('[-1]', False), 'EPL': ('[-1]', True),
    }
    for name, (hidx, rev) in spec.items():
        f = P.func('Paraxial.' + name)
        res.saw(f)

        def choose(test, ev):
            s = unparse(test)
            if 'stop_index ==' in s:
                return False
            return None
        try:
            ev, info, sym = _ret_eval(P, f, choose)
        except Inconclusive as e:
            raise AnalysisError(f'CROSSING {name}: outside fragment: {e}')
        out = ev.returned
        if not isinstance(out, Rat):
            raise AnalysisError(f'CROSSING {name}: no scalar return')
        if info['reverse'] is None:
            raise Missing('CROSSING', f, f'{name} paraxial trace',
                          f'{name} does not obtain its value from a paraxial '
                          f'trace (no _trace_generic call on the evaluated path)')
        if info['reverse'] != rev:
            res.fail(ctx.finding(
                'CROSSING', f, f.node,
                f'{name} traces the {"forward" if rev else "reversed"} lens '
                f'(reverse={info["reverse"]}), expected reverse={rev}',
                construct=f'{name} trace direction'))
            continue
        sigma = C(-1) if info['reverse'] else ONE
        # strip sign-erasing wrappers for the law itself (reported separately)
        sg = [a for a, (k, x) in sym.defs.items() if k == 'sgn']
        val = out
        law_val = val
        if sg:
            # |v| = sgn(v) v : recover v
            law_val = sym.defs[sg[0]][1] if isinstance(sym.defs[sg[0]][1], Rat) \
                else val
            s_, canon = sym._signed(law_val)
        # slope in the last space of the trace: a forward trace ends on the
        # image surface, whose record holds the slope AFTER it (it refracts
        # into its own post medium), so the image-space slope is record [-2];
        # a reverse trace ends on the object surface, which leaves the ray
        # unchanged ([-1] == [-2])
        uidx = '[-1]' if rev else '[-2]'
        alt = '[-2]' if rev else None
        lhs = A('Y' + hidx) + sigma * A('U' + uidx) * law_val
        if sg:
            ok = sym.is_zero(lhs) or sym.is_zero(
                A('Y' + hidx) - sigma * A('U' + uidx) * law_val)
        else:
            ok = sym.is_zero(lhs)
        if not ok and alt:
            ok = sym.is_zero(A('Y' + hidx) + sigma * A('U' + alt) * law_val)
        if ok:
            res.ok(f'{name}: y{hidx} + ({"-" if rev else "+"}1) u{uidx} d '
                   f'== 0')
        else:
            res.fail(ctx.finding(
                'CROSSING', f, f.node,
                f'{name} = {out} does not satisfy the transfer law with the '
                f'records of its own trace (height record {hidx}, slope of '
                f'the ray arriving in the last space, record {uidx})',
                construct=f'{name} crossing law'))
        # launched ray: parallel unit-height ray for cardinal points, axial
        # point of the stop for pupils
        call = info['calls'][0]
        a0 = [unparse(x) for x in call.args[:2]]
        if name in ('F1', 'F2', 'f1', 'f2'):
            okl = len(a0) == 2 and const_of(call.args[1]) == 0 and \
                const_of(call.args[0]) not in (None, 0)
            what = 'parallel ray (u = 0, y != 0)'
        else:
            e2 = Ev()
            for n in ast.walk(f.node):
                if isinstance(n, ast.Assign) and isinstance(n.targets[0], ast.Name)\
                        and const_of(n.value) is not None:
                    e2.env[n.targets[0].id] = C(const_of(n.value))
            try:
                y0 = e2.ev(call.args[0])
                u0 = e2.ev(call.args[1])
                okl = y0.is_const() and y0.n.is_zero() and u0.is_const() and \
                    not u0.n.is_zero()
            except Inconclusive:
                okl = False
            what = 'axial ray from the stop centre (y = 0, u != 0)'
            sk = [k for k in call.keywords if k.arg == 'skip']
            if not sk or 'stop_index' not in unparse(sk[0].value) or \
                    '+ 1' not in unparse(sk[0].value).replace('+1', '+ 1'):
                okl = False
                what += ' with skip = stop_index + 1'
        if okl:
            res.ok(f'{name}: launches a {what}')
        else:
            res.fail(ctx.finding('CROSSING', f, call,
                                 f'{name} does not launch a {what}',
                                 construct=f'{name} launch'))
    # XPD
    f = P.func('Paraxial.XPD')
    res.saw(f)
    ev, info, sym = _ret_eval(P, f)
    # the exit pupil lies in image space: the ray is propagated with the
    # slope it has when it arrives at the image surface (record [-2]); the
    # record [-1] is the slope after the image surface refracted into its own
    # post medium (same convention as f2, F2, XPL, image_solve)
    want = C(2) * (A('YA[-1]') + A('UA[-2]') * A('XPL()'))
    # a diameter is a magnitude (|pupil magnification| x stop diameter in
    # matrix optics): the value is |want|, i.e. its square is want^2 and it
    # carries the sign factor of an absolute value
    ret = ev.returned
    if isinstance(ret, Rat) and sym.eq(ret * ret, want * want) and \
            any(a_.startswith('sgn') for a_ in ret.atoms()):
        res.ok('XPD == 2 |ya[-1] + ua[-1] XPL|')
    else:
        res.fail(ctx.finding('CROSSING', f, f.node,
                             f'XPD = {ev.returned} is not twice the magnitude of '
                             f'the marginal ray height propagated to the exit '
                             f'pupil (a negative diameter makes the pupil '
                             f'magnification XPD/EPD negative)',
                             construct='XPD'))
    # principal / nodal planes
    for name, want in (('P1', A('F1()') - A('f1()')),
                       ('P2', A('F2()') - A('f2()')),
                       ('N1', A('P1()') + A('f1()') + A('f2()')),
                       ('N2', A('P2()') + A('f1()') + A('f2()'))):
        f = P.func('Paraxial.' + name)
        res.saw(f)
        ev, info, sym = _ret_eval(P, f)
        if isinstance(ev.returned, Rat) and sym.eq(ev.returned, want):
            res.ok(f'{name} == {want}')
        else:
            res.fail(ctx.finding('CROSSING', f, f.node,
                                 f'{name} = {ev.returned}, expected {want}',
                                 construct=name))
    # pupil traces start at the stop centre of the group that is traced and
    # skip exactly the surfaces up to and including the stop
    for name, grp in (('EPL', 'INV'), ('XPL', 'self.surfaces')):
        f = P.func('Paraxial.' + name)
        seen = {}

        def ch(t, e, seen=seen):
            if 'stop_index ==' in unparse(t) and isinstance(t, ast.Compare):
                seen['lhs'] = e.ev(t.left)
                seen['rhs'] = e.ev(t.comparators[0])
                seen['op'] = type(t.ops[0]).__name__
                return False
            return None
        ev, info, sym = _ret_eval(P, f, ch)
        call = info['calls'][0]
        z = ev.ev(call.args[2])
        sk = [ev.ev(k.value) for k in call.keywords if k.arg == 'skip']
        okz = rat_eq(z, A(f'{grp}.positions[{grp}.stop_index]')) and sk and \
            rat_eq(sk[0], A(f'{grp}.stop_index') + ONE)
        if okz:
            res.ok(f'{name}: launched at positions[stop_index] of the traced '
                   f'group, skip = stop_index + 1')
        else:
            res.fail(ctx.finding(
                'CROSSING', f, call,
                f'{name}: the pupil ray is launched at z = {z} with skip = '
                f'{sk[0] if sk else None}: not the stop centre of the traced '
                f'group / not the surfaces after the stop',
                construct=f'{name} launch plane'))
        # special arm
        lhs, rhs = seen.get('lhs'), seen.get('rhs')
        want_rhs = ZERO if name == 'EPL' else None
        okc = isinstance(lhs, Rat) and rat_eq(
            lhs, A('self.surfaces.stop_index')) and seen.get('op') == 'Eq'
        if name == 'EPL':
            okc = okc and isinstance(rhs, Rat) and rat_eq(rhs, ZERO)
        else:
            okc = okc and isinstance(rhs, Rat) and len(rhs.atoms()) == 1 and \
                rat_eq(rhs, A(sorted(rhs.atoms())[0]) - C(2)) and \
                'len' in sorted(rhs.atoms())[0]
        ev2, info2, sym2 = _ret_eval(P, f, lambda t, e: True
                                     if 'stop_index ==' in unparse(t) else None)
        r = ev2.returned
        if name == 'EPL':
            okv = isinstance(r, Rat) and rat_eq(
                r, A('self.surfaces.positions[1]'))
            what = ('stop on the object surface (index 0): EPL = position of '
                    'the first surface')
        else:
            okv = isinstance(r, Rat) and (
                rat_eq(r, A('self.optic.surface_group.positions[-2]') -
                       A('self.optic.surface_group.positions[-1]')) or
                rat_eq(r, A('self.surfaces.positions[-2]') -
                       A('self.surfaces.positions[-1]')))
            what = ('stop on the last surface before the image: XPL = '
                    'positions[-2] - positions[-1]')
        if okc and okv:
            res.ok(f'{name} special arm: {what}')
        else:
            res.fail(ctx.finding(
                'CROSSING', f, f.node,
                f'{name} special arm (condition {seen.get("lhs")} '
                f'{seen.get("op")} {seen.get("rhs")}, value {r}) is not: '
                f'{what}', construct=f'{name} special arm'))
    return res


def signed_return(ctx):
    P = ctx.P
    res = Result('SIGNED-RETURN', 'no sign-erasing operation (abs, sqrt of a '
                 'square) on the value returned by a cardinal / pupil function')
    for name in ('f1', 'f2', 'F1', 'F2', 'P1', 'P2', 'N1', 'N2', 'EPL', 'XPL',
                 'EPD', 'magnification', 'invariant', 'FNO'):
        # XPD is not in the list: a diameter is a magnitude (CROSSING checks
        # that it is exactly |2 (ya + ua XPL)|)
        f = P.func('Paraxial.' + name)
        res.saw(f)
        bad = None
        for n in ast.walk(f.node):
            if isinstance(n, ast.Return) and n.value is not None:
                for c in ast.walk(n.value):
                    if isinstance(c, ast.Call) and (
                            (isinstance(c.func, ast.Attribute) and
                             c.func.attr in ('abs', 'fabs', 'absolute')) or
                            (isinstance(c.func, ast.Name) and c.func.id == 'abs')):
                        # EPD, objectNA arm: |EPL - z_object| is the distance
                        # to the pupil, not a signed optical quantity
                        if name == 'EPD' and c.args and isinstance(
                                c.args[0], ast.Name) and any(
                                isinstance(st, ast.Assign) and
                                unparse(st.targets[0]) == c.args[0].id and
                                unparse(st.value).replace(' ', '') ==
                                'self.EPL()-obj_z'
                                for st in ast.walk(f.node)):
                            continue
                        bad = n
        if bad is None:
            res.ok(f'{name}: signed value returned')
        else:
            res.fail(ctx.finding(
                'SIGNED-RETURN', f, bad,
                f'{name}() returns an absolute value: a negative (diverging) '
                f'system reports a positive {name}, and EPD/FNO derived from '
                f'it lose their sign', construct=f'{name} returns abs(...)'))
    return res


def fno_epd(ctx):
    P = ctx.P
    res = Result('FNO-EPD', 'in every aperture-type arm FNO() * EPD() = f2(); '
                 'object-NA arm is the transfer law with slope tan(asin(NA/n))')
    fe = P.func('Paraxial.EPD')
    ff = P.func('Paraxial.FNO')
    res.saw(fe), res.saw(ff)
    for ap in ('EPD', 'imageFNO', 'objectNA'):
        def choose(test, ev, ap=ap):
            s = unparse(test)
            if 'ap_type ==' in s:
                return f"'{ap}'" in s
            return None

        def arc(call, ev):
            return None
        try:
            eve, _, syme = _ret_eval(P, fe, choose)
            evf, _, symf = _ret_eval(P, ff, choose)
        except Inconclusive as e:
            raise AnalysisError(f'FNO-EPD arm {ap}: {e}')
        epd, fno = eve.returned, evf.returned
        if epd is None or fno is None:
            res.fail(ctx.finding('FNO-EPD', fe, fe.node,
                                 f"aperture type '{ap}' has no EPD/FNO arm",
                                 construct=f'arm {ap}'))
            continue
        if ap == 'EPD':
            ok = rat_eq(epd, A('ap_value')) or 'value' in repr(epd)
            ok = ok and rat_eq(fno * A('EPD()'), A('f2()'))
        elif ap == 'imageFNO':
            val = [a for a in epd.atoms() if 'value' in a]
            ok = bool(val) and rat_eq(epd * A(val[0]), A('f2()')) and \
                'value' in repr(fno) and fno.d.is_const()
        else:
            ok = rat_eq(fno * A('EPD()'), A('f2()')) and \
                'EPL()' in repr(epd)
        if ok:
            res.ok(f"arm '{ap}': FNO * EPD == f2")
        else:
            res.fail(ctx.finding('FNO-EPD', fe, fe.node,
                                 f"aperture arm '{ap}': EPD = {epd}, FNO = "
                                 f"{fno} do not satisfy FNO * EPD = f2",
                                 construct=f'arm {ap}'))
    # object NA arm shape: 2 (EPL - obj_z) tan(arcsin(NA / n0))
    def ch_na(test, ev):
        s_ = unparse(test)
        if 'ap_type ==' in s_:
            return "'objectNA'" in s_
        return None
    eve, _, syme = _ret_eval(P, fe, ch_na)
    epd = eve.returned
    okna = False
    asin = [(a, d) for a, d in syme.defs.items() if d[0] == 'call:np.arcsin']
    ncall = [(a, d) for a, d in syme.defs.items()
             if d[0].startswith('call:') and d[0].endswith(
                 'object_surface.material_post.n')]
    if isinstance(epd, Rat) and len(asin) == 1 and len(ncall) == 1:
        th = A(asin[0][0])
        arg = asin[0][1][1][0]
        nar = ncall[0][1][1]
        okna = rat_eq(arg, A('self.optic.aperture.value') / A(ncall[0][0])) \
            and len(nar) == 1 and rat_eq(
                nar[0], A('self.optic.primary_wavelength')) and syme.eq(
                epd * syme.cos(th), C(2) * syme.absv(
                    A('EPL()') - A('self.optic.object_surface.geometry.cs.z'))
                * syme.sin(th))
    if okna:
        res.ok('objectNA arm: 2 |EPL - z_obj| tan(asin(NA / n0)) (a diameter: '
               'the pupil may lie behind the object)')
    else:
        res.fail(ctx.finding('FNO-EPD', fe, fe.node,
                             'objectNA arm is not 2 |EPL - z_obj| '
                             'tan(asin(NA/n0))', construct='objectNA arm'))
    return res


def mag_inv(ctx):
    P = ctx.P
    res = Result('MAG-INV', 'magnification = n0 u0 / (nk uk); invariant = '
                 'n (ybar u - y ubar) with all four records and n at the same '
                 'surface; marginal ray aimed at the pupil edge')
    f = P.func('Paraxial.magnification')
    res.saw(f)
    ev, info, sym = _ret_eval(P, f)
    want = A('NIDX[0]') * A('UA[0]') / (A('NIDX[-1]') * A('UA[-1]'))
    if isinstance(ev.returned, Rat) and rat_eq(ev.returned, want):
        res.ok('magnification == n[0] ua[0] / (n[-1] ua[-1])')
    else:
        res.fail(ctx.finding('MAG-INV', f, f.node,
                             f'magnification = {ev.returned}',
                             construct='magnification formula'))
    f = P.func('Paraxial.invariant')
    res.saw(f)
    from ..rat import explore
    try:
        outs = explore(lambda ch: _ret_eval(P, f, choose=ch))
    except Inconclusive as e:
        raise AnalysisError(f'Paraxial.invariant: {e}')
    for dec, (ev, info, sym) in outs:
        r = ev.returned
        ok = False
        if isinstance(r, Rat):
            idx = {a[a.index('['):] for a in r.atoms() if '[' in a}
            if len(idx) == 1:
                i = idx.pop()
                want = A('NIDX' + i) * (A('YB' + i) * A('UA' + i) -
                                        A('YA' + i) * A('UB' + i))
                ok = rat_eq(r, want)
        tag = f' (branch decisions {dec})' if dec else ''
        if ok:
            res.ok('invariant == n (yb ua - ya ub) at one surface' + tag)
        else:
            res.fail(ctx.finding('MAG-INV', f, f.node,
                                 f'invariant = {r} is not n (ybar u - y ubar) '
                                 f'evaluated at a single surface' + tag +
                                 ': records 0 are the launch state at the '
                                 'first surface, not the object',
                                 construct='invariant formula'))
    # marginal ray
    f = P.func('Paraxial.marginal_ray')
    res.saw(f)
    for inf, na in ((True, False), (False, False), (False, True)):
        def choose(test, ev, inf=inf, na=na):
            if 'is_infinite' in unparse(test):
                return inf
            if "ap_type == 'objectNA'" in unparse(test):
                return na
            return None
        sym = Sym()
        got = {}

        def inline(call, ev):
            fn = call.func
            if isinstance(fn, ast.Attribute) and fn.attr == '_trace_generic':
                got['args'] = [ev.ev(a) for a in call.args]
                return ('Y', 'U')
            if isinstance(fn, ast.Attribute) and isinstance(fn.value, ast.Name)\
                    and fn.value.id == 'self' and not call.args:
                return A(fn.attr + '()')
            return None
        ev = Ev(sym=sym, choose=choose, inline=inline)
        try:
            ev.run(f.node.body)
        except Inconclusive as e:
            raise AnalysisError(f'marginal_ray: {e}')
        if 'args' not in got:
            raise AnalysisError('marginal_ray: no _trace_generic call')
        y0, u0, z0 = got['args'][:3]
        if inf:
            ok = rat_eq(y0, A('EPD()') / C(2)) and rat_eq(u0, ZERO)
            what = 'infinite object: y = EPD/2, u = 0'
        elif na:
            # objectNA: the marginal slope in object space is the aperture
            # definition, tan(asin(NA / n_object)), for every pupil position
            # (also a pupil at infinity, where EPD / (2 (EPL - z)) is inf/inf)
            asin = [(a_, d_) for a_, d_ in sym.defs.items()
                    if d_[0] == 'call:np.arcsin']
            ok = False
            if rat_eq(y0, ZERO) and isinstance(u0, Rat) and len(asin) == 1:
                th = A(asin[0][0])
                arg = asin[0][1][1][0]
                ncall = [a_ for a_, d_ in sym.defs.items()
                         if d_[0].startswith('call:') and d_[0].endswith(
                             'object_surface.material_post.n')]
                ok = len(ncall) == 1 and rat_eq(
                    arg, A('self.optic.aperture.value') / A(ncall[0])) and \
                    sym.eq(u0 * sym.cos(th), sym.sin(th))
            what = 'finite object, objectNA: axial ray with slope ' \
                   'tan(asin(NA / n_object))'
        else:
            # transfer law: y0 + u0 (EPL - z0) == EPD/2
            ok = rat_eq(y0 + u0 * (A('EPL()') - z0), A('EPD()') / C(2)) and \
                rat_eq(y0, ZERO)
            what = 'finite object: axial ray reaching the pupil edge ' \
                   '(y0 + u0 (EPL - z0) = EPD/2)'
        if ok:
            res.ok('marginal_ray ' + what)
        else:
            res.fail(ctx.finding('MAG-INV', f, f.node,
                                 'marginal ray launch is not ' + what,
                                 construct='marginal launch inf=' + str(inf)
                                 + (' objectNA' if na else '')))
    return res


def inverted4(ctx):
    P = ctx.P
    res = Result('INVERTED-4', 'the reversed lens: reversed order, radius '
                 'negated, z mirrored about the last vertex, media swapped, on '
                 'a deep copy; _trace_generic(reverse=True) uses it')
    f = P.func('SurfaceGroup.inverted')
    res.saw(f)
    src = Code(P, f)
    dc = [n for n in ast.walk(f.node) if isinstance(n, ast.Call) and
          unparse(n.func) in ('deepcopy', 'copy.deepcopy')]
    ok1 = dc and unparse(dc[0].args[0]) == 'self.surfaces[::-1]'
    loops = [n for n in ast.walk(f.node) if isinstance(n, ast.For)]
    ev_ok = {'radius': False, 'z': False, 'swap': False, 'asphere': False}
    if loops:
        lp = loops[0]
        var = lp.target.id if isinstance(lp.target, ast.Name) else 'surf'
        heap = {}
        ev = Ev(heap=heap)
        zs = None
        for s in f.node.body:
            if isinstance(s, ast.Assign) and isinstance(s.targets[0], ast.Name)\
                    and 'cs.z' in unparse(s.value):
                zs = unparse(s.value)
                ev.env[s.targets[0].id] = A('ZLAST')
        asph = None
        try:
            for s in lp.body:
                if isinstance(s, ast.If) and 'EvenAsphere' in unparse(s.test):
                    asph = s
                    continue
                ev.stmt(s)
        except Inconclusive as e:
            raise AnalysisError(f'inverted loop: {e}')
        # mirroring z negates the sag: every even-asphere coefficient changes
        # sign together with the radius
        from ..match import find
        ev_ok['asphere'] = asph is not None and bool(find(
            ast.Module(body=asph.body, type_ignores=[]),
            f'{var}.geometry.c = [-$c for $c in {var}.geometry.c]'))
        g = lambda k: heap.get(f'{var}.{k}')
        ev_ok['radius'] = g('geometry.radius') is not None and rat_eq(
            g('geometry.radius'), -A(f'{var}.geometry.radius'))
        ev_ok['z'] = g('geometry.cs.z') is not None and rat_eq(
            g('geometry.cs.z'), A('ZLAST') - A(f'{var}.geometry.cs.z')) and \
            zs == 'self.surfaces[-1].geometry.cs.z'
        ev_ok['swap'] = g('material_pre') is not None and \
            g('material_post') is not None and \
            rat_eq(g('material_pre'), A(f'{var}.material_post')) and \
            rat_eq(g('material_post'), A(f'{var}.material_pre'))
        ok_iter = unparse(lp.iter) == (unparse(dc[0].targets[0])
                                       if False else
                                       _bound_name(f, dc[0]) if dc else '')
    else:
        ok_iter = False
    for name, ok in (('deep copy of the reversed list', bool(ok1)),
                     ('loop over the copy', bool(ok_iter)),
                     ('radius negated', ev_ok['radius']),
                     ('z mirrored about the last vertex', ev_ok['z']),
                     ('media swapped', ev_ok['swap']),
                     ('even-asphere coefficients negated with the radius',
                      ev_ok['asphere'])):
        if ok:
            res.ok('inverted: ' + name)
        else:
            res.fail(ctx.finding('INVERTED-4', f, f.node,
                                 'reversed lens is not built correctly: ' + name,
                                 construct='inverted: ' + name))
    g = P.func('Paraxial._trace_generic')
    res.saw(g)
    okg = False
    for n in ast.walk(g.node):
        if isinstance(n, ast.If) and unparse(n.test) == 'reverse':
            okg = 'inverted()' in ' '.join(unparse(s) for s in n.body) and \
                'inverted' not in ' '.join(unparse(s) for s in n.orelse)
    rets = [n for n in ast.walk(g.node) if isinstance(n, ast.Return)]
    okr = rets and unparse(rets[0].value).replace(' ', '') in (
        '(surfaces.y,surfaces.u)', 'surfaces.y,surfaces.u')
    tr = [c for c in ast.walk(g.node) if isinstance(c, ast.Call) and
          isinstance(c.func, ast.Attribute) and c.func.attr == 'trace']
    okt = tr and [unparse(a) for a in tr[0].args] == ['rays', 'skip'] and \
        unparse(tr[0].func.value) == 'surfaces'
    rc = [c for c in ast.walk(g.node) if isinstance(c, ast.Call) and
          unparse(c.func) == 'ParaxialRays']
    okc = rc and [unparse(a) for a in rc[0].args] == ['y', 'u', 'z', 'wavelength']
    for name, ok in (('reverse -> inverted surfaces', okg),
                     ('returns the y and u records of the traced group', okr),
                     ('traces the chosen group with skip', okt),
                     ('rays built from (y, u, z, wavelength)', okc)):
        if ok:
            res.ok('_trace_generic: ' + name)
        else:
            res.fail(ctx.finding('INVERTED-4', g, g.node,
                                 '_trace_generic: ' + name + ' violated',
                                 construct='_trace_generic: ' + name))
    # ParaxialRays constructor binds (y, u, z, wavelength) to its fields
    pr = P.func('ParaxialRays.__init__')
    m = {}
    for n in ast.walk(pr.node):
        if isinstance(n, ast.Assign) and isinstance(n.targets[0], ast.Attribute)\
                and isinstance(n.value, ast.Call) and n.value.args and \
                isinstance(n.value.args[0], ast.Name):
            m[n.targets[0].attr] = n.value.args[0].id
    if m.get('y') == 'y' and m.get('u') == 'u' and m.get('z') == 'z' and \
            m.get('w') == 'wavelength':
        res.ok('ParaxialRays.__init__: y,u,z,w <- y,u,z,wavelength')
    else:
        res.fail(ctx.finding('INVERTED-4', pr, pr.node,
                             'ParaxialRays constructor mixes up its arguments',
                             construct='ParaxialRays.__init__ binding'))
    return res


def _bound_name(f, call):
    for n in ast.walk(f.node):
        if isinstance(n, ast.Assign) and n.value is call and \
                isinstance(n.targets[0], ast.Name):
            return n.targets[0].id
    return ''


def object_position(ctx):
    P = ctx.P
    res = Result('OBJECT-POSITION', 'Paraxial.trace launches from the object '
                 'point and aims at the pupil point: u0 = (y1 - y0)/(EPL - z0); '
                 'angular fields place the object point by the transfer law')
    f = P.func('Paraxial.trace')
    res.saw(f)
    got = {}

    def inline(call, ev):
        fn = call.func
        if isinstance(fn, ast.Name) and fn.id == 'ParaxialRays':
            got['rays'] = [ev.ev(a) for a in call.args]
            return A('RAYS')
        if isinstance(fn, ast.Attribute) and fn.attr == '_get_object_position':
            got['gop'] = [ev.ev(a) for a in call.args]
            return (A('y0'), A('z0'))
        if isinstance(fn, ast.Attribute) and isinstance(fn.value, ast.Name) and \
                fn.value.id == 'self' and not call.args:
            return A(fn.attr + '()')
        return None
    ev = Ev(inline=inline)
    for p in f.params:
        ev.env[p] = A(p)
    try:
        ev.run(f.node.body)
    except Inconclusive as e:
        raise AnalysisError(f'Paraxial.trace: {e}')
    if 'rays' in got:
        y0, u0, z0 = got['rays'][:3]
        y1 = A('Py') * A('EPD()') / C(2)
        if rat_eq(y0 + u0 * (A('EPL()') - z0), y1) and rat_eq(y0, A('y0')):
            res.ok('trace: y0 + u0 (EPL - z0) == Py EPD / 2')
        else:
            res.fail(ctx.finding('OBJECT-POSITION', f, f.node,
                                 'paraxial ray is not aimed at the pupil point '
                                 'Py EPD/2 in the entrance pupil plane',
                                 construct='Paraxial.trace aim'))
    else:
        raise AnalysisError('Paraxial.trace: ParaxialRays not constructed')
    gop = got.get('gop')
    if gop and len(gop) == 3 and rat_eq(gop[0], A('Hy')) and rat_eq(
            gop[1], A('Py') * A('EPD()') / C(2)) and rat_eq(
            gop[2], A('EPL()')):
        res.ok('trace: object point requested for (Hy, Py EPD/2, EPL)')
    else:
        res.fail(ctx.finding('OBJECT-POSITION', f, f.node,
                             'the object point is not requested with (Hy, '
                             'pupil height, EPL)',
                             construct='Paraxial.trace object point arguments'))
    tr = [c for c in ast.walk(f.node) if isinstance(c, ast.Call) and
          isinstance(c.func, ast.Attribute) and c.func.attr == 'trace' and
          'surface_group' in unparse(c.func.value)]
    mk = [st for st in ast.walk(f.node) if isinstance(st, ast.Assign) and
          isinstance(st.value, ast.Call) and
          unparse(st.value.func) == 'ParaxialRays']
    if tr and mk and len(tr[0].args) == 1 and \
            unparse(tr[0].args[0]) == unparse(mk[0].targets[0]) and \
            len(got['rays']) >= 4 and rat_eq(got['rays'][3], A('wavelength')):
        res.ok('trace: the constructed rays (with the requested wavelength) '
               'are traced through the lens')
    else:
        res.fail(ctx.finding('OBJECT-POSITION', f, f.node,
                             'Paraxial.trace does not trace the rays it '
                             'built', construct='Paraxial.trace traces rays'))
    g = P.func('Paraxial._get_object_position')
    res.saw(g)
    for inf, ft in ((True, 'angle'), (False, 'object_height'),
                    (False, 'angle')):
        def choose(test, ev, inf=inf, ft=ft):
            s = unparse(test)
            if 'is_infinite' in s:
                return inf
            if 'field_type ==' in s:
                return f"'{ft}'" in s
            return None
        sym = Sym()
        ev = fn_eval(P, g, [A('Hy'), A('y1'), A('EPL')], sym=sym, choose=choose)
        out = ev.returned
        if not (isinstance(out, tuple) and len(out) == 2):
            raise AnalysisError('_get_object_position: no (y0, z0) return')
        if isinstance(out[0], str) and out[0] == 'raise':
            res.fail(ctx.finding(
                'OBJECT-POSITION', g, out[1],
                f'{"infinite" if inf else "finite"} object with {ft} fields: '
                f'_get_object_position raises instead of returning the '
                f'launch point', construct=f'object position {inf} {ft} raises'))
            continue
        y0, z0 = out
        fy = A('self.optic.fields.max_field') * A('Hy')
        tanf = sym.sin(fy * A('pi') / C(180)) / sym.cos(fy * A('pi') / C(180))
        zatoms = sorted(z0.atoms()) if isinstance(z0, Rat) else []
        if ft == 'object_height':
            # the object point of normalised field Hy is at +Hy max_field,
            # as in the real-ray generator (C03 AIM: origin (Hx, Hy) max_field)
            ok = sym.eq(y0, fy) and len(zatoms) == 1 and \
                zatoms[0].endswith('object_surface.geometry.cs.z') and \
                rat_eq(z0, A(zatoms[0]))
            what = 'object height: y0 = +Hy max_field at the object vertex'
        else:
            # chief ray (y1 = 0) passes the pupil centre at angle field_y:
            # y0 + tan(theta) (EPL - z0) = y1  (sign convention of the library:
            # y0 = y1 - tan(theta) (EPL - z0))
            zz = ZERO if inf else z0
            # for an infinite object the start plane is the first surface and
            # EPL is measured from it
            if inf:
                # parallel bundle at the field angle, aimed at the pupil
                # point: y0 + tan(theta) (EPL - z0) = y1 for the launch plane
                # z0 that was chosen, and the aiming distance EPL - z0 (EPL is
                # measured from the first surface, at z = 0) must not vanish
                # for any pupil position: EPL - z0 = EPL + |EPL| + c, c > 0
                p1 = 'self.optic.surface_group.positions[1]'
                if not (isinstance(z0, Rat) and isinstance(y0, Rat)):
                    raise Inconclusive('launch point is not a value '
                                       f'({type(z0).__name__})')
                z00 = Rat(z0.n.subst(p1, Poly()), z0.d.subst(p1, Poly()))
                dist = A('EPL') - z00
                margin = dist - A('EPL') - sym.absv(A('EPL'))
                y00 = Rat(y0.n.subst(p1, Poly()), y0.d.subst(p1, Poly()))
                ok = sym.eq(y00, A('y1') - tanf * dist) and \
                    margin.is_const() and \
                    margin.n.constant() / margin.d.constant() > 0
            else:
                # the object point is fixed by the field alone (it does not
                # move with the pupil coordinate) and lies where the chief
                # ray, inclined by the field angle at the pupil centre, meets
                # the object plane
                ok = sym.eq(y0, -tanf * (A('EPL') - z0)) and \
                    len(zatoms) == 1 and \
                    zatoms[0].endswith('surface_group.positions[0]') and \
                    rat_eq(z0, A(zatoms[0]))
            what = ('angular field: y0 = y1 - tan(theta) (EPL - z0), '
                    'EPL - z0 > 0 (infinite object)' if inf else
                    'angular field: y0 = -tan(theta) (EPL - z_object) '
                    '(finite object)')
        if ok:
            res.ok('_get_object_position ' + what)
        else:
            res.fail(ctx.finding(
                'OBJECT-POSITION', g, g.node,
                f'_get_object_position ({"infinite" if inf else "finite"} '
                f'object, field type {ft}): y0 = {y0} does not satisfy '
                f'{what}',
                construct=f'object position inf={inf} field={ft}'))
    return res


def no_stale(ctx):
    from .common import stale_cache
    return stale_cache(ctx, 'NO-STALE-STATE', ['Paraxial'],
                       'paraxial results no longer describe the current lens')


def records(ctx):
    from .C02 import records as _r
    return _r(ctx)


def chief_ray(ctx):
    P = ctx.P
    res = Result('CHIEF-RAY', 'chief ray: axial ray from the stop centre traced '
                 'backwards, rescaled by linearity so that the object-space '
                 'slope is tan(max field) (angular fields) or the object '
                 'height is the max field (height fields), then traced '
                 'forwards from the first surface')
    f = P.func('Paraxial.chief_ray')
    res.saw(f)
    calls = [c for c in ast.walk(f.node) if isinstance(c, ast.Call) and
             isinstance(c.func, ast.Attribute) and
             c.func.attr == '_trace_generic']
    if len(calls) != 3:
        raise AnalysisError('chief_ray: expected three paraxial traces')
    for ft, what in (('angle', 'slope'), ('object_height', 'height')):
        sym = Sym()
        got = []

        def inline(call, ev):
            fn = call.func
            if isinstance(fn, ast.Attribute) and fn.attr == '_trace_generic':
                k = len(got)
                got.append(([ev.ev(a) for a in call.args],
                            {kw.arg: unparse(kw.value) for kw in call.keywords}))
                return (A(f'Y{k}'), A(f'U{k}'))
            if isinstance(fn, ast.Attribute) and fn.attr == 'inverted':
                return A('INV')
            return None

        def choose(test, ev, ft=ft):
            s_ = unparse(test)
            if 'field_type ==' in s_:
                return f"'{ft}'" in s_
            return None
        ev = Ev(sym=sym, inline=inline, choose=choose)
        try:
            ev.run(f.node.body)
        except Inconclusive as e:
            raise AnalysisError(f'chief_ray: {e}')
        if len(got) != 3:
            raise AnalysisError('chief_ray: traces not reached')
        (a0, k0), (a1, k1), (a2, k2) = got
        # normalised field coordinates refer to the maximum RADIAL field (what
        # the ray generator launches for H = 1), not the signed maximum of y
        mf = A('self.optic.fields.max_field')
        # linear rescaling: slope u1 = u0 * target / achieved
        if ft == 'angle':
            tgt = sym.sin(mf * A('pi') / C(180)) / sym.cos(mf * A('pi') / C(180))
            ok = sym.eq(a1[1] * A('U0[-1]'), a0[1] * tgt)
        else:
            # the reverse trace ends at the first surface (the object surface
            # records the arriving ray without moving it): the field height is
            # defined at the object plane, a distance t further on, where
            # t = z(object) - z(surface 1) in the reversed group
            t = None
            for st in ast.walk(f.node):
                if isinstance(st, ast.Assign) and isinstance(
                        st.targets[0], ast.Name):
                    try:
                        v = ev.env.get(st.targets[0].id)
                    except Exception:
                        v = None
                    if isinstance(v, Rat) and len(v.atoms()) == 2 and all(
                            a_.startswith('INV.positions[')
                            for a_ in v.atoms()):
                        t = v
            tt = A('T')
            want_t = None
            if t is not None:
                # t must be positions[-1] - positions[-2] of the inverted group
                names = sorted(a_ for a_ in t.atoms())
                if len(names) == 2:
                    last = [a_ for a_ in names if '[-1]' in a_]
                    prev = [a_ for a_ in names if '[-2]' in a_]
                    if last and prev and rat_eq(t, A(last[0]) - A(prev[0])):
                        want_t = t
            if want_t is None:
                ok = False
                height_msg = ('the field height is taken at the first '
                              'surface, not at the object plane')
            else:
                ok = sym.eq(a1[1] * (A('Y0[-1]') + A('U0[-1]') * want_t),
                            a0[1] * mf)
        ok = ok and rat_eq(a1[0], a0[0]) and rat_eq(a0[0], ZERO) and \
            rat_eq(a1[2], a0[2]) and k0.get('reverse') == 'True' and \
            k1.get('reverse') == 'True' and k0.get('skip') == k1.get('skip') \
            and 'stop_index' in (k0.get('skip') or '')
        if ok:
            res.ok(f'{ft} fields: second reverse trace rescaled to the '
                   f'requested object-space {what}')
        else:
            res.fail(ctx.finding(
                'CHIEF-RAY', f, f.node,
                f'{ft} fields: the chief ray is not the stop-centre ray '
                f'rescaled (by linearity) to the maximum field {what}',
                construct=f'chief ray scaling {ft}'))
        # forward launch: the reversed ray (y, u') is the forward ray (y, -u'):
        # launch must be proportional to (Y1[-1], -U1[-1])
        y_l, u_l, z_l = a2[0], a2[1], a2[2]
        crossp = y_l * (-A('U1[-1]')) - u_l * A('Y1[-1]')
        nz = not rat_eq(y_l, ZERO)
        if rat_eq(crossp, ZERO) and nz and 'reverse' not in k2 and \
                'positions[1]' in repr(z_l):
            res.ok(f'{ft} fields: forward trace launched from the first '
                   f'surface with the mirrored reverse ray')
        else:
            res.fail(ctx.finding(
                'CHIEF-RAY', f, calls[2],
                f'{ft} fields: the forward chief ray is not the reverse-traced '
                f'ray turned around at the first surface',
                construct=f'chief ray forward launch {ft}'))
    return res


def c01_media_chain(ctx):
    """shared with C01: the prescription this property reads (media on both
    sides of each surface, placement and tilt of the surface frames) is the
    one the editing API was given."""
    from .C01 import media_chain as _r
    return _r(ctx)


CONSUMERS_OF_N = ('Paraxial.magnification', 'Paraxial.invariant')


def mirror_index(ctx):
    """'mirrors treated as index sign reversal': after a reflection the ray
    travels towards -z and every n u product carries the sign of n.  The
    library reflects with u' = -u - 2y/R and keeps all indices positive, so
    formulas that multiply slopes by Optic.n() get the wrong sign (or a zero
    index difference) after an odd number of mirrors."""
    P = ctx.P
    res = Result('MIRROR-INDEX', 'quantities of the form n u (magnification, '
                 'Lagrange invariant, Seidel pre-calculations) use an index '
                 'that changes sign at every mirror')
    fn = P.func('Optic.n')
    res.saw(fn)
    signed = any(isinstance(x, ast.Attribute) and x.attr == 'is_reflective'
                 for x in ast.walk(fn.node))
    consumers = CONSUMERS_OF_N
    for q in consumers:
        f = P.func(q)
        res.saw(f)
        uses = [c for c in ast.walk(f.node) if isinstance(c, ast.Call) and
                unparse(c.func) == 'self.optic.n']
        local_sign = any(isinstance(x, ast.Attribute) and
                         x.attr == 'is_reflective' for x in ast.walk(f.node))
        if not uses:
            res.ok(f'{q}: does not use Optic.n()')
        elif signed or local_sign:
            res.ok(f'{q}: index carries the propagation direction')
        else:
            res.fail(ctx.finding(
                'MIRROR-INDEX', f, uses[0],
                f'{q} multiplies paraxial slopes by Optic.n(), which is '
                f'positive in every space: after an odd number of mirrors '
                f'the product n u has the wrong sign (magnification +0.5 '
                f'instead of -0.5 for a concave mirror, invariant changing '
                f'sign at each mirror, n\' - n = 0 at a mirror in the Seidel '
                f'terms)', construct=f'{q}: unsigned index after mirrors'))
    return res


def vertex_curvature(ctx):
    """the paraxial power of a surface comes from the vertex curvature of the
    prescribed sag.  For the even asphere z = conic(r) + sum_i C_i r^(2(i+1))
    the i = 0 term is quadratic, so the vertex curvature is 1/R + 2 C_0; the
    paraxial trace reads geometry.radius only."""
    P = ctx.P
    res = Result('VERTEX-CURVATURE', 'the curvature used by the paraxial trace '
                 'is the second derivative of the prescribed sag at the vertex '
                 '(for even aspheres 1/R + 2 c[0])')
    sg = P.func('EvenAsphere.sag')
    tp = P.func('Surface._trace_paraxial')
    res.saw(sg), res.saw(tp)
    # lowest power of r^2 among the polynomial terms
    lowest = None
    for n_ in ast.walk(sg.node):
        if isinstance(n_, ast.For) and 'enumerate(self.c)' in unparse(n_.iter):
            for b in ast.walk(n_):
                if isinstance(b, ast.BinOp) and isinstance(b.op, ast.Pow) and \
                        unparse(b.left) == 'r2':
                    e = b.right
                    if isinstance(e, ast.BinOp) and isinstance(e.op, ast.Add) \
                            and const_of(e.right) is not None:
                        lowest = int(const_of(e.right))     # exponent at i = 0
    if lowest is None:
        raise AnalysisError('EvenAsphere.sag: polynomial term not recognised')
    uses_c = any(isinstance(x, ast.Attribute) and x.attr in ('c', 'coefficients')
                 for x in ast.walk(tp.node))
    # (that the curvature used is exactly 1/R + 2 c[0] is PARAX-EQ)
    if lowest >= 2 or uses_c:
        res.ok('the asphere polynomial starts at r^4 (or the paraxial trace '
               'adds 2 c[0] to the curvature)')
    else:
        res.fail(ctx.finding(
            'VERTEX-CURVATURE', tp, tp.node,
            'EvenAsphere.sag adds c[0] r^2, which changes the vertex '
            'curvature to 1/R + 2 c[0]; Surface._trace_paraxial takes the '
            'power from geometry.radius alone, so every paraxial quantity of '
            'a lens with c[0] != 0 (bundled AsphericSinglet: f2 25.484 '
            'instead of 25.715) disagrees with the matrices of the real '
            'surface', construct='paraxial power ignores the r^2 asphere '
                                 'coefficient'))
    return res


def c13_inputs_converted(ctx):
    """shared with C13: paraxial queries accept the numeric types the
    prescription may hold"""
    from .C13 import inputs_converted as _r
    return _r(ctx)


def c01_remove_relink(ctx):
    """shared with C01: the media the paraxial trace uses are the ones of the
    prescription after a surface was removed"""
    from .C01 import remove_relink as _r
    return _r(ctx)


def parax_centred(ctx):
    """paraxial quantities are first-order properties about the optical axis:
    they depend on curvatures, indices and axial spacings only.  The frame
    changes of a surface (localize / globalize) must therefore change a
    paraxial ray's axial position only: ParaxialRays.rotate_* are no-ops, and
    ParaxialRays.translate must not move the height by the decentre (a height
    shift dy adds the prism term dy * power to the slope, which f2 = -y/u
    reads as a change of power - and which does not scale like a length)."""
    P = ctx.P
    res = Result('PARAX-CENTRED', 'frame changes move paraxial rays along the '
                 'axis only (decentres and tilts do not enter first-order '
                 'properties)')
    c = P.classes['ParaxialRays']
    for ax in 'xyz':
        m = c.methods.get('rotate_' + ax)
        if m is None or any(isinstance(st, (ast.Assign, ast.AugAssign))
                            for st in ast.walk(m.node)):
            res.fail(ctx.finding(
                'PARAX-CENTRED', m or P.func('ParaxialRays.__init__'), None,
                f'ParaxialRays.rotate_{ax} is not a no-op',
                construct=f'paraxial rotate_{ax}'))
        else:
            res.ok(f'ParaxialRays.rotate_{ax} is a no-op')
    t = P.lookup('ParaxialRays', 'translate')
    if t is None:
        raise AnalysisError('ParaxialRays.translate not found')
    res.saw(t)
    moved = sorted({unparse(st.target if isinstance(st, ast.AugAssign)
                            else st.targets[0])
                    for st in ast.walk(t.node)
                    if isinstance(st, (ast.Assign, ast.AugAssign))})
    if t.cls == 'ParaxialRays' and moved == ['self.z']:
        res.ok('ParaxialRays.translate shifts z only')
    else:
        res.fail(ctx.finding(
            'PARAX-CENTRED', t, t.node,
            f'{t.qual} moves {moved} of a paraxial ray: the decentre of a '
            f'surface is subtracted from the ray height, so a 0.1 mm decentre '
            f'of one singlet surface changes f2 from 50.847 to 53.571 (46.15 '
            f'for -0.2 mm), and with dy = 0.5 the focal length no longer '
            f'scales with the lens (36.07 / 683 / 89 for s = 1 / 3 / 100)',
            construct='paraxial rays follow surface decentres'))
    return res



def c03_registry(ctx):
    """shared with C03: FieldGroup.max_field, which scales the paraxial chief
    ray (hence the invariant and every field-dependent term), is the largest
    radial field"""
    from .C03 import registry as _r
    return _r(ctx)

RULES = [c03_registry, parax_centred, c01_remove_relink, c13_inputs_converted, vertex_curvature, mirror_index, c01_media_chain, no_stale, records, chief_ray, parax_eq, invariant_step, parax_linear, crossing, signed_return,
         fno_epd, mag_inv, inverted4, object_position]

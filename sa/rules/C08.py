"""C08 -- Seidel and first-order chromatic terms (structural clauses)."""
import ast
from ..core import Result
from ..pm import AnalysisError, unparse
from ..paths import paths, annotate, callee_names, call_attr
from ..rat import (Ev, Rat, Sym, Poly, fn_eval, rat_eq, Inconclusive, ONE,
                   ZERO, const_of)

META = {
    'explanation': (
        'LAZY-DEF-USE: every public method that reaches a reader of the '
        'precalculated attributes calls the precalculation first. LOCATION '
        '(index-space typing): arrays are classified from their data source '
        '(ray heights, curvatures: per surface; slopes, indices, dispersions: '
        'per space; derived arrays: at the offset they were stored with) and '
        'every subscript in a term "for surface k" is checked against that. '
        'SURFACE-FORMULA: with the precalculated definitions inlined, each '
        'per-surface term equals the classical surface-contribution formula '
        '(Smith, Modern Optical Engineering 6.3, cited by the module) as a '
        'rational normal form. BIDEGREE: each family is homogeneous of the '
        'right degree in (marginal, chief) ray data. STOP-INDEPENDENT: the '
        'spherical term has zero derivative w.r.t. every chief-ray atom and '
        'the invariant; Petzval depends on the chief ray only through the '
        'invariant. IDENTITIES: TCC = 3 CC, longitudinal = -transverse/u_k\', '
        'sums = -2 n_k\' u_k\' sum, accessors agree with third_order(). '
        'OPERAND-WRAP: sibling agreement of the 25 operand wrappers and the '
        'dispatch table.'),
    'declined': ['numerical stop-shift experiments',
                 'small-aperture limit against real rays',
                 'values for catalogue glasses'],
    'trusted': ['the classical surface-contribution formulas as transcribed in '
                'C08.py (library sign convention)',
                'records y[k] (height at surface k), u[k] / n[k] (slope / index '
                'after surface k)'],
}

A = Rat.atom
C = Rat.const


def _cls(P):
    if 'Aberrations' not in P.classes:
        raise AnalysisError('class Aberrations not found')
    return P.classes['Aberrations']


def _precalc(P):
    """discover the method that stores the attributes the term functions read"""
    c = _cls(P)
    terms = [m for m in c.methods.values() if m.params == ['k']]
    read = set()
    for m in terms:
        for n in ast.walk(m.node):
            if isinstance(n, ast.Attribute) and isinstance(n.value, ast.Name) \
                    and n.value.id == 'self' and isinstance(n.ctx, ast.Load):
                read.add(n.attr)
    best = None
    for m in c.methods.values():
        stored = {t.attr for n in ast.walk(m.node) if isinstance(n, ast.Assign)
                  for tt in n.targets for t in ast.walk(tt)
                  if isinstance(t, ast.Attribute) and
                  isinstance(t.value, ast.Name) and t.value.id == 'self' and
                  isinstance(t.ctx, ast.Store)}
        if stored and (best is None or len(stored & read) > len(best[1] & read)):
            best = (m, stored)
    if best is None or not (best[1] & read):
        raise AnalysisError('precalculation method not found')
    return best[0], best[1], terms, read


def lazy_def_use(ctx):
    P = ctx.P
    res = Result('LAZY-DEF-USE', 'every public method reaching a reader of the '
                 'precalculated attributes calls the precalculation first '
                 '(otherwise values of an earlier lens state are returned)')
    pre, stored, terms, read = _precalc(P)
    c = _cls(P)
    readers = {m.name for m in c.methods.values() if m is not pre and any(
        isinstance(n, ast.Attribute) and isinstance(n.value, ast.Name) and
        n.value.id == 'self' and n.attr in stored and
        isinstance(n.ctx, ast.Load) for n in ast.walk(m.node))}
    # close readers under intra-class calls
    changed = True
    while changed:
        changed = False
        for m in c.methods.values():
            if m.name in readers or m is pre:
                continue
            for n in ast.walk(m.node):
                if isinstance(n, ast.Call) and isinstance(n.func, ast.Attribute)\
                        and isinstance(n.func.value, ast.Name) and \
                        n.func.value.id == 'self' and n.func.attr in readers:
                    readers.add(m.name)
                    changed = True
                    break
    for m in c.methods.values():
        if m.name.startswith('_') or m.name not in readers:
            continue
        res.saw(m)
        bad = None
        for p in annotate(P, m, paths(m)):
            seen_pre = False
            for e in p.events:
                if e.kind == 'call' and call_attr(e) == pre.name:
                    seen_pre = True
                if e.kind == 'call' and isinstance(e.node.func, ast.Attribute) \
                        and isinstance(e.node.func.value, ast.Name) and \
                        e.node.func.value.id == 'self' and \
                        call_attr(e) in readers and not seen_pre:
                    # delegated to another public method that precalculates?
                    callee = c.methods.get(call_attr(e))
                    if callee is not None and not callee.name.startswith('_'):
                        continue
                    bad = (p, e)
                # direct reads
            if not seen_pre:
                for n in ast.walk(m.node):
                    if isinstance(n, ast.Attribute) and \
                            isinstance(n.value, ast.Name) and \
                            n.value.id == 'self' and n.attr in stored and \
                            isinstance(n.ctx, ast.Load):
                        bad = (p, None)
        if bad:
            res.fail(ctx.finding(
                'LAZY-DEF-USE', m, bad[1].node if bad[1] else m.node,
                f'{m.qual} reads precalculated ray data without calling '
                f'{pre.name}() first: after an edit of the lens it returns '
                f'values of the earlier state',
                construct=f'{m.name} without {pre.name}',
                path=bad[0].describe()))
        else:
            res.ok(f'{m.qual}: {pre.name}() precedes every use')
    res.require(12, 'public aberration methods')
    return res


# ------------------------------------------------------------------ location
def _classify(P, pre):
    """attribute -> 'surf' | 'space' | ('derived', offset) | 'scalar'"""
    kinds = {}
    for s in ast.walk(pre.node):
        if not isinstance(s, ast.Assign):
            continue
        tg = s.targets[0]
        src = unparse(s.value)
        if isinstance(tg, ast.Tuple) and isinstance(s.value, ast.Call) and \
                call_name(s.value) in ('marginal_ray', 'chief_ray'):
            for t, kind in zip(tg.elts, ('surf', 'space')):
                if isinstance(t, ast.Attribute):
                    kinds[t.attr] = kind
        elif isinstance(tg, ast.Attribute) and isinstance(tg.value, ast.Name):
            if '.n(' in src:
                kinds[tg.attr] = 'space'
            elif 'radii' in src:
                kinds[tg.attr] = 'surf'
            elif 'np.zeros' in src:
                kinds.setdefault(tg.attr, ('derived', None))
            else:
                kinds.setdefault(tg.attr, 'scalar')
        elif isinstance(tg, ast.Subscript) and isinstance(tg.value,
                                                          ast.Attribute):
            off = _lin(tg.slice)
            if off is not None and off[0] == 1:
                cur = kinds.get(tg.value.attr)
                if cur == ('derived', None) or cur is None:
                    kinds[tg.value.attr] = ('derived', off[1])
                elif isinstance(cur, tuple) and cur[1] != off[1]:
                    kinds[tg.value.attr] = ('derived', 'mixed')
    return kinds


def _lin(e, var='k'):
    if isinstance(e, ast.Name) and e.id == var:
        return (1, 0)
    c = const_of(e)
    if c is not None and c.denominator == 1:
        return (0, int(c))
    if isinstance(e, ast.BinOp) and isinstance(e.op, (ast.Add, ast.Sub)):
        a, b = _lin(e.left, var), _lin(e.right, var)
        if a and b:
            return (a[0] + b[0], a[1] + b[1]) if isinstance(e.op, ast.Add) \
                else (a[0] - b[0], a[1] - b[1])
    return None


def call_name(c):
    f = c.func
    return f.attr if isinstance(f, ast.Attribute) else (
        f.id if isinstance(f, ast.Name) else None)


def location(ctx):
    P = ctx.P
    res = Result('LOCATION', 'a term for surface k reads per-surface arrays at '
                 'k, per-space arrays at k, k-1 or -1, derived arrays at the '
                 'offset they were stored with')
    pre, stored, terms, read = _precalc(P)
    kinds = _classify(P, pre)
    funcs = list(terms) + [pre]
    try:
        fam = _families(_term_forms(P)[0])
    except AnalysisError:
        fam = {}
    n = 0
    for m in funcs:
        res.saw(m)
        loops_var = 'k'
        for s in ast.walk(m.node):
            if not (isinstance(s, ast.Subscript) and
                    isinstance(s.value, ast.Attribute) and
                    isinstance(s.value.value, ast.Name) and
                    s.value.value.id == 'self'):
                continue
            a = s.value.attr
            kind = kinds.get(a)
            if kind is None or kind == 'scalar':
                continue
            l = _lin(s.slice)
            n += 1
            if l is None:
                res.notes.append(f'{m.name}: {unparse(s)} index not linear')
                continue
            if kind == 'surf':
                ok = l == (1, 0)
                want = 'k (a per-surface quantity of surface k)'
            elif kind == 'space':
                ok = l in ((1, 0), (1, -1), (0, -1))
                want = 'k, k-1 (the spaces behind / in front of surface k) or ' \
                       '-1 (image space)'
            else:
                ok = l == (1, kind[1])
                want = (f'k{kind[1]:+d} (the offset it was stored with)'
                        if isinstance(kind[1], int) else
                        'one offset (it is stored at several / no offsets)')
            if ok:
                res.ok(f'{m.name}: {unparse(s)} [{kind if isinstance(kind, str) else "derived"}]')
            else:
                fd = ctx.finding(
                    'LOCATION', m, s,
                    f'{unparse(s)} addresses a '
                    f'{"per-surface" if kind == "surf" else "per-space" if kind == "space" else "derived"} '
                    f'array at {unparse(s.slice)}; a term for surface k must '
                    f'read it at {want}',
                    construct=f'{kind if isinstance(kind, str) else "derived"}'
                              f' array read at {unparse(s.slice)}')
                fd.function = fam.get(m.name, 'Aberrations[precalculation]'
                                      if m is pre else m.qual)
                res.fail(fd)
    res.require(40, 'subscripts')
    return res


# ------------------------------------------------------------------ formulas
def _term_forms(P):
    """evaluate the precalculation and every term function symbolically for a
    generic surface k; base atoms: ya[k] ua[k] yb[k] ub[k] n[k] radii[k] INV."""
    pre, stored, terms, read = _precalc(P)
    sym = Sym()
    ev = Ev(sym=sym)
    ev.env['k'] = A('k')
    ev.drop_singleton = True
    ev.is_array = lambda a: a not in ('INV',) and 'num_surfaces' not in a

    def inline(call, e):
        nm = call_name(call)
        if nm == 'invariant':
            return A('INV')
        if nm in ('marginal_ray', 'chief_ray'):
            return (A('ya' if nm == 'marginal_ray' else 'yb'),
                    A('ua' if nm == 'marginal_ray' else 'ub'))
        if nm == 'n' and 'optic' in unparse(call.func):
            if call.args:
                return A('n@' + unparse(call.args[0]))
            return A('n')
        if nm == 'zeros':
            return ZERO
        return None
    ev.inline = inline

    def run(stmts):
        for s in stmts:
            if isinstance(s, ast.For):
                run(s.body)
            elif isinstance(s, ast.If):
                if 'denom' in unparse(s.test) or '== 0' in unparse(s.test):
                    run(s.orelse)       # generic (non-degenerate) arm
                else:
                    raise Inconclusive('branch in precalculation')
            elif isinstance(s, ast.Expr):
                continue
            else:
                ev.stmt(s)
    try:
        run(pre.node.body)
    except Inconclusive as e:
        raise AnalysisError(f'precalculation outside fragment: {e}')
    forms = {}
    for m in terms:
        e2 = Ev(sym=sym, heap=ev.heap)
        e2.env['k'] = A('k')
        e2.drop_singleton = True
        e2.is_array = ev.is_array
        try:
            e2.run(m.node.body)
        except Inconclusive as e:
            raise AnalysisError(f'{m.qual} outside fragment: {e}')
        forms[m.name] = e2.returned
    return forms, ev, sym, pre, terms


def _families(forms):
    """term function name -> family label from its (marginal, chief) degree"""
    def deg_of(atom):
        for pref, d in (('ya[', (1, 0)), ('ua[', (1, 0)), ('yb[', (0, 1)),
                        ('ub[', (0, 1))):
            if atom.startswith(pref):
                return d
        return (1, 1) if atom == 'INV' else (0, 0)

    def pd(p):
        return {(sum(deg_of(x)[0] * e for x, e in m),
                 sum(deg_of(x)[1] * e for x, e in m)) for m in p.d}
    names = {(3, 0): 'spherical', (2, 1): 'coma', (0, 3): 'distortion',
             (1, 0): 'axial colour', (0, 1): 'lateral colour'}
    out = {}
    for nm, f in forms.items():
        lab = None
        if isinstance(f, Rat):
            a, b = pd(f.n), pd(f.d)
            if len(a) == 1 and len(b) == 1:
                (a1, b1), = a
                (a2, b2), = b
                d = (a1 - a2, b1 - b2)
                if d == (1, 2):
                    chief = [x for x in f.atoms() if x.startswith(('yb[', 'ub['))]
                    lab = 'astigmatism' if chief else 'Petzval'
                else:
                    lab = names.get(d)
        out[nm] = f'Aberrations[{lab} term]' if lab else f'Aberrations.{nm}'
    return out


def _roles(ev):
    role = {}
    for key, v in ev.heap.items():
        if not key.startswith('self.') or '[' in key or not isinstance(v, Rat):
            continue
        nm = key[5:]
        r = repr(v)
        for atom, rl in (('1*ya', 'ya'), ('1*ua', 'ua'), ('1*yb', 'yb'),
                         ('1*ub', 'ub'), ('1*n', 'n'), ('1*INV', 'inv')):
            if r == atom:
                role[rl] = nm
        if 'radii' in r:
            role['C'] = nm
        elif 'n@' in r:
            role['dn'] = nm
    need = {'ya', 'ua', 'yb', 'ub', 'n', 'inv', 'C', 'dn'}
    if need - set(role):
        raise AnalysisError(f'precalculated roles not found: '
                            f'{sorted(need - set(role))}')
    return role


def formulas_and_degrees(ctx):
    P = ctx.P
    res1 = Result('SURFACE-FORMULA', 'each per-surface term, with the '
                  'precalculated definitions inlined, equals the classical '
                  'surface-contribution formula (rational normal form)',
                  level='proof')
    res2 = Result('BIDEGREE', 'each term family is homogeneous in the '
                  '(marginal, chief) ray data with the classical aperture / '
                  'field dependence; spherical does not depend on the chief '
                  'ray or the invariant, Petzval depends on the chief ray only '
                  'through the invariant')
    forms, ev, sym, pre, terms = _term_forms(P)
    for m in terms:
        res1.saw(m)
    res1.saw(pre)
    role = _roles(ev)

    def R(rl, idx):
        return ev.ev(ast.parse(f'self.{role[rl]}[{idx}]').body[0].value)
    y, yp = R('ya', 'k'), R('yb', 'k')
    u, up = R('ua', 'k-1'), R('ub', 'k-1')
    u1, up1 = R('ua', 'k'), R('ub', 'k')
    n, n1 = R('n', 'k-1'), R('n', 'k')
    c = R('C', 'k')
    dn, dn1 = R('dn', 'k-1'), R('dn', 'k')
    nk, uk = R('n', '-1'), R('ua', '-1')
    INV = A('INV')
    i = c * y + u
    ip = c * yp + up
    hp = INV / (nk * uk)
    B = n * (n1 - n) * y * (u1 + i) / (C(2) * n1 * INV)
    Bp = n * (n1 - n) * yp * (up1 + ip) / (C(2) * n1 * INV)
    classical = {
        'spherical (TSC)': B * i * i * hp,
        'coma (CC)': B * i * ip * hp,
        'astigmatism (TAC)': B * ip * ip * hp,
        'Petzval (TPC)': (n1 - n) * c * hp * INV / (C(2) * n * n1),
        'distortion (DC)': hp * (Bp * i * ip +
                                 (up1 * up1 - up * up) / C(2)),
        'axial colour (TAchC)': -y * i / (nk * uk) * (dn - n / n1 * dn1),
        'lateral colour (TchC)': -y * ip / (nk * uk) * (dn - n / n1 * dn1),
    }
    matched = set()
    for mname, form in forms.items():
        m = [t for t in terms if t.name == mname][0]
        if not isinstance(form, Rat):
            raise AnalysisError(f'{mname}: no scalar return')
        hit = None
        for cname, cform in classical.items():
            if cname not in matched and sym.eq(form, cform):
                hit = cname
                break
        if hit:
            matched.add(hit)
            res1.ok(f'{mname} == classical {hit}')
        else:
            import hashlib
            fams = _families(forms)
            lab = fams.get(mname, m.qual)
            key = lab[lab.index('[') + 1:-6] if '[' in lab else None
            ref = [cf for cn_, cf in classical.items()
                   if key and cn_.startswith(key)]
            dig = ''
            if ref:
                dev = form.n * ref[0].d - ref[0].n * form.d
                dig = hashlib.sha1(dev.canon().encode()).hexdigest()[:8]
                # canonical label for the one-place deviation "height of the
                # previous surface": classical with y_k -> y_{k-1}
                ym = R('ya', 'k-1')
                alts = {'axial colour':
                        -ym * i / (nk * uk) * (dn - n / n1 * dn1),
                        'lateral colour':
                        -ym * ip / (nk * uk) * (dn - n / n1 * dn1)}
                if key in alts and sym.eq(form, alts[key]):
                    dig = 'marginal height taken at k-1'
            fd = ctx.finding(
                'SURFACE-FORMULA', m, m.node,
                f'{mname}(k) (with the precalculated quantities inlined) is '
                f'not any of the classical surface-contribution formulas '
                f'still unmatched: {sorted(set(classical) - matched)}',
                construct=f'deviation from the classical formula [{dig}]')
            fd.function = lab
            res1.fail(fd)
    res1.require(7, 'term functions')

    def deg_of(atom):
        for pref, d in (('ya[', (1, 0)), ('ua[', (1, 0)), ('yb[', (0, 1)),
                        ('ub[', (0, 1))):
            if atom.startswith(pref):
                return d
        if atom == 'INV':
            return (1, 1)
        return (0, 0)

    def poly_deg(p):
        return {(sum(deg_of(x)[0] * e for x, e in mono),
                 sum(deg_of(x)[1] * e for x, e in mono)) for mono in p.d}
    want = {(3, 0): 'spherical', (2, 1): 'coma', (1, 2): 'astigmatism/Petzval',
            (0, 3): 'distortion', (1, 0): 'axial colour',
            (0, 1): 'lateral colour'}
    seen = []
    for mname, form in forms.items():
        m = [t for t in terms if t.name == mname][0]
        dn_, dd_ = poly_deg(form.n), poly_deg(form.d)
        d = None
        if len(dn_) == 1 and len(dd_) == 1:
            (a1, b1), = dn_
            (a2, b2), = dd_
            d = (a1 - a2, b1 - b2)
            seen.append(d)
            if d in want:
                res2.ok(f'{mname}: bidegree {d} ({want[d]})')
            else:
                res2.fail(ctx.finding(
                    'BIDEGREE', m, m.node,
                    f'{mname} has (marginal, chief) degree {d}, which is not '
                    f'the dependence of any Seidel / colour family',
                    construct=f'{mname} bidegree'))
        else:
            res2.fail(ctx.finding(
                'BIDEGREE', m, m.node,
                f'{mname} is not homogeneous in the (marginal, chief) ray '
                f'data: numerator degrees {sorted(dn_)}',
                construct=f'{mname} bidegree'))
        chief_atoms = [a for a in form.atoms() if deg_of(a)[1] > 0]
        if d == (3, 0):
            dep = [a for a in chief_atoms if not rat_eq(form.diff(a), ZERO)]
            if not dep:
                res2.ok(f'{mname}: d/d(chief ray, invariant) == 0 '
                        f'(stop independent)')
            else:
                res2.fail(ctx.finding(
                    'BIDEGREE', m, m.node,
                    f'the spherical term depends on {dep[:3]}: it must not '
                    f'depend on where the stop is',
                    construct=f'{mname} stop independence'))
        if d == (1, 2) and not [a for a in chief_atoms if a != 'INV']:
            res2.ok(f'{mname}: chief ray enters only through the invariant '
                    f'(Petzval: stop independent)')
    for dd in want:
        if dd not in seen:
            res2.fail(ctx.finding('BIDEGREE', pre, None,
                                  f'no term function with the {want[dd]} '
                                  f'dependence {dd}',
                                  construct=f'missing family {dd}'))
    return [res1, res2]


# ------------------------------------------------------------------ identities
def identities(ctx):
    P = ctx.P
    res = Result('IDENTITIES', 'TCC = 3 CC; each longitudinal term = '
                 '-transverse / u_k\'; sums = -2 n_k\' u_k\' * sum of the '
                 'transverse terms; every accessor returns the list of its own '
                 'term function over k = 1..N-2 and third_order() agrees')
    c = _cls(P)
    pre, stored, terms, read = _precalc(P)
    kinds = _classify(P, pre)
    ua = [a for a, k in kinds.items() if k == 'space']
    tnames = {t.name for t in terms}
    # accessor <-> term mapping: accessor X loops k in range(1, N-1) appending
    # self._X_term(k)
    pairs = {}
    for m in c.methods.values():
        if m.name.startswith('_'):
            continue
        loops = [n for n in ast.walk(m.node) if isinstance(n, ast.For)]
        for lp in loops:
            rng = unparse(lp.iter).replace(' ', '')
            apps = [(unparse(x.func.value), x.args[0]) for x in ast.walk(lp)
                    if isinstance(x, ast.Call) and call_name(x) == 'append'
                    and x.args]
            for lst, arg in apps:
                if isinstance(arg, ast.Call) and call_name(arg) in tnames:
                    pairs.setdefault(m.name, []).append(
                        (lst, call_name(arg), rng, unparse(arg.args[0])))
    rng_ok = True
    for mname, lst in pairs.items():
        for (l, t, rng, karg) in lst:
            m = c.methods[mname]
            res.saw(m)
            if rng == 'range(1,self._N-1)' and karg == 'k':
                res.ok(f'{mname}: {l}.append({t}(k)) for k in 1..N-2')
            else:
                res.fail(ctx.finding(
                    'IDENTITIES', m, None,
                    f'{mname} does not collect {t}(k) over k = 1..N-2 '
                    f'(range is {rng}, argument {karg})',
                    construct=f'{mname} loop range'))
    # simple accessors: name X <-> _X_term
    for mname in ('TSC', 'CC', 'TAC', 'TPC', 'DC', 'TAchC', 'TchC'):
        m = c.methods.get(mname)
        if m is None:
            raise AnalysisError(f'accessor {mname} not found')
        got = [t for (l, t, r, k) in pairs.get(mname, [])]
        if got == [f'_{mname}_term']:
            res.ok(f'{mname}() lists _{mname}_term')
        else:
            res.fail(ctx.finding('IDENTITIES', m, m.node,
                                 f'{mname}() returns {got}, not its own term '
                                 f'function', construct=f'{mname} accessor'))
    # longitudinal = -transverse / u'_K with u'_K the marginal slope IN IMAGE
    # SPACE, i.e. the slope arriving at the image surface (record [-2]; the
    # record [-1] is the slope after the image surface refracted into its
    # own post medium - same convention as f2, F2, XPL, XPD, image_solve)
    for lname, tname in (('SC', 'TSC'), ('AC', 'TAC'), ('PC', 'TPC'),
                         ('LchC', 'TAchC')):
        m = c.methods.get(lname)
        res.saw(m)
        ok = False
        for n in ast.walk(m.node):
            if isinstance(n, ast.Call) and call_name(n) == 'append' and n.args:
                ev = Ev()
                try:
                    v = ev.ev(n.args[0])
                except Inconclusive:
                    continue
                ats = sorted(v.atoms())
                if len(ats) == 2 and any(a.startswith(tname + '[') for a in ats):
                    tr = [a for a in ats if a.startswith(tname + '[')][0]
                    un = [a for a in ats if a != tr][0]
                    if rat_eq(v, -A(tr) / A(un)) and un.endswith('[-2]') and \
                            un.startswith('self.') and tr == f'{tname}[-1]' and \
                            kinds.get(un[5:-4]) == 'space':
                        ok = True
        got = [t for (l, t, r, k) in pairs.get(lname, [])]
        if ok and got == [f'_{tname}_term']:
            res.ok(f'{lname} = -{tname} / u_k\'')
        else:
            res.fail(ctx.finding('IDENTITIES', m, m.node,
                                 f'{lname}() is not -{tname}/u_k\' built from '
                                 f'_{tname}_term',
                                 construct=f'{lname} longitudinal identity'))
    m = c.methods.get('TCC')
    res.saw(m)
    r = [n for n in ast.walk(m.node) if isinstance(n, ast.Return)]
    ok = False
    if r:
        class E2(Ev):
            def call(self, e):
                if call_name(e) == 'CC':
                    return A('CC')
                return super().call(e)
        try:
            ok = rat_eq(E2().ev(r[0].value), C(3) * A('CC'))
        except Inconclusive:
            ok = False
    if ok:
        res.ok('TCC = 3 CC')
    else:
        res.fail(ctx.finding('IDENTITIES', m, m.node, 'TCC is not 3 * CC',
                             construct='TCC = 3 CC'))
    # sums
    sm = None
    for m in c.methods.values():
        if any(isinstance(n, ast.Call) and isinstance(n.func, ast.Name) and
               n.func.id == 'sum' for n in ast.walk(m.node)) and \
                m.name.startswith('_'):
            sm = m
    if sm is None:
        raise AnalysisError('Seidel summation method not found')
    res.saw(sm)
    arr = [n for n in ast.walk(sm.node) if isinstance(n, ast.List)]
    unpack = [n for n in ast.walk(sm.node) if isinstance(n, ast.Assign) and
              isinstance(n.targets[0], ast.Tuple)]
    names = [unparse(x) for x in unpack[0].targets[0].elts] if unpack else []
    ok = bool(arr) and len(arr[-1].elts) == 5

    class E3(Ev):
        def call(self, e):
            if isinstance(e.func, ast.Name) and e.func.id == 'sum' and e.args:
                return A('SUM_' + unparse(e.args[0]))
            return super().call(e)
    if ok:
        for i, el in enumerate(arr[-1].elts):
            try:
                v = E3().ev(el)
            except Inconclusive:
                ok = False
                break
            ats = sorted(v.atoms())
            sums = [a for a in ats if a.startswith('SUM_')]
            others = [a for a in ats if not a.startswith('SUM_')]
            if len(sums) != 1 or len(others) != 2 or \
                    sums[0] != 'SUM_' + names[i] or \
                    not all(o.endswith('[-1]') for o in others) or \
                    not rat_eq(v, -C(2) * A(sums[0]) * A(others[0]) *
                               A(others[1])):
                ok = False
            else:
                kk = sorted(str(kinds.get(o[5:-4])) for o in others)
                if kk != ['space', 'space']:
                    ok = False
    callers = [(m.name, [unparse(a) for a in n.args[0].elts])
               for m in c.methods.values() for n in ast.walk(m.node)
               if isinstance(n, ast.Call) and call_name(n) == sm.name and
               n.args and isinstance(n.args[0], ast.List)]
    order_ok = all(a == names for _, a in callers) and callers
    if ok and order_ok:
        res.ok('S_i = -2 n_k\' u_k\' sum(term_i) for the five families, in '
               'the order they are passed')
    else:
        res.fail(ctx.finding('IDENTITIES', sm, sm.node,
                             'the Seidel sums are not -2 n\' u\' times the sum '
                             'of the five transverse families in order',
                             construct='Seidel sums'))
    # third_order return tuple
    to = c.methods.get('third_order')
    res.saw(to)
    r = [n for n in ast.walk(to.node) if isinstance(n, ast.Return)]
    want = ['TSC', 'SC', 'CC', 'CC * 3', 'TAC', 'AC', 'TPC', 'PC', 'DC',
            'TAchC', 'LchC', 'TchC', 'S']
    got = [unparse(x) for x in r[0].value.elts] if r and isinstance(
        r[0].value, ast.Tuple) else []
    got = ['CC * 3' if g in ('CC * 3', '3 * CC') else g for g in got]
    if got == want:
        res.ok('third_order returns the 13 families in the documented order')
    else:
        res.fail(ctx.finding('IDENTITIES', to, r[0] if r else to.node,
                             f'third_order returns {got}',
                             construct='third_order return order'))
    # third_order longitudinal lists: X.append(-T[k-1] / ua[-2])
    for n in ast.walk(to.node):
        if isinstance(n, ast.Call) and call_name(n) == 'append' and n.args and \
                isinstance(n.args[0], ast.BinOp):
            lst = unparse(n.func.value)
            tmap = {'SC': 'TSC', 'AC': 'TAC', 'PC': 'TPC', 'LchC': 'TAchC'}
            if lst in tmap:
                try:
                    v = Ev().ev(n.args[0])
                except Inconclusive:
                    continue
                ats = sorted(v.atoms())
                tr = [a for a in ats if a.startswith(tmap[lst] + '[')]
                un = [a for a in ats if a not in tr]
                if len(tr) == 1 and len(un) == 1 and tr[0] == f'{tmap[lst]}[k-1]'\
                        and rat_eq(v, -A(tr[0]) / A(un[0])) and \
                        un[0].endswith('[-2]'):
                    res.ok(f'third_order: {lst}[k-1] = -{tmap[lst]}[k-1]/u_k\'')
                else:
                    res.fail(ctx.finding(
                        'IDENTITIES', to, n,
                        f'third_order: {lst} is not -{tmap[lst]}[k-1]/u_k\''))
    # _compute_seidel_terms returns the five families from their own terms
    for m in c.methods.values():
        got = pairs.get(m.name, [])
        if m.name.startswith('_') and len(got) == 5:
            okc = all(t == f'_{l}_term' for (l, t, r_, k_) in got)
            rr = [n for n in ast.walk(m.node) if isinstance(n, ast.Return)]
            okc = okc and rr and [unparse(x) for x in rr[0].value.elts] == \
                [l for (l, t, r_, k_) in got] == ['TSC', 'CC', 'TAC', 'TPC', 'DC']
            if okc:
                res.ok(f'{m.name}: TSC, CC, TAC, TPC, DC from their own term '
                       f'functions, returned in order')
            else:
                res.fail(ctx.finding('IDENTITIES', m, m.node,
                                     f'{m.name} mixes up the term families',
                                     construct=f'{m.name} families'))
    res.require(20)
    return res


def operand_wrap(ctx):
    P = ctx.P
    res = Result('OPERAND-WRAP', 'every aberration operand X calls '
                 'optic.aberrations.X(); per-surface wrappers share one index '
                 'expression, sums are np.sum of the same accessor; the '
                 'dispatch table maps name -> same-named operand')
    if 'AberrationOperand' not in P.classes:
        raise AnalysisError('AberrationOperand not found')
    c = P.classes['AberrationOperand']
    idx_forms = {}
    for m in c.methods.values():
        res.saw(m)
        r = [n for n in ast.walk(m.node) if isinstance(n, ast.Return)]
        if len(r) != 1:
            continue
        v = r[0].value
        base = m.name[:-4] if m.name.endswith('_sum') else m.name
        calls = [x for x in ast.walk(v) if isinstance(x, ast.Call) and
                 'aberrations' in unparse(x.func)]
        if len(calls) != 1:
            res.fail(ctx.finding('OPERAND-WRAP', m, r[0],
                                 f'{m.name} does not call exactly one '
                                 f'aberration accessor',
                                 construct=f'{m.name} wrapper'))
            continue
        acc = call_name(calls[0])
        if acc != base:
            res.fail(ctx.finding('OPERAND-WRAP', m, r[0],
                                 f'operand {m.name} returns '
                                 f'aberrations.{acc}(), not {base}()',
                                 construct=f'{m.name} wrapper'))
            continue
        if m.name.endswith('_sum'):
            ok = isinstance(v, ast.Call) and call_name(v) == 'sum' and \
                v.args and v.args[0] is calls[0]
            if ok:
                res.ok(f'{m.name} = np.sum(aberrations.{acc}())')
            else:
                res.fail(ctx.finding('OPERAND-WRAP', m, r[0],
                                     f'{m.name} is not the plain sum of '
                                     f'{acc}()', construct=f'{m.name} wrapper'))
        else:
            if isinstance(v, ast.Subscript) and v.value is calls[0]:
                idx_forms.setdefault(unparse(v.slice), []).append(m)
                res.ok(f'{m.name} = aberrations.{acc}()[{unparse(v.slice)}]')
            else:
                res.fail(ctx.finding('OPERAND-WRAP', m, r[0],
                                     f'{m.name} does not index its accessor',
                                     construct=f'{m.name} wrapper'))
    per_surface = {k: v for k, v in idx_forms.items()
                   if any(x.name != 'seidels' for x in v)}
    if len(per_surface) > 1:
        major = max(per_surface.items(), key=lambda kv: len(kv[1]))
        for k, v in per_surface.items():
            if k == major[0]:
                continue
            for m in v:
                if m.name == 'seidels':
                    continue
                res.fail(ctx.finding(
                    'OPERAND-WRAP', m, None,
                    f'{m.name} indexes its accessor with [{k}] while its '
                    f'{len(major[1])} siblings use [{major[0]}]',
                    construct=f'{m.name} index vs siblings'))
    else:
        res.ok(f'all per-surface operands index with '
               f'[{next(iter(per_surface), "?")}]')
    # dispatch table
    d = None
    for rel, tree in P.modules.items():
        for n in tree.body:
            if isinstance(n, ast.Assign) and isinstance(n.value, ast.Dict) and \
                    any(isinstance(t, ast.Name) and t.id == 'METRIC_DICT'
                        for t in n.targets):
                d = (rel, n.value)
    if d is None:
        raise AnalysisError('METRIC_DICT not found')
    alias = {'seidel': 'seidels'}
    for k, v in zip(d[1].keys, d[1].values):
        if not (isinstance(k, ast.Constant) and isinstance(v, ast.Attribute)
                and isinstance(v.value, ast.Name)):
            continue
        key, cn, fn = k.value, v.value.id, v.attr
        want = alias.get(key, key)
        if cn == 'RayOperand' and key.startswith('real_'):
            want = key[5:]
        if fn == want and cn in P.classes and fn in P.classes[cn].methods:
            res.ok(f"'{key}' -> {cn}.{fn}")
        else:
            f0 = P.classes[cn].methods.get(fn) if cn in P.classes else None
            res.fail(ctx.finding(
                'OPERAND-WRAP', f0, v,
                f"operand name '{key}' is dispatched to {cn}.{fn}",
                construct=f"METRIC_DICT['{key}'] -> {cn}.{fn}")
                if f0 else ctx.finding('OPERAND-WRAP', '', None,
                                       f"'{key}' -> {cn}.{fn} does not exist",
                                       construct=f"METRIC_DICT['{key}']"))
    res.require(60)
    return res


def no_stale(ctx):
    from .common import stale_cache
    return stale_cache(ctx, 'NO-STALE-STATE', ['Aberrations'],
                       'aberration terms no longer describe the current lens')


def c01_media_chain(ctx):
    """shared with C01: the prescription this property reads (media on both
    sides of each surface, placement and tilt of the surface frames) is the
    one the editing API was given."""
    from .C01 import media_chain as _r
    return _r(ctx)


def c04_invariant(ctx):
    """shared with C04: the Lagrange invariant that scales the Seidel terms"""
    from .C04 import mag_inv as _r
    return _r(ctx)


def c04_chief_ray(ctx):
    """shared with C04: the paraxial chief ray of the maximum (radial) field"""
    from .C04 import chief_ray as _r
    return _r(ctx)

CONSUMERS_OF_N = ('Aberrations._precalculations', 'Paraxial.invariant')


def mirror_index(ctx):
    """'mirrors treated as index sign reversal': after a reflection the ray
    travels towards -z and every n u product carries the sign of n.  The
    library reflects with u' = -u - 2y/R and keeps all indices positive, so
    formulas that multiply slopes by Optic.n() get the wrong sign (or a zero
    index difference) after an odd number of mirrors."""
    P = ctx.P
    res = Result('MIRROR-INDEX', 'quantities of the form n u (magnification, '
                 'Lagrange invariant, Seidel pre-calculations) use an index '
                 'that changes sign at every mirror')
    fn = P.func('Optic.n')
    res.saw(fn)
    signed = any(isinstance(x, ast.Attribute) and x.attr == 'is_reflective'
                 for x in ast.walk(fn.node))
    consumers = CONSUMERS_OF_N
    for q in consumers:
        f = P.func(q)
        res.saw(f)
        uses = [c for c in ast.walk(f.node) if isinstance(c, ast.Call) and
                unparse(c.func) == 'self.optic.n']
        local_sign = any(isinstance(x, ast.Attribute) and
                         x.attr == 'is_reflective' for x in ast.walk(f.node))
        if not uses:
            res.ok(f'{q}: does not use Optic.n()')
        elif signed or local_sign:
            res.ok(f'{q}: index carries the propagation direction')
        else:
            res.fail(ctx.finding(
                'MIRROR-INDEX', f, uses[0],
                f'{q} multiplies paraxial slopes by Optic.n(), which is '
                f'positive in every space: after an odd number of mirrors '
                f'the product n u has the wrong sign (magnification +0.5 '
                f'instead of -0.5 for a concave mirror, invariant changing '
                f'sign at each mirror, n\' - n = 0 at a mirror in the Seidel '
                f'terms)', construct=f'{q}: unsigned index after mirrors'))
    return res


def operand_index(ctx):
    """AberrationOperand.X(optic, surface_number): the term arrays hold the
    surfaces 1 .. N-1 (slot 0 = surface 1), and surface numbers count from
    the object surface 0 everywhere else in the library, so surface k is slot
    k - 1 - the offset the sibling wrapper `seidels` applies."""
    P = ctx.P
    res = Result('OPERAND-INDEX', 'per-surface aberration operands return '
                 'the term of the surface they are asked for: slot '
                 'surface_number - 1')
    c = P.classes['AberrationOperand']
    n = 0
    bad = []
    for m in c.methods.values():
        if 'surface_number' not in [a.arg for a in m.node.args.args]:
            continue
        n += 1
        res.saw(m)
        subs = [x for x in ast.walk(m.node) if isinstance(x, ast.Subscript)]
        idx = unparse(subs[0].slice) if subs else None
        if idx in ('surface_number - 1',):
            res.ok(f'{m.name}: [{idx}]')
        else:
            bad.append((m, idx))
    if n < 12:
        raise AnalysisError('OPERAND-INDEX: per-surface operands not found')
    if bad:
        m0 = bad[0][0]
        res.fail(ctx.finding(
            'OPERAND-INDEX', m0, m0.node,
            f'{len(bad)} per-surface operands (TSC ... TchC) index the term '
            f'arrays with [{bad[0][1]}]: AberrationOperand.TSC(optic, 1) '
            f'returns the term of surface 2 and the last lens surface raises '
            f'IndexError, while seidels() uses [seidel_number - 1]',
            construct='per-surface operand index'))
    return res


def invariant_zero(ctx):
    """the spherical, coma and astigmatism contributions do not depend on the
    Lagrange invariant (B carries 1/Inv, the image height h carries Inv); a
    branch that zeroes B when the invariant is zero reports 'no spherical
    aberration' for every on-axis-only set-up"""
    P = ctx.P
    res = Result('INVARIANT-ZERO', 'the third-order spherical term is the '
                 'classical surface contribution also when the largest field '
                 '(hence the invariant) is zero')
    f = P.func('Aberrations._precalculations')
    res.saw(f)
    bad = []
    for n in ast.walk(f.node):
        if not isinstance(n, ast.If):
            continue
        exact = isinstance(n.test, ast.Compare) and len(n.test.ops) == 1 and \
            isinstance(n.test.ops[0], ast.Eq) and \
            unparse(n.test.comparators[0]) in ('0', '0.0')
        for arm in (n.body, n.orelse):
            for st in arm:
                if isinstance(st, ast.Assign) and \
                        unparse(st.targets[0]).startswith('self._B[') and \
                        unparse(st.value) in ('0', '0.0'):
                    if exact and arm is n.body:
                        bad.append(st)
                    else:
                        # any wider condition (a tolerance band, <=, isclose)
                        # zeroes the coefficient of lenses whose invariant is
                        # small but not zero: small apertures and fields are
                        # exactly where the third-order terms are accurate
                        res.fail(ctx.finding(
                            'INVARIANT-ZERO', f, n,
                            f'the coefficient B is set to 0 under the '
                            f'condition `{unparse(n.test)[:80]}`, which is '
                            f'not the exact test for a zero invariant: a '
                            f'lens with a small aperture or field (2 n Inv '
                            f'inside the band) loses TSC, SC, CC and TAC '
                            f'although its third-order terms are finite',
                            construct='B zeroed for a non-zero invariant'))
    inv_in_hp = any(isinstance(st, ast.Assign) and
                    unparse(st.targets[0]) == 'self._hp' and
                    'self._inv' in unparse(st.value)
                    for st in ast.walk(f.node))
    if bad and inv_in_hp:
        res.fail(ctx.finding(
            'INVARIANT-ZERO', f, bad[0],
            'when 2 n\' Inv == 0 the coefficient B is set to 0 instead of '
            'letting the invariant cancel against h = Inv / (n\'_K u\'_K): '
            'with an on-axis field only (AsphericSinglet sample, fields=[0]) '
            'TSC, SC and S1 are reported as exactly 0 while the real '
            'marginal-ray error is -3.4e-4',
            construct='B zeroed when the invariant is zero'))
    else:
        res.ok('no zero special case for the invariant')
    return res



def c03_registry(ctx):
    """shared with C03: FieldGroup.max_field, which scales the paraxial chief
    ray (hence the invariant and every field-dependent term), is the largest
    radial field"""
    from .C03 import registry as _r
    return _r(ctx)

RULES = [c03_registry, invariant_zero, operand_index, mirror_index, c04_chief_ray, c04_invariant, c01_media_chain, no_stale, lazy_def_use, location, formulas_and_degrees, identities,
         operand_wrap]

"""C18 -- catalogue materials return the index their data file defines."""
import ast
import csv
import os
import re
import collections
from ..core import Result
from ..pm import AnalysisError, Missing, unparse
from ..match import Code
from ..rat import (Ev, Rat, Sym, Poly, fn_eval, rat_eq, Inconclusive, ONE,
                   ZERO, const_of)

META = {
    'explanation': (
        'FORMULA-LAW: each dispersion method, with its coefficient loop '
        'unrolled, equals the refractiveindex.info formula of the number it is '
        'registered under in formula_map (rational normal forms with opaque '
        'power atoms). FORMULA-DISPATCH (code + data): every relation type '
        'occurring in the DATA block of every catalogue row is handled by the '
        'parser and, for index relations, is a key of formula_map; the type '
        'string stored is the one dispatched on. ARITY (data <-> code): the '
        'index accesses of each formula body, executed on coefficient indices '
        'only, stay inside the coefficient count of every data file of that '
        'formula. TABULATED: column / argument order of the interpolations. '
        'LOOKUP-LITERAL: catalogue names are matched literally, not as '
        'regular expressions; the best (distance 0) row is the one returned. '
        'ABBE: (n_d - 1)/(n_F - n_C) at the d, F, C lines. ELEMENTWISE: no '
        'scalar-only operation on the wavelength argument.'),
    'declined': ['numeric value of each dispersion formula',
                 'Levenshtein ranking among several inexact hits',
                 'model-glass accuracy'],
    'trusted': ['the nine refractiveindex.info dispersion formulas as '
                'transcribed in C18.py', 'numpy.interp(x, xp, fp) semantics',
                'pandas Series.str.contains(pat, regex=...) semantics',
                'line-level reading of the YAML data files (type / '
                'coefficients lines of the DATA block)'],
}

A = Rat.atom
C = Rat.const


def _scan_data(ctx):
    """relation types and coefficient counts of the DATA block of every
    catalogue row (reads the repository's data files; nothing is executed)."""
    root = os.path.join(ctx.repo, 'database')
    cat = os.path.join(root, 'catalog_nk.csv')
    if not os.path.exists(cat):
        raise AnalysisError('database/catalog_nk.csv not found')
    rows = list(csv.DictReader(open(cat, encoding='utf-8')))
    files = sorted({r['filename'] for r in rows})
    rx_t = re.compile(r'^  - type:\s*(.+?)\s*$')
    rx_c = re.compile(r'^    coefficients:\s*(.+?)\s*$')
    types = collections.Counter()
    counts = collections.defaultdict(lambda: collections.defaultdict(list))
    per_file = {}
    missing = []
    for fn in files:
        p = os.path.join(root, 'data-nk', fn)
        if not os.path.exists(p):
            missing.append(fn)
            continue
        sect = None
        cur = None
        mine = []
        with open(p, encoding='utf-8', errors='replace') as fh:
            for line in fh:
                if line and not line[0].isspace() and line.rstrip().endswith(':'):
                    sect = line.strip()[:-1]
                    cur = None
                    continue
                if sect != 'DATA':
                    continue
                m = rx_t.match(line)
                if m:
                    cur = m.group(1).strip('"\'')
                    types[cur] += 1
                    mine.append(cur)
                    continue
                m = rx_c.match(line)
                if m and cur:
                    counts[cur][len(m.group(1).split())].append(fn)
        per_file[fn] = mine
    return rows, files, types, counts, per_file, missing


def _formula_funcs(P):
    c = P.classes.get('MaterialFile')
    if c is None:
        raise AnalysisError('MaterialFile not found')
    init = c.methods['__init__']
    table = None
    for n in ast.walk(init.node):
        if isinstance(n, ast.Dict) and n.keys and all(
                isinstance(k, ast.Constant) and isinstance(k.value, str)
                for k in n.keys) and all(isinstance(v, ast.Attribute)
                                         for v in n.values):
            table = n
    if table is None:
        raise Missing('FORMULA-DISPATCH', init, 'formula table',
                      'MaterialFile.__init__ does not build the table that maps '
                      'the formula named in the data file to its evaluator')
    out = {}
    for k, v in zip(table.keys, table.values):
        f = c.methods.get(v.attr)
        out[k.value] = f
    return c, out, table


def _unrolled(P, f, ncoef, absent=()):
    """normal form of the value returned by a dispersion method with the
    coefficient list of length ncoef; atoms c0..c{n-1}, w.  A branch on
    `c[k] != 0` / `c[k] == 0` is decided as 'present' unless k is listed in
    `absent`."""
    sym = Sym()
    ev = Ev(sym=sym)
    ev.env['w'] = A('w')
    ev.lens = {'c': ncoef, 'self.coefficients': ncoef}

    class E2(Ev):
        pass

    def iters(it, e):
        if isinstance(it, ast.Call) and isinstance(it.func, ast.Name) and \
                it.func.id == 'range':
            vals = []
            for a in it.args:
                if isinstance(a, ast.Call) and isinstance(a.func, ast.Name) \
                        and a.func.id == 'len':
                    vals.append(ncoef)
                else:
                    c_ = const_of(a)
                    if c_ is None:
                        return None
                    vals.append(int(c_))
            return [C(i) for i in range(*vals)]
        if isinstance(it, (ast.Tuple, ast.List)) and all(
                const_of(x) is not None for x in it.elts):
            return [C(int(const_of(x))) for x in it.elts]
        return None
    ev.iters = iters

    def choose(test, e):
        s = unparse(test)
        if 'len(c)' in s:
            return None        # validation guard -> skipped (valid input)
        if isinstance(test, ast.Compare) and len(test.ops) == 1 and \
                isinstance(test.left, ast.Subscript) and \
                unparse(test.left.value) == 'c' and \
                const_of(test.comparators[0]) == 0 and \
                isinstance(test.ops[0], (ast.Eq, ast.NotEq)):
            try:
                kv = e.ev(test.left.slice)
            except Inconclusive:
                return None
            if not (isinstance(kv, Rat) and kv.is_const()):
                return None
            k = int(kv.n.constant() / kv.d.constant())
            present = k not in absent
            return present if isinstance(test.ops[0], ast.NotEq) \
                else not present
        return None
    ev.choose = choose

    def run(body):
        for s in body:
            if isinstance(s, ast.Try):
                if run(s.body):
                    return True
                continue
            if isinstance(s, ast.Assign) and isinstance(s.targets[0], ast.Name) \
                    and s.targets[0].id == 'c' and \
                    'coefficients' in unparse(s.value):
                ev.env['c'] = tuple(A(f'c{i}') for i in range(ncoef))
                continue
            if ev.stmt(s):
                return True
        return False
    run(f.node.body)
    return ev.returned, sym


def _law(k, n):
    """refractiveindex.info dispersion formula k for n coefficients;
    returns (kind, expression) with kind in {'n2', 'n', 'lorentz'}."""
    sym = None
    c = [A(f'c{i}') for i in range(n)]
    w = A('w')
    w2 = w * w

    def P_(sym, base, ex):
        return sym.opaque('pow', (base, ex))
    return c, w, w2


def formula_law(ctx):
    P = ctx.P
    res = Result('FORMULA-LAW', 'each dispersion method equals the '
                 'refractiveindex.info formula of the number it is registered '
                 'under', level='proof')
    cls, fmap, table = _formula_funcs(P)
    sizes = {'formula 1': 5, 'formula 2': 5, 'formula 3': 5, 'formula 4': 11,
             'formula 5': 5, 'formula 6': 5, 'formula 7': 6, 'formula 8': 4,
             'formula 9': 6}
    for key, n in sizes.items():
        f = fmap.get(key)
        if f is None:
            res.fail(ctx.finding('FORMULA-LAW', cls.methods['__init__'], table,
                                 f'{key!r} has no handler in formula_map',
                                 construct=f'formula_map {key!r}'))
            continue
        res.saw(f)
        try:
            val, sym = _unrolled(P, f, n)
        except Inconclusive as e:
            raise AnalysisError(f'{f.qual} outside fragment: {e}')
        if not isinstance(val, Rat):
            raise AnalysisError(f'{f.qual}: no value returned')
        c = [A(f'c{i}') for i in range(n)]
        w = A('w')
        w2 = w * w

        def pw(base, ex):
            return sym.opaque('pow', (base, ex))
        num = int(key.split()[1])
        if num == 1:
            law = ('n2', ONE + c[0] + c[1] * w2 / (w2 - c[2] * c[2]) +
                   c[3] * w2 / (w2 - c[4] * c[4]))
        elif num == 2:
            law = ('n2', ONE + c[0] + c[1] * w2 / (w2 - c[2]) +
                   c[3] * w2 / (w2 - c[4]))
        elif num == 3:
            law = ('n2', c[0] + c[1] * pw(w, c[2]) + c[3] * pw(w, c[4]))
        elif num == 4:
            law = ('n2', c[0] + c[1] * pw(w, c[2]) / (w2 - pw(c[3], c[4])) +
                   c[5] * pw(w, c[6]) / (w2 - pw(c[7], c[8])) +
                   c[9] * pw(w, c[10]))
        elif num == 5:
            law = ('n', c[0] + c[1] * pw(w, c[2]) + c[3] * pw(w, c[4]))
        elif num == 6:
            law = ('n', ONE + c[0] + c[1] / (c[2] - ONE / w2) +
                   c[3] / (c[4] - ONE / w2))
        elif num == 7:
            t = ONE / (w2 - Rat.const('0.028'))
            law = ('n', c[0] + c[1] * t + c[2] * t * t + c[3] * w2 +
                   c[4] * w2 * w2 + c[5] * w2 * w2 * w2)
        elif num == 8:
            law = ('lorentz', c[0] + c[1] * w2 / (w2 - c[2]) + c[3] * w2)
        else:
            law = ('n2', c[0] + c[1] / (w2 - c[2]) +
                   c[3] * (w - c[4]) / ((w - c[4]) * (w - c[4]) + c[5]))
        kind, expr = law
        ok = False
        n2 = None
        roots = [a for a in val.atoms() if a in sym.defs and
                 sym.defs[a][0] == 'sqrt']
        if kind == 'n':
            ok = sym.eq(val, expr)
        else:
            if len(roots) == 1 and sym.eq(val, A(roots[0])):
                n2 = sym.defs[roots[0]][1]
                if kind == 'n2':
                    ok = sym.eq(n2, expr)
                else:
                    ok = sym.eq((n2 - ONE) / (n2 + C(2)), expr)
        if ok and num == 4:
            # 12 catalogue files pad the absent second rational term with
            # zeros; 0 * w**0 / (w**2 - 0**0) is 0/0 at w = 1 um, inside their
            # range.  With c5 = 0 the value must not involve that term at all.
            try:
                val0, sym0 = _unrolled(P, f, n, absent=(5,))
            except Inconclusive as e:
                raise AnalysisError(f'{f.qual} outside fragment: {e}')
            roots0 = [a for a in val0.atoms() if a in sym0.defs and
                      sym0.defs[a][0] == 'sqrt'] if isinstance(val0, Rat) \
                else []
            ok0 = False
            if len(roots0) == 1:
                n20 = sym0.defs[roots0[0]][1]

                def pw0(base, ex):
                    return sym0.opaque('pow', (base, ex))
                want0 = c[0] + c[1] * pw0(w, c[2]) / (w2 - pw0(c[3], c[4])) \
                    + c[9] * pw0(w, c[10])
                ok0 = sym0.eq(n20, want0)
                if not ok0:
                    # the term is still evaluated: substitute c5 = 0 and see
                    # whether the pole factor survives in the denominator
                    pass
            if ok0:
                res.ok('formula 4 with an absent second term (c5 = 0): the '
                       'term is not evaluated, no 0/0 at w = 1 um')
            else:
                res.fail(ctx.finding(
                    'FORMULA-LAW', f, f.node,
                    'formula 4 evaluates its second rational term also when '
                    'its coefficient is 0: the zero-padded exponents give '
                    '0 * w**0 / (w**2 - 0**0), i.e. 0/0 at w = 1.0 um - NaN '
                    '/ ZeroDivisionError for the 12 catalogue entries of '
                    'that shape (YAG, LuAG, Lu2O3, ...), inside their range',
                    construct='formula 4 absent term'))
        if ok:
            res.ok(f'{key} -> {f.name}: equals refractiveindex.info formula '
                   f'{num} ({n} coefficients)')
        else:
            res.fail(ctx.finding(
                'FORMULA-LAW', f, f.node,
                f'the method registered for {key!r} ({f.name}) does not '
                f'compute refractiveindex.info dispersion formula {num}',
                construct=f'{key} law'))
    res.require(9, 'dispersion formulas')
    return res


def formula_dispatch(ctx):
    P = ctx.P
    res = Result('FORMULA-DISPATCH', 'every relation type in the catalogue '
                 'data has a parser branch and (for index relations) a '
                 'formula_map entry; n() dispatches on the stored type string; '
                 'tabulated columns land in the right tables')
    cls, fmap, table = _formula_funcs(P)
    rows, files, types, counts, per_file, missing = _scan_data(ctx)
    res.notes.append(f'{len(rows)} catalogue rows, {len(files)} data files, '
                     f'{sum(types.values())} DATA blocks')
    for fn in missing[:20]:
        res.fail(ctx.finding('FORMULA-DISPATCH', '', None,
                             f'catalogue row points to missing data file {fn}',
                             construct=f'missing {fn}'))
    pf = cls.methods['_parse_file']
    res.saw(pf)
    psrc = Code(P, pf)
    prefixes = []
    exact = []
    for n in ast.walk(pf.node):
        if isinstance(n, ast.Call) and isinstance(n.func, ast.Attribute) and \
                n.func.attr == 'startswith' and n.args and \
                isinstance(n.args[0], ast.Constant):
            prefixes.append(n.args[0].value)
        if isinstance(n, ast.Compare) and isinstance(
                n.comparators[0], ast.Constant) and \
                'sub_data_type' in unparse(n.left):
            exact.append(n.comparators[0].value)
    for t, cnt in sorted(types.items()):
        handled = any(t.startswith(p) for p in prefixes if p.startswith('formula')) \
            or t in exact
        is_n = t.startswith('formula') or t in ('tabulated n', 'tabulated nk')
        in_map = t in fmap and fmap[t] is not None
        if handled and (in_map or not is_n):
            res.ok(f'data type {t!r} ({cnt} blocks): parsed'
                   f'{", dispatched to " + fmap[t].name if in_map else ""}')
        else:
            res.fail(ctx.finding(
                'FORMULA-DISPATCH', pf, None,
                f'relation type {t!r} occurs in {cnt} DATA blocks of the '
                f'catalogue but is not '
                f'{"handled by _parse_file" if not handled else "a key of formula_map"}',
                construct=f'data type {t!r}'))
    # a file must define exactly one index relation (else _set_formula_type
    # raises / n() has no formula)
    multi = [fn for fn, ts in per_file.items()
             if sum(1 for t in ts if t.startswith('formula') or
                    t in ('tabulated n', 'tabulated nk')) > 1]
    multi_pending = multi
    # stored type is the dispatched key
    nfn = cls.methods['n']
    res.saw(nfn)
    if 'self.formula_map[self._n_formula]' in unparse(nfn.node, 999) and \
            'func(wavelength)' in unparse(nfn.node, 999):
        res.ok('n(): formula_map[self._n_formula](wavelength)')
    else:
        res.fail(ctx.finding('FORMULA-DISPATCH', nfn, nfn.node,
                             'n() does not dispatch on the stored relation '
                             'type', construct='n() dispatch'))
    sft = cls.methods['_set_formula_type']
    s2 = Code(P, sft)
    if 'self._n_formula = formula_type' in s2 and 'raise ValueError' in s2 and \
            'self._n_formula is None' in s2:
        res.ok('_set_formula_type stores the type once, raises on a second')
    else:
        res.fail(ctx.finding('FORMULA-DISPATCH', sft, sft.node,
                             'relation type is not stored exactly once',
                             construct='_set_formula_type'))
    calls = [c for c in ast.walk(pf.node) if isinstance(c, ast.Call) and
             isinstance(c.func, ast.Attribute) and
             c.func.attr == '_set_formula_type']
    if calls and all(unparse(c.args[0]) == 'sub_data_type' for c in calls):
        res.ok('the type string of the data block is the one stored')
    else:
        res.fail(ctx.finding('FORMULA-DISPATCH', pf, None,
                             'the stored relation type is not the data '
                             'block\'s type string',
                             construct='_parse_file type stored'))
    # coefficients parsed from the block's own coefficient string
    if "[float(k) for k in sub_data['coefficients'].split()]" in psrc:
        res.ok('coefficients := floats of the block\'s coefficients string')
    else:
        res.fail(ctx.finding('FORMULA-DISPATCH', pf, None,
                             'coefficients not parsed from the block',
                             construct='_parse_file coefficients'))
    # tabulated columns
    want = {
        'tabulated n': {'_n_wavelength': 'arr[:, 0]', '_n': 'arr[:, 1]'},
        'tabulated k': {'_k_wavelength': 'arr[:, 0]', '_k': 'arr[:, 1]'},
        'tabulated nk': {'_n_wavelength': 'arr[:, 0]',
                         '_k_wavelength': 'arr[:, 0]', '_n': 'arr[:, 1]',
                         '_k': 'arr[:, 2]'},
    }
    for n in ast.walk(pf.node):
        if isinstance(n, ast.If) and isinstance(n.test, ast.Compare) and \
                isinstance(n.test.comparators[0], ast.Constant) and \
                n.test.comparators[0].value in want:
            t = n.test.comparators[0].value
            got = {}
            guarded = {}
            for s in n.body:
                if isinstance(s, ast.Assign) and isinstance(s.targets[0],
                                                            ast.Attribute):
                    got[s.targets[0].attr] = unparse(s.value)
                if isinstance(s, ast.If) and not s.orelse and \
                        unparse(s.test) == 'self._n_formula is None':
                    # index columns only when no formula was registered
                    for s2 in s.body:
                        if isinstance(s2, ast.Assign) and isinstance(
                                s2.targets[0], ast.Attribute):
                            got[s2.targets[0].attr] = unparse(s2.value)
                            guarded[s2.targets[0].attr] = True
                        if '_set_formula_type' in unparse(s2):
                            guarded['#register'] = True
            k_unguarded = not any(a_.startswith('_k') for a_ in guarded)
            if got == want[t] and k_unguarded:
                res.ok(f'{t!r}: {got}')
            else:
                res.fail(ctx.finding('FORMULA-DISPATCH', pf, n,
                                     f'{t!r} fills {got}, expected {want[t]}',
                                     construct=f'columns {t!r}'))
            if t == 'tabulated nk':
                nk_after_formula_ok = bool(guarded.get('#register')) and \
                    guarded.get('_n') and guarded.get('_n_wavelength')
            sets_type = any('_set_formula_type' in unparse(s) for s in n.body)
            if (t != 'tabulated k') == sets_type:
                res.ok(f'{t!r}: index relation registered = {sets_type}')
            else:
                res.fail(ctx.finding('FORMULA-DISPATCH', pf, n,
                                     f'{t!r}: relation registration wrong',
                                     construct=f'register {t!r}'))
    # files with more than one index source: 'formula k' followed by
    # 'tabulated nk' is the refractiveindex.info way of shipping "formula for
    # n, measured k"; it loads when the nk branch takes n from the table only
    # if no formula is registered.  Any other combination is rejected by
    # _set_formula_type.
    nk_ok = locals().get('nk_after_formula_ok', False)
    for fn in multi_pending:
        ts = [t_ for t_ in per_file[fn] if t_.startswith('formula') or
              t_ in ('tabulated n', 'tabulated nk')]
        fine = len(ts) == 2 and ts[0].startswith('formula') and \
            ts[1] == 'tabulated nk' and nk_ok
        if fine:
            res.ok(f'{fn}: {ts} loads (n from the formula, k from the table)')
        else:
            res.fail(ctx.finding(
                'FORMULA-DISPATCH', pf, None,
                f'catalogue file {fn} defines {ts}: the second block '
                f'registers a second index relation and _set_formula_type '
                f'raises, so the entry cannot be loaded at all',
                construct=f'multiple relations {fn}'))
    # interpolation argument order
    for mn, xs, ys, arg in (('_tabulated_n', 'self._n_wavelength', 'self._n',
                             'w'),
                            ('k', 'self._k_wavelength', 'self._k',
                             'wavelength')):
        m = cls.methods[mn]
        res.saw(m)
        ic = [c for c in ast.walk(m.node) if isinstance(c, ast.Call) and
              isinstance(c.func, ast.Attribute) and c.func.attr == 'interp']
        if ic and [unparse(a) for a in ic[0].args] == [arg, xs, ys]:
            res.ok(f'{mn}: np.interp({arg}, {xs}, {ys})')
        else:
            res.fail(ctx.finding('FORMULA-DISPATCH', m, m.node,
                                 f'{mn} does not interpolate ({xs}, {ys}) at '
                                 f'the requested wavelength',
                                 construct=f'{mn} interp'))
    # np.interp is only the linear interpolation of the table when the sample
    # points ascend: the parsed table is sorted by wavelength (16 catalogue
    # files list rows out of order) - or the data are proven sorted, which
    # they are not
    from ..match import find
    sorted_ = find(pf, '$a = $a[np.argsort($a[:, 0], kind=$k)]') or \
        find(pf, '$a = $a[np.argsort($a[:, 0])]') or \
        find(pf, '$a = $a[$a[:, 0].argsort()]')
    if sorted_:
        res.ok('tabulated rows sorted by wavelength before they are split '
               'into columns')
    else:
        unsorted = _unsorted_tables(ctx)
        if unsorted:
            res.fail(ctx.finding(
                'FORMULA-DISPATCH', pf, pf.node,
                f'tabulated data are handed to np.interp in file order, but '
                f'{len(unsorted)} catalogue files list rows with descending '
                f'wavelengths (e.g. {unsorted[0]}): between such rows the '
                f'value returned is not the linear interpolation of the table',
                construct='tabulated data sorted for np.interp'))
        else:
            res.ok('every tabulated file of the catalogue is ascending')
    res.require(14)
    return res


def _unsorted_tables(ctx):
    """data files whose tabulated block has a descending wavelength step"""
    import os
    root = os.path.join(ctx.P.root, 'database', 'data-nk')
    out = []
    for dp, dn, fns in os.walk(root):
        for fn in sorted(fns):
            if not fn.endswith('.yml'):
                continue
            p_ = os.path.join(dp, fn)
            try:
                txt = open(p_, encoding='utf-8', errors='replace').read()
            except OSError:
                continue
            if 'tabulated' not in txt:
                continue
            block = False
            prev = None
            for line in txt.splitlines():
                st = line.strip()
                if st.startswith('- type:'):
                    block = 'tabulated' in st
                    prev = None
                    continue
                if block and st and st[0].isdigit():
                    try:
                        w = float(st.split()[0])
                    except ValueError:
                        continue
                    if prev is not None and w < prev:
                        out.append(os.path.relpath(p_, root))
                        block = False
                    prev = w
    return out


def arity(ctx):
    P = ctx.P
    res = Result('ARITY', 'index accesses of each dispersion formula, '
                 'executed on coefficient indices only, stay inside the '
                 'coefficient count of every data file using that formula')
    cls, fmap, table = _formula_funcs(P)
    rows, files, types, counts, per_file, missing = _scan_data(ctx)

    def accesses(f, n):
        """set of coefficient indices read for len(c) == n, or 'raise'."""
        idx = set()

        def ival(e, env):
            c_ = const_of(e)
            if c_ is not None and c_.denominator == 1:
                return int(c_)
            if isinstance(e, ast.Name) and e.id in env:
                return env[e.id]
            if isinstance(e, ast.BinOp):
                a, b = ival(e.left, env), ival(e.right, env)
                if a is None or b is None:
                    return None
                if isinstance(e.op, ast.Add):
                    return a + b
                if isinstance(e.op, ast.Sub):
                    return a - b
                if isinstance(e.op, ast.Mult):
                    return a * b
            if isinstance(e, ast.Call) and isinstance(e.func, ast.Name) and \
                    e.func.id == 'len':
                return n
            return None

        def scan(e, env):
            for x in ast.walk(e):
                if isinstance(x, ast.Subscript) and isinstance(x.value, ast.Name)\
                        and x.value.id == 'c':
                    v = ival(x.slice, env)
                    if v is None:
                        raise AnalysisError(f'{f.qual}: index {unparse(x)} not '
                                            f'evaluable')
                    idx.add(v)

        def run(body, env):
            for s in body:
                if isinstance(s, ast.Try):
                    r = run(s.body, env)
                    if r:
                        return r
                elif isinstance(s, ast.For):
                    it = s.iter
                    if isinstance(it, ast.Call) and isinstance(it.func, ast.Name)\
                            and it.func.id == 'range':
                        vals = [ival(a, env) for a in it.args]
                        if any(v is None for v in vals):
                            raise AnalysisError(f'{f.qual}: loop range')
                        for k in range(*vals):
                            env2 = dict(env)
                            env2[s.target.id] = k
                            run(s.body, env2)
                    elif isinstance(it, (ast.Tuple, ast.List)) and all(
                            ival(x, env) is not None for x in it.elts):
                        for x in it.elts:
                            env2 = dict(env)
                            env2[s.target.id] = ival(x, env)
                            run(s.body, env2)
                    else:
                        raise AnalysisError(f'{f.qual}: loop {unparse(it)}')
                elif isinstance(s, ast.If):
                    t = s.test
                    if isinstance(t, ast.Compare) and 'len(c)' in unparse(t.left):
                        lhs = ival(t.left, env)
                        rhs = ival(t.comparators[0], env)
                        op = t.ops[0]
                        cond = (lhs != rhs) if isinstance(op, ast.NotEq) else \
                            (lhs == rhs) if isinstance(op, ast.Eq) else \
                            (lhs < rhs) if isinstance(op, ast.Lt) else \
                            (lhs > rhs) if isinstance(op, ast.Gt) else None
                        if cond is None:
                            raise AnalysisError(f'{f.qual}: guard')
                        if cond and any(isinstance(b, ast.Raise) for b in s.body):
                            return 'raise'
                        run(s.body if cond else s.orelse, env)
                    elif isinstance(t, ast.Compare) and isinstance(
                            t.left, ast.Subscript) and \
                            unparse(t.left.value) == 'c':
                        # a branch on the value of a coefficient: the
                        # coefficient is read, the term is used when it is
                        # present in the data
                        scan(t, env)
                        run(s.body, env)
                        run(s.orelse, env)
                    else:
                        raise AnalysisError(f'{f.qual}: branch {unparse(t)}')
                elif isinstance(s, (ast.Continue, ast.Pass)):
                    continue
                elif isinstance(s, (ast.Return, ast.Assign, ast.AugAssign,
                                    ast.Expr)):
                    for fld in ('value', 'target'):
                        v = getattr(s, fld, None)
                        if isinstance(v, ast.AST):
                            scan(v, env)
                    if isinstance(s, ast.Assign):
                        for t in s.targets:
                            scan(t, env)
            return None
        r = run(f.node.body, {})
        return r or idx
    nblocks = 0
    for t, byn in sorted(counts.items()):
        f = fmap.get(t)
        if f is None:
            continue
        res.saw(f)
        for n, fns in sorted(byn.items()):
            nblocks += len(fns)
            acc = accesses(f, n)
            if acc == 'raise' or (acc and max(acc) >= n):
                res.fail(ctx.finding(
                    'ARITY', f, f.node,
                    f'{t} with {n} coefficients ({len(fns)} catalogue files, '
                    f'e.g. {fns[0]}) '
                    f'{"is rejected by the length guard" if acc == "raise" else "reads coefficient index " + str(max(acc)) + " beyond the list"}'
                    f': those entries cannot return an index',
                    construct=f'{t} with {n} coefficients'))
            else:
                unused = set(range(n)) - set(acc)
                if unused:
                    res.fail(ctx.finding(
                        'ARITY', f, f.node,
                        f'{t} with {n} coefficients ({len(fns)} files, e.g. '
                        f'{fns[0]}) never reads coefficient(s) {sorted(unused)}: '
                        f'the data file defines terms the formula drops',
                        construct=f'{t} with {n} coefficients unused'))
                else:
                    res.ok(f'{t} x {n} coefficients ({len(fns)} files): '
                           f'indices 0..{n-1} all read, none beyond')
    res.notes.append(f'{nblocks} formula blocks checked against code')
    res.require(25, '(formula, count) classes')
    return res


def lookup_literal(ctx):
    P = ctx.P
    res = Result('LOOKUP-LITERAL', 'catalogue names / references are matched '
                 'literally (regex=False) - names contain regex '
                 'metacharacters; best match first, row 0 returned; '
                 'Levenshtein recurrence')
    f = P.func('Material._find_material_matches')
    res.saw(f)
    n = 0
    for c in ast.walk(f.node):
        if isinstance(c, ast.Call) and isinstance(c.func, ast.Attribute) and \
                c.func.attr == 'contains':
            n += 1
            lit = c.args and isinstance(c.args[0], ast.Constant)
            rx = [k for k in c.keywords if k.arg == 'regex']
            if lit or (rx and isinstance(rx[0].value, ast.Constant) and
                       rx[0].value.value is False):
                res.ok(f'{unparse(c, 70)}: literal match')
            else:
                res.fail(ctx.finding(
                    'LOOKUP-LITERAL', f, c,
                    'Series.str.contains is given a catalogue name as a '
                    'regular expression: names with parentheses, +, [ ... '
                    '(e.g. "N-BK7 (SCHOTT)") do not match themselves, so an '
                    'exact-name lookup fails or returns another entry',
                    construct=f'contains({unparse(c.args[0]) if c.args else ""}) '
                              f'as regex on {unparse(c.func.value, 60)}'))
    if n < 2:
        raise AnalysisError('no str.contains filter found in '
                            '_find_material_matches')
    src = Code(P, f)
    # the primary sort key is the name distance, ascending (further keys may
    # break ties: exact reference, exact name)
    sort_ok = False
    for c_ in ast.walk(f.node):
        if isinstance(c_, ast.Call) and isinstance(c_.func, ast.Attribute) \
                and c_.func.attr == 'sort_values':
            by = [k_.value for k_ in c_.keywords if k_.arg == 'by']
            if not by:
                continue
            keys = None
            if isinstance(by[0], ast.Constant):
                keys = [by[0].value]
            elif isinstance(by[0], (ast.List, ast.Tuple)):
                keys = [getattr(e_, 'value', None) for e_ in by[0].elts]
            elif isinstance(by[0], ast.Name):
                for st_ in ast.walk(f.node):
                    if isinstance(st_, ast.Assign) and \
                            unparse(st_.targets[0]) == by[0].id and \
                            isinstance(st_.value, (ast.List, ast.Tuple)):
                        keys = [getattr(e_, 'value', None)
                                for e_ in st_.value.elts]
            desc = any(k_.arg == 'ascending' and unparse(k_.value) != 'True'
                       for k_ in c_.keywords)
            if keys and keys[0] == 'similarity_score' and not desc:
                sort_ok = True
    checks = [
        (sort_ok, 'rows sorted by ascending distance'),
        ('reset_index(drop=True)' in src, 'index reset after sorting'),
        ("min(self._levenshtein_distance(name, row['category_name'].lower()), "
         "self._levenshtein_distance(name, row['name'].lower()))" in src,
         'distance = min over category name and name, case-insensitive'),
        ('name = self.name.lower()' in src, 'query lower-cased'),
    ]
    for ok, what in checks:
        if ok:
            res.ok(what)
        else:
            res.fail(ctx.finding('LOOKUP-LITERAL', f, f.node,
                                 f'lookup ranking: {what} violated',
                                 construct='ranking: ' + what))
    g = P.func('Material._retrieve_file')
    res.saw(g)
    s2 = Code(P, g)
    if "filtered_df.loc[0, 'filename']" in s2 and \
            'filtered_df.loc[0].to_dict()' in s2:
        res.ok('row 0 (best match) supplies filename and material_data')
    else:
        res.fail(ctx.finding('LOOKUP-LITERAL', g, g.node,
                             'the best-ranked row is not the one returned',
                             construct='_retrieve_file row 0'))
    lv = P.func('Material._levenshtein_distance')
    res.saw(lv)
    s3 = Code(P, lv)
    lchecks = [
        ('distance_matrix[i][0] = i' in s3 and 'distance_matrix[0][j] = j' in s3,
         'boundary rows'),
        ('s1[i - 1] == s2[j - 1]' in s3, 'character comparison'),
        ('min(distance_matrix[i - 1][j] + 1, distance_matrix[i][j - 1] + 1, '
         'distance_matrix[i - 1][j - 1] + cost)' in s3, 'recurrence'),
        ('return distance_matrix[-1][-1]' in s3, 'result cell'),
    ]
    costs = [n for n in ast.walk(lv.node) if isinstance(n, ast.If) and
             's1[i - 1] == s2[j - 1]' in unparse(n.test)]
    okc = costs and unparse(costs[0].body[0]) == 'cost = 0' and \
        unparse(costs[0].orelse[0]) == 'cost = 1'
    lchecks.append((okc, 'cost 0 on equal characters, 1 otherwise'))
    for ok, what in lchecks:
        if ok:
            res.ok('Levenshtein: ' + what)
        else:
            res.fail(ctx.finding('LOOKUP-LITERAL', lv, lv.node,
                                 f'Levenshtein distance: {what} wrong: an '
                                 f'exact match no longer has distance 0 / '
                                 f'ranks first', construct='levenshtein ' + what))
    return res


def abbe(ctx):
    P = ctx.P
    res = Result('ABBE', 'Abbe number = (n_d - 1)/(n_F - n_C) at 0.5875618, '
                 '0.4861327, 0.6562725 um')
    f = P.func('BaseMaterial.abbe')
    res.saw(f)

    def inline(call, ev):
        if isinstance(call.func, ast.Attribute) and call.func.attr == 'n' and \
                call.args:
            c_ = const_of(call.args[0])
            return A(f'n({float(c_):.7f})') if c_ is not None else None
    from ..rat import explore

    def run(ch):
        ev = Ev(inline=inline, choose=ch)
        ev.run(f.node.body)
        return ev.returned
    try:
        outs = explore(run)
    except Inconclusive as e:
        raise AnalysisError(f'BaseMaterial.abbe: {e}')
    want = (A('n(0.5875618)') - ONE) / (A('n(0.4861327)') - A('n(0.6562725)'))
    for dec, r in outs:
        tag = f' (branch decisions {dec})' if dec else ''
        if isinstance(r, Rat) and rat_eq(r, want):
            res.ok('abbe() == (n(0.5875618) - 1)/(n(0.4861327) - '
                   'n(0.6562725))' + tag)
        else:
            res.fail(ctx.finding(
                'ABBE', f, f.node,
                f'abbe() = {r}{tag}, expected (n_d - 1)/(n_F - n_C) for '
                f'every material (a branch on the size of n_F - n_C returns '
                f'something else for weakly dispersive media)',
                construct='abbe formula'))
    return res


def elementwise(ctx):
    P = ctx.P
    res = Result('ELEMENTWISE', 'dispersion methods use elementwise numpy '
                 'operations on the wavelength argument only (scalar and array '
                 'arguments agree)')
    cls, fmap, table = _formula_funcs(P)
    fs = {f for f in fmap.values() if f is not None} | {cls.methods['k']}
    for f in sorted(fs, key=lambda x: x.name):
        res.saw(f)
        w = f.params[0]
        bad = None
        for n in ast.walk(f.node):
            if isinstance(n, ast.Call):
                nm = unparse(n.func)
                if (nm in ('float', 'int', 'bool') or nm.startswith('math.')) \
                        and any(isinstance(x, ast.Name) and x.id == w
                                for a in n.args for x in ast.walk(a)):
                    bad = n
            if isinstance(n, (ast.If, ast.IfExp, ast.While)) and any(
                    isinstance(x, ast.Name) and x.id == w
                    for x in ast.walk(n.test)):
                bad = n.test
            # w ** (negative integer literal): Python numbers and float
            # arrays give 1 / w**k, integer-typed numpy arrays and scalars
            # raise "Integers to negative integer powers are not allowed"
            if isinstance(n, ast.BinOp) and isinstance(n.op, ast.Pow) and \
                    isinstance(n.left, ast.Name) and n.left.id == w and \
                    isinstance(n.right, ast.UnaryOp) and \
                    isinstance(n.right.op, ast.USub) and \
                    isinstance(n.right.operand, ast.Constant) and \
                    isinstance(n.right.operand.value, int):
                bad = n
        if bad is None:
            res.ok(f'{f.name}: elementwise in {w}')
        else:
            res.fail(ctx.finding('ELEMENTWISE', f, bad,
                                 f'{f.name} applies a scalar-only operation to '
                                 f'the wavelength: array arguments fail or '
                                 f'differ from scalar ones'))
    res.require(10)
    return res


def no_stale(ctx):
    from .common import stale_cache
    return stale_cache(ctx, 'NO-STALE-STATE', ['MaterialFile', 'Material', 'AbbeMaterial', 'IdealMaterial'],
                       'the index returned belongs to an earlier query', min_methods=5)


def model_glass(ctx):
    """structure of the (n_d, V_d) model glass; the accuracy of the fitted
    coefficients is a numerical matter and is declined."""
    from ..match import find, find_seq
    import os
    P = ctx.P
    res = Result('MODEL-GLASS', 'AbbeMaterial: index = polyval(p, wavelength) '
                 'with p = [n, V, n^2, V^2, n^3, V^3] @ coefficients; the '
                 'coefficient file has six rows; k = 0; constructor keeps '
                 '(n, abbe) in (index, abbe)')
    gi = P.func('AbbeMaterial.__init__')
    gn = P.func('AbbeMaterial.n')
    gk = P.func('AbbeMaterial.k')
    gc = P.func('AbbeMaterial._get_coefficients')
    for f in (gi, gn, gk, gc):
        res.saw(f)
    if find(gi, 'self.index = n') and find(gi, 'self.abbe = abbe') and \
            find(gi, 'self._p = self._get_coefficients()'):
        si = Code(P, gi)
        if si.index('self._p = self._get_coefficients()') > max(
                si.index('self.index = n'), si.index('self.abbe = abbe')):
            res.ok('constructor: index, abbe stored before the coefficients '
                   'are derived from them')
        else:
            res.fail(ctx.finding('MODEL-GLASS', gi, gi.node,
                                 'coefficients derived before index / abbe '
                                 'are stored', construct='AbbeMaterial init '
                                 'order'))
    else:
        res.fail(ctx.finding('MODEL-GLASS', gi, gi.node,
                             'AbbeMaterial.__init__ does not keep (n, abbe) '
                             'and derive the polynomial from them',
                             construct='AbbeMaterial init'))
    if any(isinstance(c_, ast.Call) and unparse(c_.func) == 'np.polyval' and
           len(c_.args) == 2 and unparse(c_.args[0]) == 'self._p'
           for c_ in ast.walk(gn.node)):
        res.ok('n(w) is built from polyval(p, .) (anchoring to (n_d, V_d) is '
               'decided by C20 MODEL-ANCHOR)')
    else:
        res.fail(ctx.finding('MODEL-GLASS', gn, gn.node,
                             'n(w) is not polyval(p, w)',
                             construct='AbbeMaterial.n'))
    if find(gk, 'return 0'):
        res.ok('k(w) = 0')
    else:
        res.fail(ctx.finding('MODEL-GLASS', gk, gk.node,
                             'model glass is no longer lossless',
                             construct='AbbeMaterial.k'))
    sols = find_seq(gc, ['$X = np.array([self.index, self.abbe])',
                         '$XP = np.hstack([$X ** $i for $i in range(1, 4)])',
                         '$C = np.load($file)', 'return $XP @ $C'])
    fn = None
    for nd in ast.walk(gc.node):
        if isinstance(nd, ast.Constant) and isinstance(nd.value, str) and \
                nd.value.endswith('.npy'):
            fn = nd.value
    if sols and fn:
        path = os.path.normpath(os.path.join(
            ctx.P.root, 'optiland', 'materials', fn))
        try:
            with open(path, 'rb') as fh:
                head = fh.read(256)
            import re as _re
            m = _re.search(rb"'shape': \((\d+), (\d+)\)", head)
            shape = (int(m.group(1)), int(m.group(2))) if m else None
        except OSError:
            shape = None
        if shape and shape[0] == 6:
            res.ok(f'features [n, V, n^2, V^2, n^3, V^3] @ coefficients '
                   f'{shape}: polynomial of degree {shape[1] - 1} in the '
                   f'wavelength')
        else:
            res.fail(ctx.finding('MODEL-GLASS', gc, gc.node,
                                 f'coefficient file {fn} has shape {shape}; '
                                 f'six feature rows expected',
                                 construct='glass model file shape'))
    else:
        res.fail(ctx.finding('MODEL-GLASS', gc, gc.node,
                             'feature vector of the glass model is not '
                             '[n, V, n^2, V^2, n^3, V^3] applied to the '
                             'coefficient file',
                             construct='glass model features'))
    return res


def exact_name_first(ctx):
    """'looking a material up by a name that matches a catalogue entry exactly
    returns an entry with exactly that name': the ranking must put an entry
    whose own name is the query before entries that merely belong to a
    category of that name"""
    from ..match import find
    P = ctx.P
    res = Result('EXACT-NAME-FIRST', 'among the rows that survive the filters '
                 'a row whose own name equals the query ranks first')
    f = P.func('Material._find_material_matches')
    res.saw(f)
    mins = [c for c in ast.walk(f.node) if isinstance(c, ast.Call) and
            unparse(c.func) == 'min' and 'category_name' in unparse(c) and
            "row['name']" in unparse(c)]
    tie = [c for c in ast.walk(f.node) if isinstance(c, ast.Call) and
           isinstance(c.func, ast.Attribute) and c.func.attr == 'sort_values']
    by_two = any(isinstance(k.value, (ast.List, ast.Tuple)) and
                 len(k.value.elts) >= 2 for c in tie for k in c.keywords
                 if k.arg == 'by')
    # a further sort key breaks the tie only if it is about the entry's own
    # name (an exact-reference key does not)
    name_key = any(isinstance(st_, ast.Assign) and isinstance(
        st_.targets[0], ast.Subscript) and "'name'" in unparse(st_.value) and
        ('==' in unparse(st_.value) or '!=' in unparse(st_.value)) and
        'reference' not in unparse(st_.targets[0])
        for st_ in ast.walk(f.node))
    promoted = 'name_score' in unparse(f.node) or (by_two and name_key) or \
        name_key
    if mins and not promoted:
        res.fail(ctx.finding(
            'EXACT-NAME-FIRST', f, mins[0],
            'the similarity score is min(distance to the category name, '
            'distance to the entry name) and nothing breaks ties: a row that '
            'matches only through its category ranks with (and can be '
            'returned before) the row whose name is the query - '
            "Material('SF6') returns the sulphur hexafluoride gas, 'BAF2' "
            "the BaF2 crystal, ('SF5', 'schott') N-SF5",
            construct='category match ties with exact name'))
    else:
        res.ok('exact-name rows rank first')
    return res


# META update: declined clause 'model-glass accuracy' re-worded
META['declined'] = [
    'accuracy of the fitted model-glass coefficients (anchoring to (n_d, V_d) is decided by C20 MODEL-ANCHOR)' if _d.startswith('model-glass accuracy') else _d
    for _d in META['declined']]


def lookup_reference(ctx):
    """'Looking a material up by a name and optional vendor reference that
    matches a catalogue entry exactly returns an entry with exactly that
    name' (and reference): the reference filter is a substring test, so an
    entry whose reference merely contains the text ('Li' in 'Jellison') must
    rank after the entry whose reference is the text; and the data files are
    UTF-8 whatever the locale."""
    P = ctx.P
    res = Result('LOOKUP-REFERENCE', 'an exact reference match ranks first '
                 'among equally similar names; data files are read as UTF-8')
    f = P.func('Material._find_material_matches')
    res.saw(f)
    src = unparse(f.node, 1000000)
    # the reference filter: a str.contains test applied to the reference
    # column (directly or through a local helper called with 'reference')
    filt = 'contains(' in src and ("('reference')" in src or
                                   "['reference'].str" in src) and \
        'self.reference' in src
    exact = [st for st in ast.walk(f.node) if isinstance(st, ast.Assign) and
             'reference' in unparse(st.value) and
             'self.reference' in unparse(st.value) and
             any(isinstance(c_, ast.Compare) and isinstance(
                 c_.ops[0], (ast.Eq, ast.NotEq)) for c_ in ast.walk(st.value))]
    sorted_on = False
    # the keys handed to sort_values: a literal list / tuple, or a local list
    # (initial literal + append calls)
    keys = set()
    for c_ in ast.walk(f.node):
        if isinstance(c_, ast.Call) and isinstance(c_.func, ast.Attribute) \
                and c_.func.attr == 'sort_values':
            for k_ in c_.keywords:
                if k_.arg != 'by':
                    continue
                if isinstance(k_.value, (ast.List, ast.Tuple)):
                    keys |= {getattr(e_, 'value', None)
                             for e_ in k_.value.elts}
                elif isinstance(k_.value, ast.Constant):
                    keys.add(k_.value.value)
                elif isinstance(k_.value, ast.Name):
                    ln = k_.value.id
                    for n_ in ast.walk(f.node):
                        if isinstance(n_, ast.Assign) and \
                                unparse(n_.targets[0]) == ln and isinstance(
                                    n_.value, (ast.List, ast.Tuple)):
                            keys |= {getattr(e_, 'value', None)
                                     for e_ in n_.value.elts}
                        if isinstance(n_, ast.Call) and isinstance(
                                n_.func, ast.Attribute) and \
                                n_.func.attr == 'append' and \
                                unparse(n_.func.value) == ln and n_.args \
                                and isinstance(n_.args[0], ast.Constant):
                            keys.add(n_.args[0].value)
    for st in exact:
        t = st.targets[0]
        key = t.slice.value if isinstance(t, ast.Subscript) and isinstance(
            t.slice, ast.Constant) else None
        if key and key in keys:
            sorted_on = True
    if not filt or (exact and sorted_on):
        res.ok('exact reference matches are ranked before substring matches')
    else:
        res.fail(ctx.finding(
            'LOOKUP-REFERENCE', f, f.node,
            "the reference is only a substring filter and plays no part in "
            "the ranking: Material('NaI', 'Li') returns the Jellison entry "
            "(n off by +0.078 .. +0.174 against the Li formula), "
            "Material('CaF2', 'Li') the Malitson one",
            construct='reference substring outranks exact reference'))
    rf = P.func('MaterialFile._read_file')
    res.saw(rf)
    opens = [c_ for c_ in ast.walk(rf.node) if isinstance(c_, ast.Call) and
             unparse(c_.func) == 'open']
    if not opens:
        raise AnalysisError('MaterialFile._read_file: open() not found')
    if all(any(k_.arg == 'encoding' and isinstance(k_.value, ast.Constant) and
               str(k_.value.value).lower().replace('-', '') == 'utf8'
               for k_ in c_.keywords) for c_ in opens):
        res.ok('data files opened with encoding utf-8')
    else:
        res.fail(ctx.finding(
            'LOOKUP-REFERENCE', rf, opens[0],
            'the UTF-8 data files are opened with the locale encoding: under '
            'an ASCII / C locale 2228 of the 2519 files (every Schott glass) '
            'raise UnicodeDecodeError, under cp1252 beta-BBO, YAG, LuAG, '
            'Sc2O3', construct='data file opened without encoding'))
    return res


RULES = [lookup_reference, exact_name_first, no_stale, model_glass, formula_law, formula_dispatch, arity, lookup_literal, abbe,
         elementwise]

"""C16 -- ray intensity is never created and is removed exactly as specified."""
import ast
from ..core import Result
from ..pm import AnalysisError, unparse
from ..paths import paths, annotate, callee_names, call_attr, ipaths
from ..rat import Ev, Rat, Sym, fn_eval, rat_eq, Inconclusive, ONE, ZERO, const_of
from ..effects import _is_fresh_expr

META = {
    'explanation': (
        'WMW-INTENSITY: the only functions storing to a ray\'s intensity are '
        'the constructors, propagate, clip, the simple coating and the '
        'polarized intensity update (typed stores over the whole program). '
        'WRITE-SHAPE: every non-constructor store is multiplicative in the old '
        'value or sets masked entries to zero. BEER-LAMBERT: the argument of '
        'exp in propagate is -4*pi*k*t*(um per mm)/lambda in normal form, with '
        'the medium passed being the one in front of the surface. LOST-WRITE: '
        'no store through a property that returns a fresh object. APERTURE: '
        'clip between localize and globalize; outside = r2 > r_max^2 or r2 < '
        'r_min^2 with r2 = x^2+y^2. COATING-PAIR: reflect uses reflectance, '
        'transmit uses transmittance, selected by the surface\'s mirror flag.'),
    'declined': ['numeric value of the attenuation',
                 'factor range [0,1]: follows from the declared input ranges '
                 'k >= 0, 0 <= T,R <= 1, t >= 0 (not re-derived)'],
    'trusted': ['declared ranges k >= 0, 0 <= T,R <= 1, lambda > 0, t >= 0',
                'numpy elementwise semantics of *=, exp, boolean mask store'],
}

RAYS = ('BaseRays', 'RealRays', 'PolarizedRays', 'ParaxialRays')


def _i_stores(ctx):
    P, eff = ctx.P, ctx.effects
    out = []
    for fe in eff.fe.values():
        for st in fe.stores:
            if st.attr == 'i' and isinstance(st.base_t, str) and \
                    st.base_t in RAYS:
                out.append(st)
    return out


ALLOWED = {
    'RealRays.__init__': 'constructor',
    'ParaxialRays.__init__': 'constructor',
    'PolarizedRays.__init__': 'constructor',
    'RealRays.propagate': 'Beer-Lambert attenuation',
    'RealRays.clip': 'aperture clipping',
    'SimpleCoating.reflect': 'coating reflectance',
    'SimpleCoating.transmit': 'coating transmittance',
    'PolarizedRays.update_intensity': 'intensity from the polarization matrix',
}


def wmw_intensity(ctx):
    res = Result('WMW-INTENSITY', 'only the documented mechanisms store to a '
                 'ray\'s intensity')
    for st in _i_stores(ctx):
        res.saw(st.func)
        if st.func.qual in ALLOWED:
            res.ok(f'{st.func.qual}: {unparse(st.stmt)} '
                   f'({ALLOWED[st.func.qual]})')
        else:
            res.fail(ctx.finding(
                'WMW-INTENSITY', st.func, st.stmt,
                'ray intensity is changed by something other than aperture '
                'clipping, absorption or a coating'))
    res.require(6, 'stores to rays.i')
    return res


def write_shape(ctx):
    P = ctx.P
    res = Result('WRITE-SHAPE', 'every non-constructor store to the intensity '
                 'is i *= f, i = i*f, i[mask] = 0 or i = where(mask, 0, i): '
                 'zero stays zero and '
                 'nothing is created')
    for st in _i_stores(ctx):
        f = st.func
        if f.name == '__init__':
            continue
        res.saw(f)
        s = st.stmt
        ok = False
        why = ''
        if isinstance(s, ast.AugAssign) and isinstance(s.op, ast.Mult) and \
                not st.subscript:
            ok = True
        elif isinstance(s, ast.Assign) and st.subscript:
            c = const_of(s.value)
            ok = c is not None and c == 0
            why = 'masked store of a non-zero value'
        elif isinstance(s, ast.Assign) and isinstance(s.value, ast.Call) \
                and unparse(s.value.func) == 'np.where' and \
                len(s.value.args) == 3 and const_of(s.value.args[1]) == 0 \
                and unparse(s.value.args[2]) == unparse(st.target):
            # i = where(mask, 0, i): elementwise either zero or unchanged
            ok = True
        elif isinstance(s, ast.Assign) and isinstance(s.value, ast.Call) \
                and unparse(s.value.func) == 'np.where' and \
                len(s.value.args) == 3 and (
                    const_of(s.value.args[1]) == 0 or
                    const_of(s.value.args[2]) == 0):
            # i = where(mask, 0, i * f): elementwise zero or a multiple of
            # the old value
            other = s.value.args[2] if const_of(s.value.args[1]) == 0 \
                else s.value.args[1]
            try:
                ev = Ev()
                key = ev.key(st.target)
                v = ev.ev(other)
                ok = bool(v.n.d) and all(dict(k).get(key, 0) >= 1
                                         for k in v.n.d) and \
                    key not in v.d.atoms()
            except Inconclusive:
                ok = False
            why = 'the non-zero arm of the masked store is not a multiple ' \
                  'of the old intensity'
        elif isinstance(s, ast.Assign):
            # i = i * f : the old value must divide the new one
            try:
                ev = Ev()
                key = ev.key(st.target)
                v = ev.ev(s.value)
                old = key
                ok = bool(v.n.d) and all(dict(k).get(old, 0) >= 1
                                         for k in v.n.d) and \
                    old not in v.d.atoms()
            except Inconclusive:
                ok = False
            why = 'the new intensity is not a multiple of the old one ' \
                  '(attenuation by apertures / absorption before this point ' \
                  'is discarded; a clipped ray regains intensity)'
        else:
            why = f'store of kind {type(s).__name__}'
        if ok:
            res.ok(f'{f.qual}: {unparse(s)}')
        else:
            res.fail(ctx.finding(
                'WRITE-SHAPE', f, s, why or 'non-multiplicative store',
                construct='non-multiplicative store to the ray intensity'))
    res.require(4)
    return res


def beer_lambert(ctx):
    P = ctx.P
    res = Result('BEER-LAMBERT', 'propagate multiplies the intensity by '
                 'exp(-4*pi*k(w)*t*1e3/w); the medium is the one the segment '
                 'lies in (material_pre); positions advance by t*direction')
    f = P.func('RealRays.propagate')
    res.saw(f)
    sym = Sym()

    def inline(call, ev):
        fn = call.func
        if isinstance(fn, ast.Attribute) and fn.attr == 'k' and \
                isinstance(fn.value, ast.Name) and fn.value.id == 'material':
            return Rat.atom('K')
    def choose_lit(t, e):
        # a transmitting ray that reaches the surface: the mask of blocked /
        # lost rays is False for it
        u = unparse(t)
        if 'material' in u:
            return True
        v = e.env.get(u) if isinstance(t, ast.Name) else None
        if (isinstance(v, Rat) and any(a.startswith('mask:')
                                       for a in v.atoms())) or \
                'self.i == 0' in u or 'isfinite' in u:
            return False
        return None
    ev = fn_eval(P, f, sym=sym, inline=inline, choose=choose_lit)
    exps = [(a, x[0]) for a, (k, x) in sym.defs.items() if k == 'exp']
    args = [x for a, x in exps]
    want = -Rat.const(4) * Rat.atom('pi') * Rat.atom('K') * Rat.atom('t') * \
        Rat.const(1000) / Rat.atom('self.w')
    if len(args) == 1 and rat_eq(args[0], want):
        res.ok('exp argument == -4*pi*k*t*1000/w')
    else:
        res.fail(ctx.finding(
            'BEER-LAMBERT', f, f.node,
            f'attenuation exponent is {args[0] if args else None}, expected '
            f'-4*pi*k*t*1000/w (k = extinction coefficient at the ray '
            f'wavelength, t in mm, w in um)',
            construct='propagate: exponent of the absorption factor'))
    inew = ev.heap.get('self.i')
    if inew is not None and len(exps) == 1 and rat_eq(
            inew, Rat.atom('self.i') * Rat.atom(exps[0][0])):
        res.ok('i_new == i_old * exp(...)')
    else:
        res.fail(ctx.finding('BEER-LAMBERT', f, f.node,
                             f'intensity after propagate is {inew}',
                             construct='propagate: intensity update'))
    # blocked rays stay blocked: 0 * exp(-alpha * t) is nan when t is not
    # finite (the ray misses the surface), so the zero has to be restored
    # explicitly for rays that were dark before the step or do not arrive
    from ..match import find, find_seq
    keeps = find_seq(f, ['$m = (self.i == 0) | ~np.isfinite(t)',
                         'self.i = np.where($m, 0.0, self.i)']) or \
        find_seq(f, ['$m = self.i == 0', 'self.i[$m] = 0']) or \
        find_seq(f, ['$m = (self.i == 0) | ~np.isfinite(t)',
                     'self.i[$m] = 0']) or \
        find(f, 'self.i = np.where(self.i == 0, 0.0, $x)') or \
        find(f, 'self.i = np.where((self.i == 0) | ~np.isfinite(t), 0.0, $x)')
    if keeps:
        res.ok('rays with zero intensity (or that do not reach the surface) '
               'are kept at zero, not 0 * nan')
    else:
        res.fail(ctx.finding(
            'BEER-LAMBERT', f, f.node,
            'propagate multiplies the intensity of every ray by '
            'exp(-alpha t): for a blocked ray (i = 0) that misses the next '
            'surface t is nan and 0 * nan = nan, so the ray is no longer '
            'dark (analyses count it as transmitted)',
            construct='propagate: dark rays stay dark'))
    # position update x += t L etc.
    for c, d in (('x', 'L'), ('y', 'M'), ('z', 'N')):
        v = ev.heap.get('self.' + c)
        w = Rat.atom('self.' + c) + Rat.atom('t') * Rat.atom('self.' + d)
        if v is not None and rat_eq(v, w):
            res.ok(f'{c}_new == {c} + t*{d}')
        else:
            res.fail(ctx.finding('BEER-LAMBERT', f, f.node,
                                 f'position {c} after propagate is {v}, '
                                 f'expected {c} + t*{d}',
                                 construct=f'propagate: {c} update'))
    # k evaluated at the ray wavelength
    kc = [n for n in ast.walk(f.node) if isinstance(n, ast.Call) and
          isinstance(n.func, ast.Attribute) and n.func.attr == 'k']
    if kc and all(unparse(c.args[0]) == 'self.w' for c in kc if c.args):
        res.ok('k evaluated at self.w')
    else:
        res.fail(ctx.finding('BEER-LAMBERT', f, f.node,
                             'extinction coefficient not evaluated at the ray '
                             'wavelength', construct='propagate: k(w)'))
    # call sites: material passed is material_pre, distance is geometry.distance
    n = 0
    for g in P.all_funcs():
        if g.cls is None or 'Surface' not in P.mro(g.cls):
            continue
        env = P.local_env(g)
        for c in ast.walk(g.node):
            if isinstance(c, ast.Call) and isinstance(c.func, ast.Attribute) \
                    and c.func.attr == 'propagate' and len(c.args) + \
                    len(c.keywords) >= 2:
                n += 1
                m = c.args[1] if len(c.args) > 1 else c.keywords[0].value
                if unparse(m) == 'self.material_pre':
                    res.ok(f'{g.qual}: propagate(t, self.material_pre)')
                else:
                    res.fail(ctx.finding(
                        'BEER-LAMBERT', g, c,
                        'the absorbing medium passed to propagate is not the '
                        'medium in front of the surface'))
    if n < 1:
        raise AnalysisError('no call propagate(t, material) in a Surface')
    return res


def lost_write(ctx):
    P = ctx.P
    res = Result('LOST-WRITE', 'no store through a property whose getter '
                 'returns a freshly built object (such a write has no effect); '
                 'the image record receives a copy of the final intensity')
    n = 0
    for f in P.all_funcs():
        env = None
        for s in ast.walk(f.node):
            tg = []
            if isinstance(s, ast.Assign):
                tg = s.targets
            elif isinstance(s, ast.AugAssign):
                tg = [s.target]
            for t in tg:
                if not isinstance(t, ast.Subscript):
                    continue
                b = t.value
                while isinstance(b, ast.Subscript):
                    b = b.value
                if not isinstance(b, ast.Attribute):
                    continue
                if env is None:
                    env = P.local_env(f)
                bt = P.expr_t(b.value, env, f.cls)
                if not isinstance(bt, str):
                    continue
                prop = None
                for c in P.mro(bt):
                    if b.attr in P.classes[c].props:
                        prop = P.classes[c].props[b.attr]
                        break
                if prop is None:
                    continue
                n += 1
                penv = P.local_env(prop)
                rets = [r for r in ast.walk(prop.node)
                        if isinstance(r, ast.Return) and r.value is not None]
                fresh = rets and all(_is_fresh_expr(r.value, set(), P, penv,
                                                    prop.cls) for r in rets)
                if fresh:
                    res.fail(ctx.finding(
                        'LOST-WRITE', f, s,
                        f'store through property {prop.qual}, which returns a '
                        f'new object on every access: the write is lost'))
                else:
                    res.ok(f'{f.qual}: store through {prop.qual} (a view of '
                           f'stored state)')
    # positive obligations: after the trace, the image record is set from rays.i
    for q in ('Optic.trace', 'Optic.trace_generic'):
        f = P.func(q)
        res.saw(f)
        ok = False
        for p in annotate(P, f, paths(f)):
            if p.exit == 'raise':
                continue
            tr = [i for i, e in enumerate(p.events) if e.kind == 'call' and
                  'SurfaceGroup.trace' in callee_names(e)]
            st = [i for i, e in enumerate(p.events) if e.kind == 'store' and
                  isinstance(e.node, ast.Attribute) and
                  e.node.attr == 'intensity' and 'rays.i' in unparse(e.extra)]
            upd = [i for i, e in enumerate(p.events) if e.kind == 'call' and
                   call_attr(e) == 'update_intensity']
            if tr and st and st[-1] > tr[-1] and (not upd or st[-1] > upd[-1]):
                ok = True
            else:
                ok = False
                break
        if ok:
            res.ok(f'{q}: image-surface intensity := copy of rays.i after the '
                   f'trace (and after the polarized intensity update)')
        else:
            res.fail(ctx.finding(
                'LOST-WRITE', f, f.node,
                'the per-surface intensity record of the image surface is not '
                'set from the final rays.i',
                construct='image record intensity := rays.i'))
    res.require(2)
    return res


def aperture(ctx):
    P = ctx.P
    res = Result('APERTURE', 'the aperture test runs in the surface frame '
                 '(between localize and globalize, after propagation) and '
                 'clips exactly r2 > r_max^2 or r2 < r_min^2; clip zeroes')
    f = P.func('Surface._trace_real')
    res.saw(f)
    bad = None
    n = 0
    for p in annotate(P, f, paths(f)):
        idx = {k: [i for i, e in enumerate(p.events) if e.kind == 'call' and
                   call_attr(e) == k] for k in
               ('localize', 'globalize', 'clip', 'propagate', '_interact')}
        if not idx['clip']:
            continue
        n += 1
        c = idx['clip'][0]
        if not (idx['localize'] and idx['globalize'] and idx['propagate'] and
                idx['localize'][0] < idx['propagate'][0] < c <
                idx['globalize'][0]):
            bad = p
        if idx['_interact'] and not c < idx['_interact'][0]:
            bad = p
    if n == 0:
        res.fail(ctx.finding('APERTURE', f, f.node,
                             'the physical aperture is never applied during '
                             'the real-ray trace',
                             construct='no aperture.clip in _trace_real'))
    elif bad:
        res.fail(ctx.finding('APERTURE', f, f.node,
                             'aperture.clip is not evaluated in the surface '
                             'frame at the intersection point (order localize '
                             '< propagate < clip < globalize violated)',
                             construct='clip order', path=bad.describe()))
    else:
        res.ok('_trace_real: localize < propagate < clip < interact < '
               'globalize')
    # guard: clip applied whenever an aperture exists
    g = P.func('RadialAperture.clip')
    res.saw(g)
    sym = Sym()
    conds = []

    class E2(Ev):
        pass
    ev = E2(sym=sym)
    ev.env['rays'] = 'rays'
    cond_node = None
    for s in g.node.body:
        if isinstance(s, ast.Assign) and isinstance(s.targets[0], ast.Name):
            if isinstance(s.value, (ast.BinOp,)) and isinstance(
                    s.value.op, (ast.BitOr, ast.BitAnd)):
                cond_node = s.value
                cname = s.targets[0].id
            else:
                try:
                    ev.stmt(s)
                except Inconclusive:
                    pass
    if cond_node is None:
        raise AnalysisError('RadialAperture.clip: condition not recognised')
    r2 = Rat.atom('rays.x') ** 2 + Rat.atom('rays.y') ** 2
    okc = isinstance(cond_node.op, ast.BitOr)
    sides = [cond_node.left, cond_node.right]
    seen = set()
    for c in sides:
        if not (isinstance(c, ast.Compare) and len(c.ops) == 1):
            okc = False
            continue
        l, r = ev.ev(c.left), ev.ev(c.comparators[0])
        op = type(c.ops[0])
        rmax2 = Rat.atom('self.r_max') ** 2
        rmin2 = Rat.atom('self.r_min') ** 2
        if rat_eq(l, r2) and rat_eq(r, rmax2) and op is ast.Gt or \
                rat_eq(r, r2) and rat_eq(l, rmax2) and op is ast.Lt:
            seen.add('max')
        elif rat_eq(l, r2) and rat_eq(r, rmin2) and op is ast.Lt or \
                rat_eq(r, r2) and rat_eq(l, rmin2) and op is ast.Gt:
            seen.add('min')
        else:
            okc = False
    if okc and seen == {'max', 'min'}:
        res.ok('clip condition: (x^2+y^2 > r_max^2) | (x^2+y^2 < r_min^2)')
    else:
        res.fail(ctx.finding('APERTURE', g, cond_node,
                             'the clipped region is not {r2 > r_max^2} union '
                             '{r2 < r_min^2} with r2 = x^2 + y^2',
                             construct='RadialAperture.clip condition'))
    passes = [c for c in ast.walk(g.node) if isinstance(c, ast.Call) and
              isinstance(c.func, ast.Attribute) and c.func.attr == 'clip' and
              c.args and isinstance(c.args[0], ast.Name) and
              c.args[0].id == cname]
    if passes:
        res.ok('condition passed to rays.clip')
    else:
        res.fail(ctx.finding('APERTURE', g, g.node,
                             'the computed condition is not passed to '
                             'rays.clip', construct='clip call'))
    return res


def coating_pair(ctx):
    P = ctx.P
    res = Result('COATING-PAIR', 'reflect multiplies by reflectance, transmit '
                 'by transmittance; interact selects by the reflect flag, which '
                 'the surface sets from its mirror flag')
    for m, attr in (('reflect', 'reflectance'), ('transmit', 'transmittance')):
        f = P.func('SimpleCoating.' + m)
        res.saw(f)
        ev = fn_eval(P, f)
        v = ev.heap.get('rays.i')
        if v is not None and rat_eq(v, Rat.atom('rays.i') *
                                    Rat.atom('self.' + attr)):
            res.ok(f'SimpleCoating.{m}: i *= {attr}')
        else:
            res.fail(ctx.finding('COATING-PAIR', f, f.node,
                                 f'SimpleCoating.{m} does not multiply the '
                                 f'intensity by the {attr} (got {v})',
                                 construct=f'SimpleCoating.{m} factor'))
    f = P.func('BaseCoating.interact')
    res.saw(f)
    ok = False
    for n in ast.walk(f.node):
        if isinstance(n, ast.If) and unparse(n.test) == 'reflect':
            b = ' '.join(unparse(s) for s in n.body)
            o = ' '.join(unparse(s) for s in n.orelse)
            ok = '.reflect(' in b and '.transmit(' in o
    if ok:
        res.ok('interact: reflect -> self.reflect, else self.transmit')
    else:
        res.fail(ctx.finding('COATING-PAIR', f, f.node,
                             'interact does not dispatch reflect/transmit by '
                             'the reflect flag', construct='interact dispatch'))
    g = P.func('Surface._interact')
    res.saw(g)
    calls = [c for c in ast.walk(g.node) if isinstance(c, ast.Call) and
             isinstance(c.func, ast.Attribute) and c.func.attr == 'interact']
    okc = calls and all(any(k.arg == 'reflect' and
                            unparse(k.value) == 'self.is_reflective'
                            for k in c.keywords) or
                        (len(c.args) > 1 and
                         unparse(c.args[1]) == 'self.is_reflective')
                        for c in calls)
    if okc:
        res.ok('_interact: coating.interact(reflect=self.is_reflective)')
    else:
        res.fail(ctx.finding('COATING-PAIR', g, g.node,
                             'the coating is not told whether the surface '
                             'reflects', construct='_interact reflect flag'))
    # clip sets zero
    c = P.func('RealRays.clip')
    ok0 = any(isinstance(s, ast.Assign) and const_of(s.value) == 0 and
              isinstance(s.targets[0], ast.Subscript) and
              unparse(s.targets[0].value) == 'self.i' for s in c.node.body)
    if ok0:
        res.ok('RealRays.clip: self.i[condition] = 0')
    else:
        res.fail(ctx.finding('COATING-PAIR', c, c.node,
                             'clip does not zero the clipped rays',
                             construct='clip zero'))
    return res


def record_intensity(ctx):
    P = ctx.P
    res = Result('RECORD-INTENSITY', 'the per-surface intensity record is a '
                 'copy of rays.i')
    r = P.func('Surface._record')
    res.saw(r)
    ok = False
    for n in ast.walk(r.node):
        if isinstance(n, ast.Assign) and isinstance(n.targets[0], ast.Attribute)\
                and n.targets[0].attr == 'intensity':
            src = unparse(n.value)
            ok = 'rays.i' in src and 'copy' in src
    if ok:
        res.ok('_record: self.intensity = copy(rays.i)')
    else:
        res.fail(ctx.finding('RECORD-INTENSITY', r, r.node,
                             'surface intensity record is not a copy of the '
                             'ray intensity', construct='_record intensity'))
    return res


def no_stale(ctx):
    from .common import stale_cache
    return stale_cache(ctx, 'NO-STALE-STATE', ['SimpleCoating', 'IdealMaterial', 'Mirror'],
                       'the attenuation refers to an earlier call', min_methods=3)


def c12_arg_names(ctx):
    """shared with C12: arguments spelled like a parameter (x, self.x,
    data['x']) are bound to that parameter - constructor calls in from_dict
    included"""
    from .C12 import arg_names_rule as _r
    return _r(ctx)

def derived_sync_rule(ctx):
    from .common import derived_sync
    return derived_sync(ctx, 'DERIVED-SYNC')

def c17_coating_media(ctx):
    from .C17 import coating_media as _r
    return _r(ctx)

def index_edit(ctx):
    """an index variable / perturbation reads n(wavelength) of the medium and
    writes it back through Optic.set_index.  If set_index installs a new
    wavelength-independent, lossless IdealMaterial, reading and writing back
    the SAME value already changes the lens (dispersion and absorption are
    gone), and reset / undo cannot bring the glass back."""
    from ..match import find
    P = ctx.P
    res = Result('INDEX-EDIT', 'writing back the index that was read leaves '
                 'the medium as it was (dispersion, absorption): index '
                 'variables are faithful handles, reset and undo restore the '
                 'glass')
    si = P.func('Optic.set_index')
    uv = P.func('IndexVariable.update_value')
    gv = P.func('IndexVariable.get_value')
    for f in (si, uv, gv):
        res.saw(f)
    through = any(isinstance(c, ast.Call) and isinstance(c.func, ast.Attribute)
                  and c.func.attr == 'set_index' for c in ast.walk(uv.node))
    ideal = [c for c in ast.walk(si.node) if isinstance(c, ast.Call) and
             unparse(c.func) == 'IdealMaterial']
    keeps = any(isinstance(x, ast.Attribute) and x.attr in ('material_post',
                                                            'material_pre')
                and isinstance(x.ctx, ast.Load) for c in ideal
                for x in ast.walk(c))
    if through and ideal and not keeps:
        res.fail(ctx.finding(
            'INDEX-EDIT', si, ideal[0],
            'Optic.set_index replaces the medium by IdealMaterial(n=value, '
            'k=0) built from the number alone; IndexVariable.update_value '
            '(optimiser start point, undo, perturbation reset) goes through '
            'it, so a catalogue glass loses its dispersion and absorption at '
            'the first evaluation and is never restored',
            construct='index edit replaces the medium'))
    else:
        res.ok('index edits keep the dispersion and absorption of the medium')
    return res


def c02_lossless_without_k(ctx):
    """shared with C02: Beer-Lambert attenuation with k = 0 for media that
    have no extinction data (the trace does not abort)"""
    from .C02 import lossless_without_k as _r
    return _r(ctx)


def c17_pol_entries(ctx):
    """shared with C17: intensities reported for polarized rays (both trace
    entries; dark rays stay dark)"""
    from .C17 import pol_entries as _r
    return _r(ctx)


def c07_aperture_scaled_once(ctx):
    """shared with C07: a ray landing outside the (scaled) physical aperture
    has zero intensity - the aperture must be the prescribed one"""
    from .C07 import aperture_scaled_once as _r
    return _r(ctx)


def c17_fresnel_power(ctx):
    """shared with C17: 'never increases' - a passive uncoated lens must not
    report more than the launched intensity"""
    from .C17 import fresnel_power as _r
    return _r(ctx)


def c02_contact_tolerance(ctx):
    """shared with C02: no intensity is removed at a surface that merely
    coincides with the previous one"""
    from .C02 import contact_tolerance as _r
    return _r(ctx)


RULES = [c02_contact_tolerance, c17_fresnel_power, c07_aperture_scaled_once, c17_pol_entries, c02_lossless_without_k, index_edit, c17_coating_media, derived_sync_rule, c12_arg_names, no_stale, wmw_intensity, write_shape, beer_lambert, lost_write, aperture,
         coating_pair, record_intensity]

"""E7 -- ndarray rank / storage kind typing (small, demand-driven).

rank: 0 (python / numpy scalar or 0-d), 1, 2, or None (unknown).
kind: 'py' python scalar, 'np' numpy scalar / array, None unknown.
"""
import ast
from .pm import unparse

UNK = (None, None)


class Rank:
    def __init__(self, P):
        self.P = P
        self._memo = {}
        self._stack = set()

    # rank of the value returned by a property / method
    def ret(self, func):
        q = func.qual
        if q in self._memo:
            return self._memo[q]
        if q in self._stack:
            return UNK
        self._stack.add(q)
        env = {}
        out = None
        tenv = self.P.local_env(func)
        for s in ast.walk(func.node):
            if isinstance(s, ast.Assign) and len(s.targets) == 1 and \
                    isinstance(s.targets[0], ast.Name):
                env[s.targets[0].id] = s.value
        rets = [s for s in ast.walk(func.node) if isinstance(s, ast.Return)
                and s.value is not None]
        for r in rets:
            v = self._input_norm(r, func) or self.expr(r.value, func, env, tenv)
            out = v if out is None else (v if v == out else UNK)
        self._stack.discard(q)
        self._memo[q] = out or UNK
        return self._memo[q]

    def _input_norm(self, ret, func):
        """input-normalisation idiom: np.array([scalar]) under an
        isinstance(..., (int, float)) guard, np.array(list) under an
        isinstance(..., list) guard, np.ravel(...)... -> rank 1."""
        v = ret.value
        if isinstance(v, ast.Call) and isinstance(v.func, ast.Attribute) and \
                v.func.attr == 'astype':
            v = v.func.value
        if not (isinstance(v, ast.Call) and isinstance(v.func, ast.Attribute)):
            return None
        name = v.func.attr
        if name in ('ravel', 'atleast_1d', 'flatten'):
            return (1, 'np')
        if name != 'array' or not v.args:
            return None
        guard = None
        for n in ast.walk(func.node):
            if isinstance(n, ast.If) and ret in n.body:
                guard = unparse(n.test)
        a = v.args[0]
        if isinstance(a, ast.List) and len(a.elts) == 1 and guard and \
                'isinstance' in guard and ('int' in guard or 'float' in guard
                                           or 'isscalar' in guard):
            return (1, 'np')
        if isinstance(a, ast.Name) and guard and 'isinstance' in guard and \
                'list' in guard:
            return (1, 'np')
        return None

    def attr(self, cls, attr):
        """rank of attribute cls.attr from its constructor stores."""
        key = ('attr', cls, attr)
        if key in self._memo:
            return self._memo[key]
        self._memo[key] = UNK
        P = self.P
        out = None
        for c in P.mro(cls) + P.subclasses(cls):
            k = P.classes[c]
            if attr in k.props:
                out = self.ret(k.props[attr])
                break
            vals = []
            for m in k.methods.values():
                tenv = None
                for s in ast.walk(m.node):
                    if isinstance(s, ast.Assign):
                        for t in s.targets:
                            if isinstance(t, ast.Attribute) and t.attr == attr \
                                    and isinstance(t.value, ast.Name) and \
                                    t.value.id == 'self':
                                if tenv is None:
                                    tenv = P.local_env(m)
                                if isinstance(s.value, ast.Constant) and \
                                        s.value.value is None:
                                    continue
                                vals.append(self.expr(s.value, m, {}, tenv))
            known = [v for v in vals if v and v[0] is not None]
            if known:
                out = known[0] if all(v == known[0] for v in known) else UNK
                break
        self._memo[key] = out or UNK
        return self._memo[key]

    def expr(self, e, func, env, tenv, depth=0):
        try:
            return self._expr(e, func, env, tenv, depth)
        except (TypeError, IndexError, AttributeError):
            return UNK

    def _expr(self, e, func, env, tenv, depth=0):
        P = self.P
        cn = func.cls
        if depth > 12:
            return UNK
        if isinstance(e, ast.Constant):
            if isinstance(e.value, (int, float)) and not isinstance(e.value, bool):
                return (0, 'py')
            return UNK
        if isinstance(e, ast.Name):
            if e.id in env and env[e.id] is not e:
                v = env[e.id]
                if isinstance(v, tuple) and len(v) == 2 and not isinstance(
                        v[0], ast.AST):
                    return v
                return self.expr(v, func, {k: w for k, w in env.items()
                                           if k != e.id}, tenv, depth + 1)
            return UNK
        if isinstance(e, ast.UnaryOp):
            return self.expr(e.operand, func, env, tenv, depth + 1)
        if isinstance(e, ast.BinOp):
            a = self.expr(e.left, func, env, tenv, depth + 1)
            b = self.expr(e.right, func, env, tenv, depth + 1)
            if a[0] is None or b[0] is None:
                # broadcasting: the result has at least the known rank
                for x in (a, b):
                    if x[0] is not None and x[0] != 'tuple' and x[0] > 0:
                        return (x[0], 'np')
                return UNK
            r = max(a[0], b[0])
            kind = 'np' if 'np' in (a[1], b[1]) else 'py'
            return (r, kind)
        if isinstance(e, ast.Attribute):
            bt = P.expr_t(e.value, tenv, cn)
            if isinstance(bt, str):
                return self.attr(bt, e.attr)
            return UNK
        if isinstance(e, ast.Subscript):
            b = self.expr(e.value, func, env, tenv, depth + 1)
            # tuple-returning property: position_in_gcs[2]
            if isinstance(b, tuple) and len(b) == 3 and b[0] == 'tuple':
                if isinstance(e.slice, ast.Constant) and \
                        isinstance(e.slice.value, int) and \
                        -len(b[1]) <= e.slice.value < len(b[1]):
                    return b[1][e.slice.value]
                return UNK
            if b[0] is None:
                return UNK
            sl = e.slice
            parts = sl.elts if isinstance(sl, ast.Tuple) else [sl]
            r = b[0]
            for p in parts:
                if isinstance(p, ast.Slice):
                    continue
                if isinstance(p, ast.Constant) and p.value is None:
                    r += 1
                    continue
                # integer-like index (names, arithmetic on ints, constants)
                if isinstance(p, ast.Compare):
                    return (b[0], 'np')
                r -= 1
            if r < 0:
                return UNK
            return (r, 'np')
        if isinstance(e, ast.Tuple):
            return ('tuple', [self.expr(x, func, env, tenv, depth + 1)
                              for x in e.elts], None)
        if isinstance(e, ast.Call):
            f = e.func
            name = f.attr if isinstance(f, ast.Attribute) else (
                f.id if isinstance(f, ast.Name) else None)
            isnp = isinstance(f, ast.Attribute) and isinstance(f.value, ast.Name)\
                and f.value.id == 'np'
            if name in ('float', 'int') and isinstance(f, ast.Name):
                return (0, 'py')
            if name == 'item':
                return (0, 'py')
            if isnp and name in ('array', 'asarray') and e.args:
                a = e.args[0]
                if isinstance(a, (ast.List, ast.Tuple)):
                    if not a.elts:
                        return (1, 'np')
                    x = self.expr(a.elts[0], func, env, tenv, depth + 1)
                    return (x[0] + 1, 'np') if x[0] is not None else UNK
                if isinstance(a, ast.ListComp):
                    env2 = dict(env)
                    tenv2 = dict(tenv)
                    for g in a.generators:
                        P.bind_for(g.target, g.iter, tenv2, cn)
                    x = self.expr(a.elt, func, env2, tenv2, depth + 1)
                    return (x[0] + 1, 'np') if x[0] is not None else UNK
                x = self.expr(a, func, env, tenv, depth + 1)
                return (x[0], 'np') if x[0] is not None else UNK
            if isnp and name in ('ravel', 'atleast_1d', 'flatten') and e.args:
                return (1, 'np')
            if isnp and name in ('empty', 'zeros', 'ones') and e.args:
                a = e.args[0]
                if isinstance(a, ast.Tuple):
                    return (len(a.elts), 'np')
                return (1, 'np')
            if isnp and name == 'copy' and e.args and isinstance(
                    e.args[0], ast.Call) and isinstance(
                    e.args[0].func, ast.Attribute) and \
                    e.args[0].func.attr == 'atleast_1d':
                return (1, 'np')
            if isnp and name in ('zeros_like', 'ones_like', 'copy', 'abs',
                                 'sqrt', 'sin', 'cos', 'tan', 'full_like') \
                    and e.args:
                x = self.expr(e.args[0], func, env, tenv, depth + 1)
                return (x[0], 'np') if x[0] is not None else UNK
            if isnp and name in ('max', 'min', 'sum', 'mean') and \
                    not e.keywords and e.args:
                return (0, 'np')
            if name in ('astype', 'copy') and isinstance(f, ast.Attribute):
                return self.expr(f.value, func, env, tenv, depth + 1)
            if isinstance(f, ast.Attribute):
                bt = P.expr_t(f.value, tenv, cn)
                if isinstance(bt, tuple) and bt[0] == 'cls':
                    bt = bt[1]
                if isinstance(bt, str):
                    g = P.lookup(bt, name)
                    if g is not None:
                        return self.ret(g)
                if isinstance(f.value, ast.Name) and f.value.id == 'self' and cn:
                    g = P.lookup(cn, name)
                    if g is not None:
                        return self.ret(g)
            return UNK
        return UNK

"""Graded checks on rational normal forms (E3 on top of E6): dimensional
homogeneity and mirror parity of a Rat, given grades of its atoms.

dim: grade = tuple of Fractions (L, W); a Rat is homogeneous when every
monomial of the numerator has one grade and every monomial of the denominator
has one grade.  Kennedy-style theorem: a homogeneous expression of grade g
scales by s^g when every atom of grade d is scaled by s^d.

parity: sign under a mirror; odd atoms flip.  Function atoms inherit: sin, sgn
odd in their argument; cos, abs even; sqrt / acos need an even argument.
"""
from fractions import Fraction as Fr
from .rat import Rat, Poly, rat_eq, Inconclusive


class Inhomogeneous(Exception):
    def __init__(self, msg):
        super().__init__(msg)


def _vadd(a, b):
    return tuple(x + y for x, y in zip(a, b))


def _vscale(a, k):
    return tuple(x * k for x in a)


ZERO_G = (Fr(0), Fr(0))


def atom_grade(atom, dims, sym):
    """grade of an atom: explicit table (callable or dict), else derived for
    function atoms from their arguments."""
    g = dims(atom) if callable(dims) else dims.get(atom)
    if g is not None:
        return g
    if sym is not None and atom in sym.defs:
        kind, arg = sym.defs[atom]
        if isinstance(arg, Rat):
            ga = rat_grade(arg, dims, sym)
            if ga is None:
                return None          # argument of unknown dimension
            if ga == 'zero':
                return ZERO_G
            if kind == 'sqrt':
                return _vscale(ga, Fr(1, 2))
            if kind in ('sin', 'cos', 'acos', 'exp'):
                if ga != ZERO_G:
                    raise Inhomogeneous(f'{kind} of a dimensional quantity '
                                        f'{arg}')
                return ZERO_G
            if kind == 'sgn':
                return ZERO_G
        if isinstance(arg, tuple) and kind == 'pow':
            base, ex = arg
            gb = rat_grade(base, dims, sym)
            if gb is None:
                return None
            if gb == 'zero':
                return ZERO_G
            if ex.is_const():
                return _vscale(gb, ex.n.constant() / ex.d.constant())
            if gb != ZERO_G:
                raise Inhomogeneous('dimensional base with symbolic exponent')
            return ZERO_G
    return None


def poly_grade(p, dims, sym):
    grades = {}
    for mono, c in p.d.items():
        g = ZERO_G
        for a, e in mono:
            ga = atom_grade(a, dims, sym)
            if ga is None:
                return None
            g = _vadd(g, _vscale(ga, e))
        grades.setdefault(g, []).append(mono)
    if not grades:
        return 'zero'
    if len(grades) > 1:
        raise Inhomogeneous('terms of different dimension: ' + ', '.join(
            f'{_fmt(g)}: {Poly({m: Fr(1) for m in ms[:1]}).canon()}'
            for g, ms in list(grades.items())[:3]))
    return next(iter(grades))


def rat_grade(r, dims, sym=None):
    """grade of r; None when an atom has no grade; raises Inhomogeneous."""
    gn = poly_grade(r.n, dims, sym)
    gd = poly_grade(r.d, dims, sym)
    if gn is None or gd is None:
        return None
    if gn == 'zero':
        return 'zero'
    return tuple(a - b for a, b in zip(gn, gd))


def _fmt(g):
    if g == 'zero':
        return '0'
    out = []
    for n, e in zip(('L', 'W'), g):
        if e:
            out.append(n if e == 1 else f'{n}^{e}')
    return '*'.join(out) or '1'


fmt_grade = _fmt
L = (Fr(1), Fr(0))
W = (Fr(0), Fr(1))
ONE_G = ZERO_G


def parity(r, odd, sym=None):
    """+1 even, -1 odd, 0 identically zero; raises Inhomogeneous when mixed.
    odd: predicate atom -> bool for base atoms."""
    cache = {}

    def atom_par(a):
        if a in cache:
            return cache[a]
        if sym is not None and a in sym.defs:
            kind, arg = sym.defs[a]
            if isinstance(arg, Rat):
                pa = parity(arg, odd, sym)
                if kind in ('sin', 'sgn'):
                    p = pa if pa != 0 else 1
                elif kind in ('cos', 'abs'):
                    p = 1
                elif kind in ('sqrt', 'acos', 'exp'):
                    if pa == -1:
                        raise Inhomogeneous(f'{kind} of a quantity that flips '
                                            f'sign under the mirror')
                    p = 1
                else:
                    p = 1
            elif isinstance(arg, tuple) and kind == 'pow':
                base, ex = arg
                pb = parity(base, odd, sym)
                if pb == -1:
                    if ex.is_const() and (ex.n.constant() /
                                          ex.d.constant()).denominator == 1:
                        p = -1 if int(ex.n.constant() / ex.d.constant()) % 2 \
                            else 1
                    else:
                        raise Inhomogeneous('odd base with symbolic exponent')
                else:
                    p = 1
            else:
                p = 1
        else:
            p = -1 if odd(a) else 1
        cache[a] = p
        return p

    pars = {a: atom_par(a) for a in r.atoms()}
    n2, d2 = r.n, r.d
    for a, p_ in pars.items():
        if p_ == -1:
            n2 = n2.subst(a, -Poly.atom(a))
            d2 = d2.subst(a, -Poly.atom(a))
    r2 = Rat(n2, d2)
    rel = dict(sym.rel) if sym is not None else None
    if r.n.is_zero():
        return 0
    if rat_eq(r2, r, rel):
        return 1
    if rat_eq(r2, -r, rel):
        return -1
    raise Inhomogeneous('mixes even and odd terms under the mirror')

"""Local-name canonicalisation (part of E0).

Rules are written against today's spelling of local variables.  The spelling
of a local is not behaviour: before anything is analysed every function-level
local is given a *structural signature* - a hash of the shape of the
expression it is first bound to, with other locals replaced by their own
signatures and everything else (parameters, attributes, constants, callee
names) kept - and locals whose signature is in the reference table
(`sa/local_names.json`, generated from the reference tree by
`tools/gen_local_names.py`) are renamed to the spelling recorded there.
On the reference tree this is the identity.  On a tree where locals were
merely renamed it restores the reference spelling, so no rule sees the
rename.  Where the defining expression itself changed the local keeps its own
spelling and the rules judge the new code as it stands.

Idiom canonicalisation (second half of this module).  The orientation of a
two-armed `if`, the side on which a comparison is written, the order of the
two factors of a product and a temporary in front of a `return` are not
behaviour either; nor is an `else` after an arm that ends in return / raise /
continue / break, a conditional expression standing for a two-armed `if` that
assigns one name or returns, or `is not` / `!=` / `not in` with the arms
exchanged.  `normal_form` removes exactly these freedoms (and nothing else); the reference table `sa/reference_fns.json.gz` records, per
function, the digest of the normal form and the reference text.  A function
of the analysed tree whose normal form has the recorded digest is *the
reference function written differently*: it is replaced by the reference
spelling before any rule runs, so no rule sees the re-writing.  A function
whose normal form differs is judged as it stands.  The four rewritings are
equivalences of Python semantics under conditions checked here: no class of
the package overloads an operator (asserted by `operators_plain`), products
and comparisons whose two operands both contain a call keep their order, the
temporary is used nowhere else.
"""
import ast
import copy
import gzip
import hashlib
import json
import os

FN_TABLE_PATH = os.path.join(os.path.dirname(os.path.abspath(__file__)),
                             'reference_fns.json.gz')
TABLE_PATH = os.path.join(os.path.dirname(os.path.abspath(__file__)),
                          'local_names.json')


def _params(fn):
    a = fn.args
    out = {x.arg for x in a.posonlyargs + a.args + a.kwonlyargs}
    if a.vararg:
        out.add(a.vararg.arg)
    if a.kwarg:
        out.add(a.kwarg.arg)
    return out


def function_locals(fn):
    """names bound at function level (assignment, for, with, walrus), minus
    parameters, global / nonlocal names, imports, exception names and names
    rebound in nested scopes"""
    params = _params(fn)
    assigned, banned = [], set()

    def targets(t):
        if isinstance(t, ast.Name):
            if t.id not in assigned:
                assigned.append(t.id)
        elif isinstance(t, (ast.Tuple, ast.List)):
            for e in t.elts:
                targets(e)
        elif isinstance(t, ast.Starred):
            targets(t.value)

    def walk(node, top):
        for ch in ast.iter_child_nodes(node):
            if isinstance(ch, (ast.FunctionDef, ast.AsyncFunctionDef,
                               ast.Lambda, ast.ClassDef)):
                if isinstance(ch, (ast.FunctionDef, ast.AsyncFunctionDef,
                                   ast.ClassDef)):
                    banned.add(ch.name)
                # names bound inside nested scopes must not be touched
                for x in ast.walk(ch):
                    if isinstance(x, ast.arg):
                        banned.add(x.arg)
                    elif isinstance(x, ast.Name) and isinstance(
                            x.ctx, (ast.Store, ast.Del)):
                        banned.add(x.id)
                continue
            if isinstance(ch, (ast.ListComp, ast.SetComp, ast.DictComp,
                               ast.GeneratorExp)):
                for g in ch.generators:
                    for x in ast.walk(g.target):
                        if isinstance(x, ast.Name):
                            banned.add(x.id)
                walk(ch, False)
                continue
            if isinstance(ch, (ast.Global, ast.Nonlocal)):
                banned.update(ch.names)
            elif isinstance(ch, (ast.Import, ast.ImportFrom)):
                for al in ch.names:
                    banned.add((al.asname or al.name).split('.')[0])
            elif isinstance(ch, ast.ExceptHandler) and ch.name:
                banned.add(ch.name)
            elif isinstance(ch, ast.Assign):
                for t in ch.targets:
                    targets(t)
            elif isinstance(ch, (ast.AnnAssign, ast.AugAssign)):
                if isinstance(ch, ast.AnnAssign):
                    targets(ch.target)
            elif isinstance(ch, (ast.For, ast.AsyncFor)):
                targets(ch.target)
            elif isinstance(ch, (ast.With, ast.AsyncWith)):
                for it in ch.items:
                    if it.optional_vars is not None:
                        targets(it.optional_vars)
            elif isinstance(ch, ast.NamedExpr):
                targets(ch.target)
            walk(ch, False)
    walk(fn, True)
    return [n for n in assigned if n not in params and n not in banned]


def _shape(expr, sig):
    """dump of expr with local names replaced by their signatures and the
    variables of comprehensions / lambdas inside it by positional
    placeholders"""
    import copy

    def tnames(t):
        if isinstance(t, ast.Name):
            yield t.id
        elif isinstance(t, (ast.Tuple, ast.List)):
            for e in t.elts:
                yield from tnames(e)
        elif isinstance(t, ast.Starred):
            yield from tnames(t.value)

    class T(ast.NodeTransformer):
        def __init__(self):
            self.bound = []
            self.n = 0

        def visit_Name(self, n):
            for m in reversed(self.bound):
                if n.id in m:
                    return ast.Name(id=m[n.id], ctx=ast.Load())
            if n.id in sig:
                return ast.Name(id='<' + sig[n.id] + '>', ctx=ast.Load())
            return ast.Name(id=n.id, ctx=ast.Load())

        def visit_Attribute(self, n):
            self.generic_visit(n)
            return ast.Attribute(value=n.value, attr=n.attr, ctx=ast.Load())

        def visit_Subscript(self, n):
            self.generic_visit(n)
            return ast.Subscript(value=n.value, slice=n.slice, ctx=ast.Load())

        def _comp(self, n):
            m = {}
            for g in n.generators:
                for nm in tnames(g.target):
                    if nm not in m:
                        m[nm] = f'<v{self.n}>'
                        self.n += 1
            self.bound.append(m)
            self.generic_visit(n)
            self.bound.pop()
            return n
        visit_ListComp = visit_SetComp = visit_DictComp = \
            visit_GeneratorExp = _comp

        def visit_Lambda(self, n):
            m = {}
            a = n.args
            for x in a.posonlyargs + a.args + a.kwonlyargs + \
                    [y for y in (a.vararg, a.kwarg) if y]:
                m[x.arg] = f'<v{self.n}>'
                self.n += 1
                x.arg = m[x.arg]
            self.bound.append(m)
            self.generic_visit(n)
            self.bound.pop()
            return n
    return ast.dump(T().visit(copy.deepcopy(expr)))


def signatures(fn):
    """{local name: signature} in order of first binding"""
    locs = function_locals(fn)
    if not locs:
        return {}
    locset = set(locs)
    sig = {}
    pending = {n: '?' for n in locs}      # unsigned locals hash as '?'
    counts = {}

    def h(s):
        return hashlib.sha1(s.encode()).hexdigest()[:12]

    def env():
        d = dict(pending)
        d.update(sig)
        return d

    def bind(t, how, rhs_shape, pos=()):
        if isinstance(t, ast.Name):
            if t.id in locset and t.id not in sig:
                base = h(f'{how}|{pos}|{rhs_shape}')
                k = counts.get(base, 0)
                counts[base] = k + 1
                sig[t.id] = base if k == 0 else f'{base}.{k}'
        elif isinstance(t, (ast.Tuple, ast.List)):
            for i, e in enumerate(t.elts):
                bind(e, how, rhs_shape, pos + (i,))
        elif isinstance(t, ast.Starred):
            bind(t.value, how, rhs_shape, pos + ('*',))

    def visit(node):
        for ch in ast.iter_child_nodes(node):
            if isinstance(ch, (ast.FunctionDef, ast.AsyncFunctionDef,
                               ast.Lambda, ast.ClassDef)):
                continue
            if isinstance(ch, ast.Assign):
                visit(ch.value)
                sh = _shape(ch.value, env())
                for t in ch.targets:
                    bind(t, 'assign', sh)
                continue
            if isinstance(ch, ast.AnnAssign) and ch.value is not None:
                sh = _shape(ch.value, env())
                bind(ch.target, 'assign', sh)
                continue
            if isinstance(ch, (ast.For, ast.AsyncFor)):
                sh = _shape(ch.iter, env())
                bind(ch.target, 'for', sh)
                for s in ch.body + ch.orelse:
                    visit_stmt(s)
                continue
            if isinstance(ch, (ast.With, ast.AsyncWith)):
                for it in ch.items:
                    if it.optional_vars is not None:
                        bind(it.optional_vars, 'with',
                             _shape(it.context_expr, env()))
                for s in ch.body:
                    visit_stmt(s)
                continue
            if isinstance(ch, ast.NamedExpr):
                bind(ch.target, 'walrus', _shape(ch.value, env()))
            visit(ch)

    def visit_stmt(s):
        visit(ast.Module(body=[s], type_ignores=[]))
    visit(fn)
    return sig


COMPS = (ast.ListComp, ast.SetComp, ast.DictComp, ast.GeneratorExp)


def comp_signatures(fn, sig):
    """[(comprehension node, {variable: signature})] for the comprehensions
    of fn (outside nested functions), in source order; the signature of a
    comprehension variable is the shape of what it iterates over"""
    out = []
    counts = {}

    def h(s):
        return 'c' + hashlib.sha1(s.encode()).hexdigest()[:12]

    def names(t, pos=()):
        if isinstance(t, ast.Name):
            yield t.id, pos
        elif isinstance(t, (ast.Tuple, ast.List)):
            for i, e in enumerate(t.elts):
                yield from names(e, pos + (i,))
        elif isinstance(t, ast.Starred):
            yield from names(t.value, pos + ('*',))

    def visit(node, outer):
        for ch in ast.iter_child_nodes(node):
            if isinstance(ch, (ast.FunctionDef, ast.AsyncFunctionDef,
                               ast.Lambda, ast.ClassDef)):
                continue
            if isinstance(ch, COMPS):
                own = {}
                env = dict(outer)
                for gi, g in enumerate(ch.generators):
                    sh = _shape(g.iter, env)
                    for nm, pos in names(g.target):
                        if nm in sig:
                            continue       # a function-level local: not ours
                        base = h(f'{gi}|{pos}|{sh}')
                        k = counts.get(base, 0)
                        counts[base] = k + 1
                        own[nm] = base if k == 0 else f'{base}.{k}'
                        env[nm] = own[nm]
                out.append((ch, own))
                visit(ch, env)
                continue
            visit(ch, outer)
    visit(fn, dict(sig))
    return out


def func_key(rel, cls, fn, kind):
    return f'{rel}::{cls or ""}::{fn.name}::{kind}'


def iter_functions(rel, tree):
    """(key, FunctionDef) for module-level functions and methods"""
    for n in tree.body:
        if isinstance(n, ast.FunctionDef):
            yield func_key(rel, None, n, 'f'), n
        elif isinstance(n, ast.ClassDef):
            seen = {}
            for m in n.body:
                if isinstance(m, ast.FunctionDef):
                    k = seen.get(m.name, 0)
                    seen[m.name] = k + 1
                    yield func_key(rel, n.name, m, f'm{k}'), m


def build_table(modules):
    table = {}
    for rel, tree in modules.items():
        for key, fn in iter_functions(rel, tree):
            sg = signatures(fn)
            ent = {s: name for name, s in sg.items()}
            for _, own in comp_signatures(fn, sg):
                for name, s in own.items():
                    ent[s] = name
            if ent:
                table[key] = ent
    return table


_TABLE = None


def load_table():
    global _TABLE
    if _TABLE is None:
        try:
            with open(TABLE_PATH) as fh:
                _TABLE = json.load(fh)
        except OSError:
            _TABLE = {}
    return _TABLE


# ----------------------------------------------------------- idiom normal form
def _has_call(e):
    return any(isinstance(x, (ast.Call, ast.Yield, ast.YieldFrom, ast.Await,
                              ast.NamedExpr)) for x in ast.walk(e))


class _Normal(ast.NodeTransformer):
    def visit_BinOp(self, n):
        self.generic_visit(n)
        if isinstance(n.op, ast.Mult) and not (
                _has_call(n.left) and _has_call(n.right)):
            if ast.dump(n.right) < ast.dump(n.left):
                n.left, n.right = n.right, n.left
        return n

    FLIP = {ast.Gt: ast.Lt, ast.GtE: ast.LtE}

    def visit_Compare(self, n):
        self.generic_visit(n)
        if len(n.ops) != 1 or (_has_call(n.left) and
                               _has_call(n.comparators[0])):
            return n
        op = type(n.ops[0])
        if op in self.FLIP:
            n.left, n.comparators = n.comparators[0], [n.left]
            n.ops = [self.FLIP[op]()]
        elif op in (ast.Eq, ast.NotEq) and \
                ast.dump(n.comparators[0]) < ast.dump(n.left):
            n.left, n.comparators = n.comparators[0], [n.left]
        return n

    NEG = {ast.IsNot: ast.Is, ast.NotEq: ast.Eq, ast.NotIn: ast.In}
    POS = {ast.Is: ast.IsNot, ast.Eq: ast.NotEq, ast.In: ast.NotIn}

    def _negate(self, e):
        """(negation of e, number of negative atoms in it)"""
        if isinstance(e, ast.UnaryOp) and isinstance(e.op, ast.Not):
            return e.operand, self._negatives(e.operand)
        if isinstance(e, ast.Compare) and len(e.ops) == 1 and \
                type(e.ops[0]) in self.NEG:
            return ast.Compare(e.left, [self.NEG[type(e.ops[0])]()],
                               e.comparators), 0
        if isinstance(e, ast.Compare) and len(e.ops) == 1 and \
                type(e.ops[0]) in self.POS:
            return ast.Compare(e.left, [self.POS[type(e.ops[0])]()],
                               e.comparators), 1
        if isinstance(e, ast.BoolOp):
            parts = [self._negate(v) for v in e.values]
            op = ast.Or() if isinstance(e.op, ast.And) else ast.And()
            return ast.BoolOp(op, [p[0] for p in parts]), \
                sum(p[1] for p in parts)
        return ast.UnaryOp(ast.Not(), e), 1 + self._negatives(e)

    def _negatives(self, e):
        if isinstance(e, ast.UnaryOp) and isinstance(e.op, ast.Not):
            return 1 + self._negatives(e.operand)
        if isinstance(e, ast.Compare) and len(e.ops) == 1 and \
                type(e.ops[0]) in self.NEG:
            return 1
        if isinstance(e, ast.BoolOp):
            return sum(self._negatives(v) for v in e.values)
        return 0

    def visit_If(self, n):
        self.generic_visit(n)
        if n.orelse and isinstance(n.test, ast.BoolOp):
            # De Morgan: the spelling with fewer negations, arms exchanged
            neg, k = self._negate(n.test)
            if k < self._negatives(n.test):
                n.test = neg
                n.body, n.orelse = n.orelse, n.body
        if n.orelse:
            while True:
                if isinstance(n.test, ast.UnaryOp) and \
                        isinstance(n.test.op, ast.Not):
                    n.test = n.test.operand
                elif isinstance(n.test, ast.Compare) and \
                        len(n.test.ops) == 1 and \
                        type(n.test.ops[0]) in self.NEG:
                    n.test.ops = [self.NEG[type(n.test.ops[0])]()]
                else:
                    break
                n.body, n.orelse = n.orelse, n.body
        return n


class _NormalIf(ast.NodeTransformer):
    """only the orientation of two-armed ifs (used before locals are renamed
    in order of appearance)"""
    NEG = _Normal.NEG
    POS = _Normal.POS
    _negate = _Normal._negate
    _negatives = _Normal._negatives
    visit_If = _Normal.visit_If


_JUMPS = (ast.Return, ast.Raise, ast.Continue, ast.Break)


def _blocks(node):
    """every statement list below node: (owner, field, list)"""
    for fld in ('body', 'orelse', 'finalbody'):
        b = getattr(node, fld, None)
        if isinstance(b, list) and b and isinstance(b[0], ast.stmt):
            yield node, fld, b
            for st in list(b):
                yield from _blocks(st)
    for h in getattr(node, 'handlers', []) or []:
        yield from _blocks(h)


def _simple_target(t):
    return isinstance(t, ast.Name) or (
        isinstance(t, ast.Attribute) and isinstance(t.value, ast.Name))


def expand_ifexp(fn):
    """`T = a if c else b` -> if c: T = a else: T = b (T a name or an
    attribute of a name); `return a if c else b` -> if c: return a else:
    return b"""
    changed = True
    while changed:
        changed = False
        for owner, fld, b in list(_blocks(fn)):
            for i, st in enumerate(b):
                if isinstance(st, ast.Assign) and len(st.targets) == 1 and \
                        _simple_target(st.targets[0]) and \
                        isinstance(st.value, ast.IfExp):
                    e = st.value
                    b[i] = ast.If(e.test, [ast.Assign(
                        [copy.deepcopy(st.targets[0])], e.body)], [ast.Assign(
                            [copy.deepcopy(st.targets[0])], e.orelse)])
                    changed = True
                elif isinstance(st, ast.Return) and \
                        isinstance(st.value, ast.IfExp):
                    e = st.value
                    b[i] = ast.If(e.test, [ast.Return(e.body)],
                                  [ast.Return(e.orelse)])
                    changed = True
    return fn


def absorb_else(fn):
    """`if c: ...jump` followed by R -> `if c: ...jump else: R`"""
    changed = True
    while changed:
        changed = False
        for owner, fld, b in list(_blocks(fn)):
            for i, st in enumerate(b):
                if isinstance(st, ast.If) and not st.orelse and \
                        isinstance(st.body[-1], _JUMPS) and i + 1 < len(b):
                    st.orelse = b[i + 1:]
                    del b[i + 1:]
                    changed = True
                    break
            if changed:
                break
    return fn


def flatten_else(fn):
    """`if c: ...jump else: R` -> `if c: ...jump` followed by R"""
    changed = True
    while changed:
        changed = False
        for owner, fld, b in list(_blocks(fn)):
            for i, st in enumerate(b):
                if isinstance(st, ast.If) and st.orelse and \
                        isinstance(st.body[-1], _JUMPS):
                    b[i + 1:i + 1] = st.orelse
                    st.orelse = []
                    changed = True
                    break
            if changed:
                break
    return fn


def _inline_return_temps(fn):
    """`t = e; return t` -> `return e` where every occurrence of t in the
    function is in such a pair (nothing can read the binding afterwards)"""
    count = {}
    for x in ast.walk(fn):
        if isinstance(x, ast.Name):
            count[x.id] = count.get(x.id, 0) + 1
        elif isinstance(x, (ast.Global, ast.Nonlocal)):
            for nm in x.names:
                count[nm] = count.get(nm, 0) + 1000
        elif isinstance(x, ast.arg):
            count[x.arg] = count.get(x.arg, 0) + 1000

    def is_pair(prev, st):
        return isinstance(st, ast.Return) and \
            isinstance(st.value, ast.Name) and \
            isinstance(prev, ast.Assign) and len(prev.targets) == 1 and \
            isinstance(prev.targets[0], ast.Name) and \
            prev.targets[0].id == st.value.id and not any(
                isinstance(x, ast.Name) and x.id == st.value.id
                for x in ast.walk(prev.value))

    def blocks(node):
        for fld in ('body', 'orelse', 'finalbody'):
            b = getattr(node, fld, None)
            if isinstance(b, list) and b and isinstance(b[0], ast.stmt):
                yield node, fld, b
                for st in b:
                    yield from blocks(st)
        for h in getattr(node, 'handlers', []) or []:
            yield from blocks(h)
    pairs = {}
    for node, fld, b in blocks(fn):
        for prev, st in zip(b, b[1:]):
            if is_pair(prev, st):
                pairs[st.value.id] = pairs.get(st.value.id, 0) + 1
    good = {nm for nm, k in pairs.items() if count.get(nm) == 2 * k}
    if not good:
        return
    for node, fld, b in list(blocks(fn)):
        out = []
        for st in b:
            if out and is_pair(out[-1], st) and st.value.id in good:
                st.value = out.pop().value
            out.append(st)
        b[:] = out


def normal_form(fn):
    """digest of the function with the four idiom freedoms removed"""
    g = copy.deepcopy(fn)
    _inline_return_temps(g)
    expand_ifexp(g)
    absorb_else(g)
    g = _Normal().visit(g)
    flatten_else(g)
    return hashlib.sha1(ast.dump(g).encode()).hexdigest()


def operators_plain(modules):
    """names of operator methods defined by classes of the package (the
    commutations of `normal_form` assume there are none)"""
    bad = []
    for rel, tree in modules.items():
        for n in ast.walk(tree):
            if isinstance(n, ast.FunctionDef) and n.name in (
                    '__mul__', '__rmul__', '__imul__', '__lt__', '__gt__',
                    '__le__', '__ge__', '__eq__', '__ne__', '__bool__'):
                bad.append(f'{rel}:{n.name}')
    return bad


_REF_IDENTS = {}


def _ref_idents(rel, table):
    """identifiers mentioned by the reference functions of a file"""
    if rel not in _REF_IDENTS:
        out = set()
        for key, ent in table.items():
            if key.startswith(rel + '::'):
                for x in ast.walk(ast.parse(ent[1])):
                    if isinstance(x, ast.Name):
                        out.add(x.id)
                    elif isinstance(x, ast.Attribute):
                        out.add(x.attr)
        _REF_IDENTS[rel] = out
    return _REF_IDENTS[rel]


def _scope(rel, tree, cls, table):
    from . import equiv

    def is_new(cn, name):
        if table is None:
            return False
        k = f'{rel}::{cn or ""}::{name}::' + ('m0' if cn else 'f')
        return k not in table
    return equiv.Scope(tree, cls, is_new,
                       _ref_idents(rel, table) if table is not None else None)


def build_fn_table(modules):
    from . import equiv
    table = {}
    for rel, tree in modules.items():
        for key, fn in iter_functions(rel, tree):
            cls = key.split('::')[1] or None
            d2, _ = equiv.normal_form2(fn, _scope(rel, tree, cls, None))
            table[key] = [normal_form(fn), ast.unparse(fn), d2]
    return table


_FN_TABLE = None


def load_fn_table():
    global _FN_TABLE
    if _FN_TABLE is None:
        try:
            with gzip.open(FN_TABLE_PATH, 'rt', encoding='utf-8') as fh:
                _FN_TABLE = json.load(fh)
        except OSError:
            _FN_TABLE = {}
    return _FN_TABLE


_REF_TESTS = None


def reference_tests():
    """texts of every branch condition (if / while / conditional expression)
    of the reference tree's functions"""
    global _REF_TESTS
    if _REF_TESTS is None:
        out = set()
        for key, ent in load_fn_table().items():
            src = ent[1]
            for n in ast.walk(ast.parse(src)):
                if isinstance(n, (ast.If, ast.While, ast.IfExp)):
                    out.add(' '.join(ast.unparse(n.test).split()))
                elif isinstance(n, ast.Subscript) and isinstance(
                        n.ctx, ast.Store) and not isinstance(
                        n.slice, (ast.Constant, ast.Slice, ast.Tuple)):
                    out.add(' '.join(ast.unparse(n.slice).split()))
                elif isinstance(n, ast.Call) and isinstance(
                        n.func, ast.Attribute) and n.func.attr == 'where' \
                        and len(n.args) == 3:
                    out.add(' '.join(ast.unparse(n.args[0]).split()))
        _REF_TESTS = out
    return _REF_TESTS


RESTORED = []       # (rel, function key) restored during this process


def restore_idioms(rel, tree):
    """replace every function that is the reference function re-written
    within the four idiom freedoms by the reference spelling"""
    ft = load_fn_table()
    if not ft:
        return 0
    n = 0

    def consider(container, i, key, fn):
        nonlocal n
        ref = ft.get(key)
        if not ref:
            return
        if ast.unparse(fn) == ref[1]:
            return
        if normal_form(fn) != ref[0]:
            # second normal form: helpers the reference tree does not have
            # inlined, temporaries substituted, constant tables unrolled
            if len(ref) < 3 or ref[2] is None:
                return
            from . import equiv
            cls = key.split('::')[1] or None
            d2, _ = equiv.normal_form2(fn, _scope(rel, tree, cls, ft))
            if d2 is None or d2 != ref[2]:
                return
        new = ast.parse(ref[1]).body[0]
        ast.increment_lineno(new, fn.lineno - 1)
        container[i] = new
        RESTORED.append((rel, key))
        n += 1
    for i, node in enumerate(tree.body):
        if isinstance(node, ast.FunctionDef):
            consider(tree.body, i, func_key(rel, None, node, 'f'), node)
        elif isinstance(node, ast.ClassDef):
            seen = {}
            for j, m in enumerate(node.body):
                if isinstance(m, ast.FunctionDef):
                    k = seen.get(m.name, 0)
                    seen[m.name] = k + 1
                    consider(node.body, j,
                             func_key(rel, node.name, m, f'm{k}'), m)
    if n:
        _drop_dead_helpers(rel, tree, ft)
    return n


def _drop_dead_helpers(rel, tree, ft):
    """private functions / methods that the reference tree does not have and
    that nothing in the module mentions any more (their callers were restored
    to the reference spelling) are removed, with class- or module-level
    constants that only they used"""
    for _ in range(3):
        mentioned = {}
        for x in ast.walk(tree):
            nm = x.attr if isinstance(x, ast.Attribute) else (
                x.id if isinstance(x, ast.Name) else None)
            if nm is not None:
                mentioned[nm] = mentioned.get(nm, 0) + 1
            elif isinstance(x, ast.Constant) and isinstance(x.value, str):
                mentioned[x.value] = mentioned.get(x.value, 0) + 1
        dropped = False
        for owner, cls in [(tree, None)] + [
                (c, c.name) for c in tree.body if isinstance(c, ast.ClassDef)]:
            keep = []
            for m in owner.body:
                if isinstance(m, ast.FunctionDef) and m.name.startswith('_') \
                        and not m.name.startswith('__') and \
                        func_key(rel, cls, m, 'm0' if cls else 'f') not in ft \
                        and not mentioned.get(m.name):
                    dropped = True
                    continue
                if isinstance(m, ast.Assign) and len(m.targets) == 1 and \
                        isinstance(m.targets[0], ast.Name) and \
                        m.targets[0].id.startswith('_') and \
                        mentioned.get(m.targets[0].id, 0) <= 1 and \
                        m.targets[0].id.lstrip('_').isupper():
                    # a private constant nobody reads (the Store is the one
                    # mention)
                    dropped = True
                    continue
                keep.append(m)
            owner.body[:] = keep or [ast.Pass()]
        if not dropped:
            break


def canonicalise(rel, tree, table=None, src=None):
    """rename locals of every function of the module to the reference
    spelling; returns the number of locals renamed.  A file whose text is the
    reference text (digest recorded with the table) needs no work."""
    table = load_table() if table is None else table
    if src is not None and table.get('__digests__', {}).get(rel) == \
            hashlib.sha1(src.encode()).hexdigest():
        return 0
    restore_idioms(rel, tree)        # before renaming: a re-ordered first
    #                                  binding would mislead the signatures
    return _rename_locals(rel, tree, table)


def restore_package(modules, sources):
    """second pass of the loader: idiom restoration for every file whose text
    is not the reference text; returns the number of functions restored (0
    and a reason when the package defines operator methods)"""
    bad = operators_plain(modules)
    if bad:
        return 0, 'operator methods defined: ' + ', '.join(bad[:4])
    dig = load_table().get('__digests__', {})
    n = 0
    for rel, tree in modules.items():
        if dig.get(rel) == hashlib.sha1(sources[rel].encode()).hexdigest():
            continue
        n += restore_idioms(rel, tree)
    return n, ''


def _rename_locals(rel, tree, table):
    renamed = 0
    for key, fn in iter_functions(rel, tree):
        ref = table.get(key)
        if not ref:
            continue
        sg = signatures(fn)
        # comprehension variables first (their own scopes)
        for comp, own in comp_signatures(fn, sg):
            cm = {nm: ref[s] for nm, s in own.items()
                  if ref.get(s) is not None and ref[s] != nm}
            if not cm:
                continue
            used = {x.id for x in ast.walk(comp) if isinstance(x, ast.Name)}
            if (used & set(cm.values())) - set(cm):
                continue          # would capture another name: leave alone

            class RC(ast.NodeTransformer):
                def visit_Name(self, n):
                    if n.id in cm:
                        n.id = cm[n.id]
                    return n
            RC().visit(comp)
            renamed += len(cm)
        if not sg:
            continue
        mapping = {}
        for name, s in sg.items():
            want = ref.get(s)
            if want is not None and want != name:
                mapping[name] = want
        if not mapping:
            continue
        # collisions: an untouched name that equals a spelling we are about
        # to hand out (and is not itself renamed away) steps aside
        taken = set(mapping.values())
        others = set()
        for x in ast.walk(fn):
            if isinstance(x, ast.Name):
                others.add(x.id)
            elif isinstance(x, ast.arg):
                others.add(x.arg)
        for nm in sorted((others & taken) - set(mapping)):
            if nm in sg:                       # another local: move it
                mapping[nm] = nm + '__prev'
            else:                              # parameter / global: give up
                for k in [k for k, v in mapping.items() if v == nm]:
                    del mapping[k]
        if not mapping:
            continue

        class R(ast.NodeTransformer):
            def visit_Name(self, n):
                if n.id in mapping:
                    n.id = mapping[n.id]
                return n
        for st in fn.body:
            R().visit(st)
        renamed += len(mapping)
    return renamed

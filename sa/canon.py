"""Local-name canonicalisation (part of E0).

Rules are written against today's spelling of local variables.  The spelling
of a local is not behaviour: before anything is analysed every function-level
local is given a *structural signature* - a hash of the shape of the
expression it is first bound to, with other locals replaced by their own
signatures and everything else (parameters, attributes, constants, callee
names) kept - and locals whose signature is in the reference table
(`sa/local_names.json`, generated from the reference tree by
`tools/gen_local_names.py`) are renamed to the spelling recorded there.
On the reference tree this is the identity.  On a tree where locals were
merely renamed it restores the reference spelling, so no rule sees the
rename.  Where the defining expression itself changed the local keeps its own
spelling and the rules judge the new code as it stands.
"""
import ast
import hashlib
import json
import os

TABLE_PATH = os.path.join(os.path.dirname(os.path.abspath(__file__)),
                          'local_names.json')


def _params(fn):
    a = fn.args
    out = {x.arg for x in a.posonlyargs + a.args + a.kwonlyargs}
    if a.vararg:
        out.add(a.vararg.arg)
    if a.kwarg:
        out.add(a.kwarg.arg)
    return out


def function_locals(fn):
    """names bound at function level (assignment, for, with, walrus), minus
    parameters, global / nonlocal names, imports, exception names and names
    rebound in nested scopes"""
    params = _params(fn)
    assigned, banned = [], set()

    def targets(t):
        if isinstance(t, ast.Name):
            if t.id not in assigned:
                assigned.append(t.id)
        elif isinstance(t, (ast.Tuple, ast.List)):
            for e in t.elts:
                targets(e)
        elif isinstance(t, ast.Starred):
            targets(t.value)

    def walk(node, top):
        for ch in ast.iter_child_nodes(node):
            if isinstance(ch, (ast.FunctionDef, ast.AsyncFunctionDef,
                               ast.Lambda, ast.ClassDef)):
                if isinstance(ch, (ast.FunctionDef, ast.AsyncFunctionDef,
                                   ast.ClassDef)):
                    banned.add(ch.name)
                # names bound inside nested scopes must not be touched
                for x in ast.walk(ch):
                    if isinstance(x, ast.arg):
                        banned.add(x.arg)
                    elif isinstance(x, ast.Name) and isinstance(
                            x.ctx, (ast.Store, ast.Del)):
                        banned.add(x.id)
                continue
            if isinstance(ch, (ast.ListComp, ast.SetComp, ast.DictComp,
                               ast.GeneratorExp)):
                for g in ch.generators:
                    for x in ast.walk(g.target):
                        if isinstance(x, ast.Name):
                            banned.add(x.id)
                walk(ch, False)
                continue
            if isinstance(ch, (ast.Global, ast.Nonlocal)):
                banned.update(ch.names)
            elif isinstance(ch, (ast.Import, ast.ImportFrom)):
                for al in ch.names:
                    banned.add((al.asname or al.name).split('.')[0])
            elif isinstance(ch, ast.ExceptHandler) and ch.name:
                banned.add(ch.name)
            elif isinstance(ch, ast.Assign):
                for t in ch.targets:
                    targets(t)
            elif isinstance(ch, (ast.AnnAssign, ast.AugAssign)):
                if isinstance(ch, ast.AnnAssign):
                    targets(ch.target)
            elif isinstance(ch, (ast.For, ast.AsyncFor)):
                targets(ch.target)
            elif isinstance(ch, (ast.With, ast.AsyncWith)):
                for it in ch.items:
                    if it.optional_vars is not None:
                        targets(it.optional_vars)
            elif isinstance(ch, ast.NamedExpr):
                targets(ch.target)
            walk(ch, False)
    walk(fn, True)
    return [n for n in assigned if n not in params and n not in banned]


def _shape(expr, sig):
    """dump of expr with local names replaced by their signatures and the
    variables of comprehensions / lambdas inside it by positional
    placeholders"""
    import copy

    def tnames(t):
        if isinstance(t, ast.Name):
            yield t.id
        elif isinstance(t, (ast.Tuple, ast.List)):
            for e in t.elts:
                yield from tnames(e)
        elif isinstance(t, ast.Starred):
            yield from tnames(t.value)

    class T(ast.NodeTransformer):
        def __init__(self):
            self.bound = []
            self.n = 0

        def visit_Name(self, n):
            for m in reversed(self.bound):
                if n.id in m:
                    return ast.Name(id=m[n.id], ctx=ast.Load())
            if n.id in sig:
                return ast.Name(id='<' + sig[n.id] + '>', ctx=ast.Load())
            return ast.Name(id=n.id, ctx=ast.Load())

        def visit_Attribute(self, n):
            self.generic_visit(n)
            return ast.Attribute(value=n.value, attr=n.attr, ctx=ast.Load())

        def visit_Subscript(self, n):
            self.generic_visit(n)
            return ast.Subscript(value=n.value, slice=n.slice, ctx=ast.Load())

        def _comp(self, n):
            m = {}
            for g in n.generators:
                for nm in tnames(g.target):
                    if nm not in m:
                        m[nm] = f'<v{self.n}>'
                        self.n += 1
            self.bound.append(m)
            self.generic_visit(n)
            self.bound.pop()
            return n
        visit_ListComp = visit_SetComp = visit_DictComp = \
            visit_GeneratorExp = _comp

        def visit_Lambda(self, n):
            m = {}
            a = n.args
            for x in a.posonlyargs + a.args + a.kwonlyargs + \
                    [y for y in (a.vararg, a.kwarg) if y]:
                m[x.arg] = f'<v{self.n}>'
                self.n += 1
                x.arg = m[x.arg]
            self.bound.append(m)
            self.generic_visit(n)
            self.bound.pop()
            return n
    return ast.dump(T().visit(copy.deepcopy(expr)))


def signatures(fn):
    """{local name: signature} in order of first binding"""
    locs = function_locals(fn)
    if not locs:
        return {}
    locset = set(locs)
    sig = {}
    pending = {n: '?' for n in locs}      # unsigned locals hash as '?'
    counts = {}

    def h(s):
        return hashlib.sha1(s.encode()).hexdigest()[:12]

    def env():
        d = dict(pending)
        d.update(sig)
        return d

    def bind(t, how, rhs_shape, pos=()):
        if isinstance(t, ast.Name):
            if t.id in locset and t.id not in sig:
                base = h(f'{how}|{pos}|{rhs_shape}')
                k = counts.get(base, 0)
                counts[base] = k + 1
                sig[t.id] = base if k == 0 else f'{base}.{k}'
        elif isinstance(t, (ast.Tuple, ast.List)):
            for i, e in enumerate(t.elts):
                bind(e, how, rhs_shape, pos + (i,))
        elif isinstance(t, ast.Starred):
            bind(t.value, how, rhs_shape, pos + ('*',))

    def visit(node):
        for ch in ast.iter_child_nodes(node):
            if isinstance(ch, (ast.FunctionDef, ast.AsyncFunctionDef,
                               ast.Lambda, ast.ClassDef)):
                continue
            if isinstance(ch, ast.Assign):
                visit(ch.value)
                sh = _shape(ch.value, env())
                for t in ch.targets:
                    bind(t, 'assign', sh)
                continue
            if isinstance(ch, ast.AnnAssign) and ch.value is not None:
                sh = _shape(ch.value, env())
                bind(ch.target, 'assign', sh)
                continue
            if isinstance(ch, (ast.For, ast.AsyncFor)):
                sh = _shape(ch.iter, env())
                bind(ch.target, 'for', sh)
                for s in ch.body + ch.orelse:
                    visit_stmt(s)
                continue
            if isinstance(ch, (ast.With, ast.AsyncWith)):
                for it in ch.items:
                    if it.optional_vars is not None:
                        bind(it.optional_vars, 'with',
                             _shape(it.context_expr, env()))
                for s in ch.body:
                    visit_stmt(s)
                continue
            if isinstance(ch, ast.NamedExpr):
                bind(ch.target, 'walrus', _shape(ch.value, env()))
            visit(ch)

    def visit_stmt(s):
        visit(ast.Module(body=[s], type_ignores=[]))
    visit(fn)
    return sig


COMPS = (ast.ListComp, ast.SetComp, ast.DictComp, ast.GeneratorExp)


def comp_signatures(fn, sig):
    """[(comprehension node, {variable: signature})] for the comprehensions
    of fn (outside nested functions), in source order; the signature of a
    comprehension variable is the shape of what it iterates over"""
    out = []
    counts = {}

    def h(s):
        return 'c' + hashlib.sha1(s.encode()).hexdigest()[:12]

    def names(t, pos=()):
        if isinstance(t, ast.Name):
            yield t.id, pos
        elif isinstance(t, (ast.Tuple, ast.List)):
            for i, e in enumerate(t.elts):
                yield from names(e, pos + (i,))
        elif isinstance(t, ast.Starred):
            yield from names(t.value, pos + ('*',))

    def visit(node, outer):
        for ch in ast.iter_child_nodes(node):
            if isinstance(ch, (ast.FunctionDef, ast.AsyncFunctionDef,
                               ast.Lambda, ast.ClassDef)):
                continue
            if isinstance(ch, COMPS):
                own = {}
                env = dict(outer)
                for gi, g in enumerate(ch.generators):
                    sh = _shape(g.iter, env)
                    for nm, pos in names(g.target):
                        if nm in sig:
                            continue       # a function-level local: not ours
                        base = h(f'{gi}|{pos}|{sh}')
                        k = counts.get(base, 0)
                        counts[base] = k + 1
                        own[nm] = base if k == 0 else f'{base}.{k}'
                        env[nm] = own[nm]
                out.append((ch, own))
                visit(ch, env)
                continue
            visit(ch, outer)
    visit(fn, dict(sig))
    return out


def func_key(rel, cls, fn, kind):
    return f'{rel}::{cls or ""}::{fn.name}::{kind}'


def iter_functions(rel, tree):
    """(key, FunctionDef) for module-level functions and methods"""
    for n in tree.body:
        if isinstance(n, ast.FunctionDef):
            yield func_key(rel, None, n, 'f'), n
        elif isinstance(n, ast.ClassDef):
            seen = {}
            for m in n.body:
                if isinstance(m, ast.FunctionDef):
                    k = seen.get(m.name, 0)
                    seen[m.name] = k + 1
                    yield func_key(rel, n.name, m, f'm{k}'), m


def build_table(modules):
    table = {}
    for rel, tree in modules.items():
        for key, fn in iter_functions(rel, tree):
            sg = signatures(fn)
            ent = {s: name for name, s in sg.items()}
            for _, own in comp_signatures(fn, sg):
                for name, s in own.items():
                    ent[s] = name
            if ent:
                table[key] = ent
    return table


_TABLE = None


def load_table():
    global _TABLE
    if _TABLE is None:
        try:
            with open(TABLE_PATH) as fh:
                _TABLE = json.load(fh)
        except OSError:
            _TABLE = {}
    return _TABLE


def canonicalise(rel, tree, table=None, src=None):
    """rename locals of every function of the module to the reference
    spelling; returns the number of locals renamed.  A file whose text is the
    reference text (digest recorded with the table) needs no work."""
    table = load_table() if table is None else table
    if src is not None and table.get('__digests__', {}).get(rel) == \
            hashlib.sha1(src.encode()).hexdigest():
        return 0
    renamed = 0
    for key, fn in iter_functions(rel, tree):
        ref = table.get(key)
        if not ref:
            continue
        sg = signatures(fn)
        # comprehension variables first (their own scopes)
        for comp, own in comp_signatures(fn, sg):
            cm = {nm: ref[s] for nm, s in own.items()
                  if ref.get(s) is not None and ref[s] != nm}
            if not cm:
                continue
            used = {x.id for x in ast.walk(comp) if isinstance(x, ast.Name)}
            if (used & set(cm.values())) - set(cm):
                continue          # would capture another name: leave alone

            class RC(ast.NodeTransformer):
                def visit_Name(self, n):
                    if n.id in cm:
                        n.id = cm[n.id]
                    return n
            RC().visit(comp)
            renamed += len(cm)
        if not sg:
            continue
        mapping = {}
        for name, s in sg.items():
            want = ref.get(s)
            if want is not None and want != name:
                mapping[name] = want
        if not mapping:
            continue
        # collisions: an untouched name that equals a spelling we are about
        # to hand out (and is not itself renamed away) steps aside
        taken = set(mapping.values())
        others = set()
        for x in ast.walk(fn):
            if isinstance(x, ast.Name):
                others.add(x.id)
            elif isinstance(x, ast.arg):
                others.add(x.arg)
        for nm in sorted((others & taken) - set(mapping)):
            if nm in sg:                       # another local: move it
                mapping[nm] = nm + '__prev'
            else:                              # parameter / global: give up
                for k in [k for k, v in mapping.items() if v == nm]:
                    del mapping[k]
        if not mapping:
            continue

        class R(ast.NodeTransformer):
            def visit_Name(self, n):
                if n.id in mapping:
                    n.id = mapping[n.id]
                return n
        for st in fn.body:
            R().visit(st)
        renamed += len(mapping)
    return renamed

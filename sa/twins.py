"""Whole-package behaviour-preserving transformations (global twins) applied
to a scratch copy; every check must stay silent on each of them.

rename_locals   every function-level local, comprehension variable and lambda
                parameter gets a new spelling
reemit          every file is re-emitted through ast.unparse (comments,
                layout, parentheses and string quoting are lost)
"""
import ast
import os

from . import canon


class _Renamer(ast.NodeTransformer):
    def __init__(self):
        self.maps = []

    def _name(self, s):
        for m in reversed(self.maps):
            if s in m:
                return m[s]
        return s

    def visit_FunctionDef(self, n):
        if self.maps:
            return n            # nested function: left alone
        loc = canon.function_locals(n)
        self.maps.append({x: x + '_q' for x in loc})
        n.body = [self.visit(s) for s in n.body]
        self.maps.pop()
        return n

    def visit_ClassDef(self, n):
        if self.maps:
            return n
        n.body = [self.visit(s) for s in n.body]
        return n

    def visit_Lambda(self, n):
        return n

    def _comp(self, n):
        if not self.maps:
            return n
        # comprehension variables: rename within the comprehension only when
        # the name is not used outside it in the function (kept simple: the
        # new spelling is unique)
        own = {}
        for g in n.generators:
            for x in ast.walk(g.target):
                if isinstance(x, ast.Name) and not any(
                        x.id in m for m in self.maps):
                    own[x.id] = x.id + '_c'
        self.maps.append(own)
        self.generic_visit(n)
        self.maps.pop()
        return n
    visit_ListComp = visit_SetComp = visit_DictComp = visit_GeneratorExp = _comp

    def visit_Name(self, n):
        if self.maps:
            n.id = self._name(n.id)
        return n


def _each_file(root):
    for dp, dn, fns in os.walk(os.path.join(root, 'optiland')):
        for fn in fns:
            if fn.endswith('.py'):
                yield os.path.join(dp, fn)


def rename_locals(root):
    n = 0
    for p in _each_file(root):
        src = open(p, encoding='utf-8').read()
        t = _Renamer().visit(ast.parse(src))
        ast.fix_missing_locations(t)
        out = ast.unparse(t)
        if out != ast.unparse(ast.parse(src)):
            n += 1
        open(p, 'w', encoding='utf-8').write(out + '\n')
    return n


def reemit(root):
    n = 0
    for p in _each_file(root):
        src = open(p, encoding='utf-8').read()
        open(p, 'w', encoding='utf-8').write(ast.unparse(ast.parse(src)) + '\n')
        n += 1
    return n


GLOBAL_TWINS = {'rename-locals': rename_locals, 'reemit': reemit}

"""Whole-package behaviour-preserving transformations (global twins) applied
to a scratch copy; every check must stay silent on each of them.

rename_locals   every function-level local, comprehension variable and lambda
                parameter gets a new spelling
reemit          every file is re-emitted through ast.unparse (comments,
                layout, parentheses and string quoting are lost)
commute_mult    the operands of every product `a * b` change places (no class
                of the package overloads an arithmetic operator; products
                whose two operands both contain a call are left alone, the
                order of evaluation could matter there)
flip_compare    `a < b` becomes `b > a`, `a == b` becomes `b == a` (single
                comparisons; operands that both contain a call left alone)
invert_if       `if c: A else: B` becomes `if not c: B else: A` (two-armed
                statements whose else arm is not an elif chain)
temp_return     `return e` becomes `ret_tmp_ = e; return ret_tmp_` for compound e
dedent_else     `if c: ...return else: R` becomes `if c: ...return` followed by R
indent_else     the reverse: the rest of the block becomes the else arm
expand_ternary  `T = a if c else b` / `return a if c else b` become statements
negate_compare  two-armed `if a is b` / `==` / `in` (and their negations) get
                the negated operator and exchanged arms
"""
import ast
import os

from . import canon


class _Renamer(ast.NodeTransformer):
    def __init__(self):
        self.maps = []

    def _name(self, s):
        for m in reversed(self.maps):
            if s in m:
                return m[s]
        return s

    def visit_FunctionDef(self, n):
        if self.maps:
            return n            # nested function: left alone
        loc = canon.function_locals(n)
        self.maps.append({x: x + '_q' for x in loc})
        n.body = [self.visit(s) for s in n.body]
        self.maps.pop()
        return n

    def visit_ClassDef(self, n):
        if self.maps:
            return n
        n.body = [self.visit(s) for s in n.body]
        return n

    def visit_Lambda(self, n):
        return n

    def _comp(self, n):
        if not self.maps:
            return n
        # comprehension variables: rename within the comprehension only when
        # the name is not used outside it in the function (kept simple: the
        # new spelling is unique)
        own = {}
        for g in n.generators:
            for x in ast.walk(g.target):
                if isinstance(x, ast.Name) and not any(
                        x.id in m for m in self.maps):
                    own[x.id] = x.id + '_c'
        self.maps.append(own)
        self.generic_visit(n)
        self.maps.pop()
        return n
    visit_ListComp = visit_SetComp = visit_DictComp = visit_GeneratorExp = _comp

    def visit_Name(self, n):
        if self.maps:
            n.id = self._name(n.id)
        return n


def _each_file(root):
    for dp, dn, fns in os.walk(os.path.join(root, 'optiland')):
        for fn in fns:
            if fn.endswith('.py'):
                yield os.path.join(dp, fn)


def rename_locals(root):
    n = 0
    for p in _each_file(root):
        src = open(p, encoding='utf-8').read()
        t = _Renamer().visit(ast.parse(src))
        ast.fix_missing_locations(t)
        out = ast.unparse(t)
        if out != ast.unparse(ast.parse(src)):
            n += 1
        open(p, 'w', encoding='utf-8').write(out + '\n')
    return n


def reemit(root):
    n = 0
    for p in _each_file(root):
        src = open(p, encoding='utf-8').read()
        open(p, 'w', encoding='utf-8').write(ast.unparse(ast.parse(src)) + '\n')
        n += 1
    return n


def _has_call(e):
    return any(isinstance(x, (ast.Call, ast.Yield, ast.Await, ast.NamedExpr))
               for x in ast.walk(e))


class _Commute(ast.NodeTransformer):
    def visit_BinOp(self, n):
        self.generic_visit(n)
        if isinstance(n.op, ast.Mult) and not (
                _has_call(n.left) and _has_call(n.right)):
            n.left, n.right = n.right, n.left
        return n


class _FlipCompare(ast.NodeTransformer):
    FLIP = {ast.Lt: ast.Gt, ast.Gt: ast.Lt, ast.LtE: ast.GtE, ast.GtE: ast.LtE,
            ast.Eq: ast.Eq, ast.NotEq: ast.NotEq}

    def visit_Compare(self, n):
        self.generic_visit(n)
        if len(n.ops) == 1 and type(n.ops[0]) in self.FLIP and not (
                _has_call(n.left) and _has_call(n.comparators[0])):
            n.left, n.comparators = n.comparators[0], [n.left]
            n.ops = [self.FLIP[type(n.ops[0])]()]
        return n


class _InvertIf(ast.NodeTransformer):
    def visit_If(self, n):
        self.generic_visit(n)
        if n.orelse and not (len(n.orelse) == 1 and
                             isinstance(n.orelse[0], ast.If)):
            n.test = ast.UnaryOp(ast.Not(), n.test)
            n.body, n.orelse = n.orelse, n.body
        return n


class _TempReturn(ast.NodeTransformer):
    def visit_Lambda(self, n):
        return n

    def _body(self, body):
        out = []
        for s in body:
            s = self.visit(s)
            if isinstance(s, ast.Return) and s.value is not None and \
                    not isinstance(s.value, (ast.Name, ast.Constant)):
                out.append(ast.Assign([ast.Name('ret_tmp_', ast.Store())],
                                      s.value))
                out.append(ast.Return(ast.Name('ret_tmp_', ast.Load())))
            else:
                out.append(s)
        return out

    def generic_visit(self, n):
        for fld in ('body', 'orelse', 'finalbody'):
            b = getattr(n, fld, None)
            if isinstance(b, list) and b and isinstance(b[0], ast.stmt):
                setattr(n, fld, self._body(b))
        for h in getattr(n, 'handlers', []) or []:
            h.body = self._body(h.body)
        return n


class _NegateCompare(ast.NodeTransformer):
    NEG = {ast.IsNot: ast.Is, ast.NotEq: ast.Eq, ast.NotIn: ast.In,
           ast.Is: ast.IsNot, ast.Eq: ast.NotEq, ast.In: ast.NotIn}

    def visit_If(self, n):
        self.generic_visit(n)
        if n.orelse and not (len(n.orelse) == 1 and
                             isinstance(n.orelse[0], ast.If)) and \
                isinstance(n.test, ast.Compare) and len(n.test.ops) == 1 \
                and type(n.test.ops[0]) in self.NEG:
            n.test.ops = [self.NEG[type(n.test.ops[0])]()]
            n.body, n.orelse = n.orelse, n.body
        return n


class _Fn:
    """adapter: a function of canon applied to the whole module"""
    def __init__(self, f):
        self.f = f

    def __call__(self):
        return self

    def visit(self, tree):
        return self.f(tree)


def _transform(cls):
    def run(root):
        n = 0
        for p in _each_file(root):
            src = open(p, encoding='utf-8').read()
            t = cls().visit(ast.parse(src))
            ast.fix_missing_locations(t)
            out = ast.unparse(t)
            if out != ast.unparse(ast.parse(src)):
                n += 1
            open(p, 'w', encoding='utf-8').write(out + '\n')
        return n
    return run


GLOBAL_TWINS = {'rename-locals': rename_locals, 'reemit': reemit,
                'commute-mult': _transform(_Commute),
                'flip-compare': _transform(_FlipCompare),
                'invert-if': _transform(_InvertIf),
                'temp-return': _transform(_TempReturn),
                'dedent-else': _transform(_Fn(canon.flatten_else)),
                'indent-else': _transform(_Fn(canon.absorb_else)),
                'expand-ternary': _transform(_Fn(canon.expand_ifexp)),
                'negate-compare': _transform(_NegateCompare)}

"""Static analysis framework for the optiland properties (see /verif/DESIGN.md)."""

"""C02 defect 2: Chebyshev surface normal ignores the 1/norm_x, 1/norm_y chain
rule factors, so refraction does not obey Snell's law on the prescribed shape
whenever norm_x or norm_y != 1.

The normal used in the independent check is obtained from the library's own
`geometry.sag` by central finite differences (a second path through the API),
and also from numpy's Chebyshev derivative.
"""
import sys
import warnings
import numpy as np
from numpy.polynomial import chebyshev as Ch
from optiland.optic import Optic
from optiland.materials import IdealMaterial

warnings.simplefilter('ignore')
WL = 0.55
N_GLASS = 1.5
COEFFS = [[0, 0, 1e-2], [0, 2e-2, 0], [1e-2, 0, 0]]
NORM = 10.0

o = Optic()
o.add_surface(index=0, radius=np.inf, thickness=np.inf)
o.add_surface(index=1, surface_type='chebyshev', radius=100.0, conic=0.0,
              thickness=5, material=IdealMaterial(n=N_GLASS), is_stop=True,
              coefficients=COEFFS, norm_x=NORM, norm_y=NORM)
o.add_surface(index=2, radius=-100, thickness=90)
o.add_surface(index=3)
o.set_aperture('EPD', 10)
o.set_field_type('angle')
o.add_field(y=0)
o.add_field(y=5)
o.add_wavelength(WL, is_primary=True)
o.trace(0, 1, WL, num_rays=6, distribution='hexapolar')

s0, s1 = o.surface_group.surfaces[0], o.surface_group.surfaces[1]
g = s1.geometry
x, y, z = s1.x, s1.y, s1.z            # surface 1 vertex at origin, untilted
d_in = np.stack([s0.L, s0.M, s0.N], 1)
d_out = np.stack([s1.L, s1.M, s1.N], 1)

# 1. the point is on the prescribed surface (this part is fine)
on_surface = np.max(np.abs(z - g.sag(x, y)))

# 2. normal from finite differences of the library's own sag
h = 1e-5
zx = (g.sag(x + h, y) - g.sag(x - h, y)) / (2 * h)
zy = (g.sag(x, y + h) - g.sag(x, y - h)) / (2 * h)
n_fd = np.stack([zx, zy, -np.ones_like(zx)], 1)
n_fd /= np.linalg.norm(n_fd, axis=1)[:, None]

# 3. normal from numpy's analytic Chebyshev derivative
c = np.asarray(COEFFS, float)
r2 = x**2 + y**2
root = np.sqrt(1 - r2 / 100.0**2)
zx_a = x / (100.0 * root) + Ch.chebval2d(x / NORM, y / NORM, Ch.chebder(c, axis=0)) / NORM
zy_a = y / (100.0 * root) + Ch.chebval2d(x / NORM, y / NORM, Ch.chebder(c, axis=1)) / NORM
n_an = np.stack([zx_a, zy_a, -np.ones_like(zx_a)], 1)
n_an /= np.linalg.norm(n_an, axis=1)[:, None]

# 4. normal the library used
nx, ny, nz = g._surface_normal(x, y)
n_lib = np.stack([nx, ny, nz], 1)

snell_fd = np.max(np.linalg.norm(1.0 * np.cross(d_in, n_fd) - N_GLASS * np.cross(d_out, n_fd), axis=1))
snell_an = np.max(np.linalg.norm(1.0 * np.cross(d_in, n_an) - N_GLASS * np.cross(d_out, n_an), axis=1))
ang = np.degrees(np.max(np.arccos(np.clip(np.abs(np.sum(n_lib * n_an, 1)), -1, 1))))

print(f'max |z - sag(x,y)|                               : {on_surface:.3e} mm')
print(f'max angle between library normal and true normal : {ang:.4f} deg   (expected ~0)')
print(f'max |n1 d_in x n - n2 d_out x n| (FD normal)     : {snell_fd:.3e}   (expected < 1e-8)')
print(f'max |n1 d_in x n - n2 d_out x n| (analytic normal): {snell_an:.3e}   (expected < 1e-12)')
print(f'agreement of the two independent normals          : {np.max(np.abs(n_fd - n_an)):.2e}')

if snell_an > 1e-9:
    print('FAIL: Snell\'s law is violated on the prescribed Chebyshev surface')
    sys.exit(1)
print('PASS')

"""C18 defect 5: formula 6 (gases) - scalar and array wavelength arguments do
not agree when the wavelength is an integer number of microns.

n(1) and n(2) (Python ints) work, n(np.array([1.0, 2.0])) works, but the array
form with integer dtype - np.array([1, 2]), np.arange(1, 3), np.int64(1) -
raises "Integers to negative integer powers are not allowed".  All other
eight formulas and both tabulated forms accept the same arguments.

Independent path: own evaluation of refractiveindex.info formula 6
    n - 1 = C1 + sum_i C_i / (C_{i+1} - w^-2)
"""
import io
import contextlib
import os

import numpy as np
import yaml

import optiland
from optiland.materials import Material

ROOT = os.path.join(os.path.dirname(os.path.dirname(optiland.__file__)),
                    'database', 'data-nk')


def own_formula6(filename, w):
    with open(os.path.join(ROOT, filename), encoding='utf-8') as f:
        data = yaml.safe_load(f)
    blk = [b for b in data['DATA'] if b['type'] == 'formula 6'][0]
    c = [float(x) for x in blk['coefficients'].split()]
    w = float(w)
    return 1 + c[0] + sum(c[i] / (c[i + 1] - 1.0 / (w * w))
                          for i in range(1, len(c) - 1, 2))


CASES = [('Peck and Reeder 1972: n 0.185–1.7 µm', None, (1,)),          # air
         ('H2', 'Peck', (1,)),
         ('N2', 'Peck', (1, 2)),
         ('He', 'Mansfield', (1, 2)),
         # control: a formula-2 glass takes integer arrays happily
         ('N-BK7', 'schott', (1, 2))]

failures = []
for name, ref, wl in CASES:
    with contextlib.redirect_stdout(io.StringIO()):
        m = Material(name, ref)
    md = m.material_data
    assert all(md['min_wavelength'] <= w <= md['max_wavelength'] for w in wl)
    print(f"{md['filename']} ({m._n_formula}) range "
          f"[{md['min_wavelength']}, {md['max_wavelength']}] um")
    scalars = [float(m.n(w)) for w in wl]                 # Python int scalars
    float_arr = m.n(np.array(wl, dtype=float))
    if m._n_formula == 'formula 6':
        exp = [own_formula6(md['filename'], w) for w in wl]
        assert np.allclose(scalars, exp, rtol=1e-12, atol=0)
    print(f'   scalar  n({list(wl)})            = {scalars}')
    print(f'   array   n(np.array({list(wl)}.0)) = {float_arr}')
    try:
        int_arr = m.n(np.array(wl))
        print(f'   array   n(np.array({list(wl)}))   = {int_arr}')
        if not np.allclose(int_arr, scalars, rtol=1e-12, atol=0):
            failures.append((name, 'values differ'))
    except Exception as e:             # noqa
        print(f'   array   n(np.array({list(wl)}))   raised '
              f'{type(e).__name__}: {e}')
        failures.append((name, f'{type(e).__name__}: {e}'))

print()
for f in failures:
    print('FAIL', f)
assert not failures, 'scalar and array wavelength arguments disagree'

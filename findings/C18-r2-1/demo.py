"""C18 / 1 - Material(name, reference): an entry whose reference merely CONTAINS
the requested reference wins over the entry whose reference IS the requested one.

Material('NaI', 'Li') / Material('CaF2', 'Li') must return the H. H. Li entries
(main/NaI/Li.yml, main/CaF2/Li.yml).  The index is checked against an independent
evaluation of the Sellmeier formula (formula 1) with the coefficients copied from
those data files.
"""
import io
import sys
import contextlib
import numpy as np
from optiland.materials import Material


def sellmeier1(c, w):
    # refractiveindex.info formula 1: n^2 - 1 = C1 + sum C_i w^2 / (w^2 - C_{i+1}^2)
    s = 1.0 + c[0]
    for i in range(1, len(c), 2):
        s += c[i] * w**2 / (w**2 - c[i + 1]**2)
    return np.sqrt(s)


# coefficients as printed in database/data-nk/main/<cat>/Li.yml
CASES = [
    ('NaI', 'Li', 'main/NaI/Li.yml',
     [0.478, 1.532, 0.170, 4.27, 86.21], [0.3, 0.5, 10.0, 30.0]),
    ('CaF2', 'Li', 'main/CaF2/Li.yml',
     [0.33973, 0.69913, 0.09374, 0.11994, 21.18, 4.35181, 38.46],
     [0.2, 1.0, 11.0]),
]

bad = 0
for name, ref, expected_file, coeff, wavelengths in CASES:
    with contextlib.redirect_stdout(io.StringIO()):
        m = Material(name, ref)
    d = m.material_data
    print(f"Material({name!r}, {ref!r}) -> reference={d['reference']!r} "
          f"file={d['filename']!r} (expected reference={ref!r} "
          f"file={expected_file!r})")
    if d['reference'] != ref or d['filename'] != expected_file:
        bad += 1
    for w in wavelengths:
        got = float(m.n(w))
        exp = float(sellmeier1(coeff, w))
        flag = '' if abs(got - exp) < 1e-9 else '   <-- WRONG'
        print(f"   n({w:5.1f} um): library {got:.9f}   Li formula {exp:.9f}"
              f"   diff {got - exp:+.3e}{flag}")
        if flag:
            bad += 1

if bad:
    print(f"FAIL: {bad} deviations")
    sys.exit(1)
print("OK")
sys.exit(0)

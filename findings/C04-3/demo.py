"""C04 defect 3: paraxial rays are refracted AT THE IMAGE PLANE, so every
image-space quantity is wrong when the image space is not air.

The image surface is created by the factory as an ordinary `Surface` whose
material_post defaults to air.  Surface._trace_paraxial() therefore applies
u' = n u / 1 at the (flat, powerless) image plane and records the slope AFTER
that spurious refraction.  f2(), F2(), XPL() (hence P2, N1, N2, FNO, and the
u returned at the image surface by marginal_ray()/chief_ray()) use that slope.
The bundled Microscope20x (image inside an N-K5 cover glass) and
UVReflectingMicroscope samples are affected.

Run:  PYTHONPATH=/tmp/hunt/C04 /venv/bin/python demo.py
"""
import warnings
import numpy as np
from optiland.optic import Optic
from optiland.materials import IdealMaterial
from optiland.samples.microscopes import Microscope20x

warnings.simplefilter('ignore')
fails = []


def check(name, got, exp, tol=1e-7):
    ok = abs(got - exp) <= tol * max(1.0, abs(exp))
    print('  %-26s library % .9f   expected % .9f   %s'
          % (name, got, exp, 'ok' if ok else 'MISMATCH'))
    if not ok:
        fails.append(name)


# ------------------------------------------------------------------
# (a) singlet focusing into water, own ABCD on (y, n*u)
# ------------------------------------------------------------------
R1, R2, T, NG, NW, BFD = 50.0, -50.0, 5.0, 1.5, 1.33, 45.0
o = Optic()
o.add_surface(index=0, thickness=np.inf)
o.add_surface(index=1, radius=R1, thickness=T, material=IdealMaterial(NG),
              is_stop=True)
o.add_surface(index=2, radius=R2, thickness=BFD, material=IdealMaterial(NW))
o.add_surface(index=3)                       # image plane, in the water
o.set_aperture('EPD', 10.0)
o.set_field_type('angle')
o.add_field(y=0)
o.add_field(y=5)
o.add_wavelength(0.55, is_primary=True)


def refr(n1, n2, R):
    return np.array([[1.0, 0.0], [-(n2 - n1) / R, 1.0]])


def trans(t, n):
    return np.array([[1.0, t / n], [0.0, 1.0]])


M = refr(NG, NW, R2) @ trans(T, NG) @ refr(1.0, NG, R1)
A, B, C, D = M.ravel()
f2_ref = NW / (-C)                      # n'/Phi
F2_ref = -A * NW / C - BFD              # focal point relative to image plane
# exit pupil: image of the stop centre (surface 1) through surface 2
Mb = refr(NG, NW, R2) @ trans(T, NG)
XPL_ref = -Mb[0, 1] * NW / Mb[1, 1] - BFD

print('(a) biconvex singlet, image space n = %.2f, default image surface' % NW)
px = o.paraxial
check('f2', px.f2(), f2_ref)
check('F2 (rel. image plane)', px.F2(), F2_ref)
check('XPL (rel. image plane)', px.XPL(), XPL_ref)
ya, ua = px.marginal_ray()
print('     marginal slope in image space: after last lens surface % .6f, '
      'returned at the image surface % .6f' % (ua[-2][0], ua[-1][0]))

# ------------------------------------------------------------------
# (b) bundled sample Microscope20x: image lies inside N-K5
# ------------------------------------------------------------------
m = Microscope20x()
px = m.paraxial
w = m.primary_wavelength
n_img = float(m.surface_group.surfaces[-2].material_post.n(w))
# independent: the library's own rays in the last real medium (recorded after
# the last lens surface), carried to the image plane by hand
yb, ub = px.chief_ray()
ya, ua = px.marginal_ray()
t_last = float(m.surface_group.get_thickness(m.surface_group.num_surfaces - 2)[0])
yb_img = yb[-2][0] + ub[-2][0] * t_last
XPL_ind = -yb_img / ub[-2][0]           # where the chief ray crosses the axis
f2_ind = -ya[1][0] / ua[-2][0]          # object at infinity: f' = -y1/u'
# near-axis REAL ray as a third opinion for the back focal point
m.trace_generic(0.0, 0.0, 0.0, 1e-3, w)
sg = m.surface_group
z_img = float(sg.positions[-1][0])
slope = sg.M[-2, 0] / sg.N[-2, 0]         # direction inside the last medium
y_r = sg.y[-2, 0] + slope * (z_img - sg.z[-2, 0])
F2_real = -y_r / slope

print('(b) Microscope20x sample, image-space index %.5f' % n_img)
check('f2', px.f2(), f2_ind)
check('XPL (rel. image plane)', px.XPL(), XPL_ind)
check('F2 vs near-axis real ray', px.F2(), F2_real, tol=1e-4)
print('     ratio expected/library for f2: %.5f (= image-space index)'
      % (f2_ind / px.f2()))

assert not fails, 'image-space paraxial data differ from matrix optics: %s' \
    % fails

"""C01 / 6 - marginal-ray-height solve / image_solve on a lens with an even
asphere whose r^2 coefficient is non-zero

EvenAsphere sag:  z = r^2 / (R (1 + sqrt(1 - (1+k) r^2 / R^2))) + C0 r^2 + C1 r^4 ...
The vertex curvature of that surface is 1/R + 2 C0.  The reference below is a
y-nu trace with that curvature; the result is cross-checked with a real ray
1 um off the axis.
"""
import sys
import warnings
import numpy as np
warnings.simplefilter('ignore')
from optiland.optic import Optic
from optiland.materials import IdealMaterial

R1, C0, N, T, EPD = 50.0, 1e-3, 1.5, 5.0, 10.0

o = Optic()
o.add_surface(index=0, thickness=np.inf)
o.add_surface(index=1, surface_type='even_asphere', thickness=T, radius=R1,
              conic=0.0, coefficients=[C0, 0.0], material=IdealMaterial(N),
              is_stop=True)
o.add_surface(index=2, thickness=80.0)
o.add_surface(index=3)
o.set_aperture('EPD', EPD)
o.set_field_type('angle')
o.add_field(0)
o.add_wavelength(0.55, is_primary=True)

o.solves.add('marginal_ray_height', 3, 0.0)     # image at the paraxial focus
o.update()
z_img = float(o.surface_group.positions[3][0])


def ynu_height_at(z_image, c1):
    y, u = EPD / 2, 0.0
    u = (u - y * (N - 1) * c1) / N          # asphere, vertex curvature c1
    y = y + T * u
    u = N * u                                # flat rear surface into air
    return y + (z_image - T) * u, T - y / u


h_ref, z_focus = ynu_height_at(z_img, 1 / R1 + 2 * C0)
print('image surface placed by the solve at z =', z_img)
print('paraxial focus for vertex curvature 1/R + 2*C0   z =', z_focus)
print('marginal ray height on the image surface: requested 0, '
      f'independent y-nu {h_ref:.6f}')

# cross-check with a real ray 1 um from the axis (scaled to the full pupil)
rays = o.trace_generic(0.0, 0.0, 0.0, 2e-4, 0.55)
h_real = float(rays.y[0]) / 2e-4
print(f'real ray at 1 um, scaled to the pupil edge: {h_real:.6f}')

if abs(h_ref) > 1e-6:
    print(f'VIOLATION: after update() the paraxial marginal ray is at '
          f'{h_ref:.4f} on the solved surface (requested 0); image '
          f'{z_img - z_focus:.4f} mm from the paraxial focus')
    sys.exit(1)
print('OK')
sys.exit(0)

"""C12 / defect 6: PupilAberration is NaN everywhere whenever the aperture stop
is the first surface of a lens with an object at infinity (the most common
layout; 7 of the shipped samples).  The paraxial reference ray is launched by
Paraxial.trace with slope (y1 - y0)/(EPL - z0) = 0/0.

Run:  PYTHONPATH=/tmp/hunt/C12 /venv/bin/python demo.py
"""
import sys
import warnings
import numpy as np
from optiland.analysis import PupilAberration
from optiland.samples.simple import TelescopeDoublet, CementedAchromat
from optiland.samples.objectives import CookeTriplet

warnings.simplefilter('ignore')
failures = []


def paraxial_stop_height(lens, Py, wl):
    """own y-nu trace of an axial ray (object at infinity) entering at
    height Py*EPD/2, up to the stop surface."""
    z = lens.surface_group.positions.flatten()
    R = lens.surface_group.radii
    n = lens.n(wl)
    stop = lens.surface_group.stop_index
    y = Py * lens.paraxial.EPD() / 2
    u = np.zeros_like(y)
    for k in range(1, stop + 1):
        if k > 1:
            y = y + u * (z[k] - z[k - 1])
        if k == stop:
            return y
        power = 0.0 if np.isinf(R[k]) else (n[k] - n[k - 1]) / R[k]
        u = (n[k - 1] * u - y * power) / n[k]


def independent_pupil_aberration(lens, field, wl, n):
    """(paraxial - real) y at the stop, in % of the paraxial stop radius."""
    stop = lens.surface_group.stop_index
    P = np.linspace(-1, 1, n)
    wl0 = lens.primary_wavelength
    d = paraxial_stop_height(lens, np.array([1.0]), wl0)[0]
    parax = paraxial_stop_height(lens, P, wl0)
    lens.trace_generic(field[0], field[1], np.zeros(n), P, wl)
    real_y = lens.surface_group.y[stop, :]
    return (parax - real_y) / d * 100


for cls in [CookeTriplet, TelescopeDoublet, CementedAchromat]:
    lens = cls()
    n = 5
    pa = PupilAberration(lens, num_points=n)
    field = pa.fields[-1]
    wl = pa.wavelengths[0]
    got = pa.data[f'{field}'][f'{wl}']['y']
    exp = independent_pupil_aberration(lens, field, wl, n)
    ok = np.allclose(got, exp, rtol=1e-6, atol=1e-9)
    print(f'[{"ok" if ok else "FAIL"}] {cls.__name__} (stop = surface '
          f'{lens.surface_group.stop_index}) field {field} wl {wl}\n'
          f'       observed: {got}\n       expected: {exp}')
    if not ok:
        failures.append(cls.__name__)

if failures:
    print(f'\n{len(failures)} check(s) failed: {failures}')
    sys.exit(1)
print('all checks passed')

"""C09 / 3 - image-space telecentric lens: every reported OPD is NaN.

Plano-convex lens (R = 25, n = 1.5, f = 50, curved side towards the object)
with the aperture stop in its front focal plane, 50 mm in front of the vertex:
the textbook image-space telecentric arrangement.  The exit pupil is at
infinity; in the limit R -> infinity of the reference sphere the difference
(chief path - ray path) stays finite:
    OPD * wavelength = opl_chief - opl_ray + n_image * (P_ray - P_chief) . d_ray
The library returns NaN for all samples (also for the chief ray, which has to
be exactly 0) although it handles a stop at 49.99 or 50.0001 mm.
"""
import sys
import warnings
import numpy as np
from optiland.optic import Optic
from optiland.materials import IdealMaterial
from optiland.wavefront import Wavefront, OPD
from optiland.distribution import create_distribution

warnings.filterwarnings('ignore')
WL, EPD, FIELD, NG = 0.55, 5.0, 5.0, 1.5
ZIMG = 102.0


def build(d_stop):
    lens = Optic()
    lens.add_surface(index=0, thickness=np.inf)
    lens.add_surface(index=1, radius=np.inf, thickness=d_stop, is_stop=True)
    lens.add_surface(index=2, radius=25, thickness=6,
                     material=IdealMaterial(NG))
    lens.add_surface(index=3, radius=np.inf, thickness=ZIMG - d_stop - 6)
    lens.add_surface(index=4)
    lens.set_aperture('EPD', EPD)
    lens.set_field_type('angle')
    lens.add_field(0.0)
    lens.add_field(FIELD)
    lens.add_wavelength(WL, is_primary=True)
    return lens


def own_trace(px, py, d_stop):
    """own real-ray trace; returns image points, directions, optical paths
    measured from the plane wavefront through the origin"""
    f = np.radians(FIELD)
    d0 = np.array([0.0, np.sin(f), np.cos(f)])
    px = np.atleast_1d(np.asarray(px, float))
    py = np.atleast_1d(np.asarray(py, float))
    P = np.stack([px * EPD / 2, py * EPD / 2, np.zeros_like(px)], axis=1)
    d = np.tile(d0, (len(px), 1))
    opl = P @ d0
    n = 1.0
    zimg = ZIMG
    for zs, R, n2 in ((d_stop, 25.0, NG), (d_stop + 6, np.inf, 1.0)):
        if np.isinf(R):
            t = (zs - P[:, 2]) / d[:, 2]
            P = P + t[:, None] * d
            nrm = np.tile([0.0, 0.0, 1.0], (len(P), 1))
        else:
            cen = np.array([0, 0, zs + R])
            q = P - cen
            b = np.sum(q * d, axis=1)
            c = np.sum(q * q, axis=1) - R * R
            t = -b - np.sign(R) * np.sqrt(b * b - c)
            P = P + t[:, None] * d
            nrm = (P - cen) / R
        opl = opl + n * t
        cosi = np.sum(nrm * d, axis=1)
        nrm = nrm * np.sign(cosi)[:, None]
        cosi = np.abs(cosi)
        mu = n / n2
        d = mu * d + (np.sqrt(1 - mu**2 * (1 - cosi**2)) - mu * cosi)[:, None] * nrm
        n = n2
    t = (zimg - P[:, 2]) / d[:, 2]
    return P + t[:, None] * d, d, opl + n * t


def reference_opd(px, py, d_stop, xpl):
    Pc, dc, oc = own_trace(0.0, 0.0, d_stop)
    P, d, o = own_trace(px, py, d_stop)
    q = P - Pc[0]
    bq = np.sum(q * d, axis=1)
    if np.isinf(xpl):
        s_plus_R = -bq                       # limit R -> infinity
    else:
        R = np.linalg.norm(Pc[0] - [0, 0, ZIMG + xpl])
        w = bq * bq - np.sum(q * q, axis=1)
        s_plus_R = -bq - w / (np.sqrt(w + R * R) + R)
    return (oc - o - s_plus_R) / (WL * 1e-3)


dist = create_distribution('hexapolar')
dist.generate_points(3)
bad = False
for d_stop, xpl in ((49.99, -250000.0), (50.0, -np.inf), (50.0001, 25e6)):
    lens = build(d_stop)
    lib = Wavefront(lens, fields=[(0.0, 1.0)], wavelengths=[WL], num_rays=3,
                    distribution=dist).data[0][0][0]
    ref = reference_opd(dist.x, dist.y, d_stop, xpl)
    rms = OPD(lens, (0.0, 1.0), WL, num_rings=3).rms()
    with np.errstate(all='ignore'):
        err = np.max(np.abs(lib - ref))
    print(f'stop {d_stop} mm in front: XPL library {lens.paraxial.XPL():.6g}; '
          f'chief OPD library {lib[0]}, expected 0; RMS library {rms:.6f}, '
          f'expected {np.sqrt(np.mean(ref**2)):.6f}; NaN samples '
          f'{np.isnan(lib).sum()} of {lib.size}; max deviation {err:.3e}')
    if not (err < 1e-5):
        bad = True
if bad:
    print('VIOLATED: OPD of the image-space telecentric lens is NaN')
    sys.exit(1)
print('property holds')
sys.exit(0)

"""C04 defect 1: Paraxial.f2() discards the sign of the focal length.

A negative (biconcave) singlet in air has a NEGATIVE effective focal length.
The library returns +|f| because f2() wraps its result in np.abs(); P2 and N1
(and FNO, and EPD for the 'imageFNO' aperture) inherit the error.

Run:  PYTHONPATH=/tmp/hunt/C04 /venv/bin/python demo.py
"""
import numpy as np
from optiland.optic import Optic
from optiland.materials import IdealMaterial

R1, R2, T, N, BFD = -50.0, 50.0, 5.0, 1.5, 45.0


def build(ap=('EPD', 10.0)):
    o = Optic()
    o.add_surface(index=0, thickness=np.inf)
    o.add_surface(index=1, radius=R1, thickness=T, material=IdealMaterial(N),
                  is_stop=True)
    o.add_surface(index=2, radius=R2, thickness=BFD)
    o.add_surface(index=3)
    o.set_aperture(*ap)
    o.set_field_type('angle')
    o.add_field(y=0)
    o.add_field(y=5)
    o.add_wavelength(0.55, is_primary=True)
    return o


# ---- independent ABCD (acting on (y, n*u)) -------------------------------
def refr(n1, n2, R):
    return np.array([[1.0, 0.0], [-(n2 - n1) / R, 1.0]])


def trans(t, n):
    return np.array([[1.0, t / n], [0.0, 1.0]])


M = refr(N, 1.0, R2) @ trans(T, N) @ refr(1.0, N, R1)
A, B, C, D = M.ravel()
f2_ref = -1.0 / C                 # n'/Phi with n' = 1, Phi = -C
F2_ref = -A / C - BFD             # back focal point relative to image plane
P2_ref = F2_ref - f2_ref
f1_ref = 1.0 / C                  # -n/Phi
F1_ref = D / C
N1_ref = (F1_ref - f1_ref) + f1_ref + f2_ref

o = build()
px = o.paraxial
got = dict(f2=px.f2(), P2=px.P2(), N1=px.N1())
exp = dict(f2=f2_ref, P2=P2_ref, N1=N1_ref)

# second path through the API: the returned marginal ray itself
ya, ua = px.marginal_ray()
f2_from_marginal = float(-ya[1][0] / ua[-1][0])

print('biconcave singlet R1=%g R2=%g t=%g n=%g' % (R1, R2, T, N))
fails = []
for k in exp:
    ok = abs(got[k] - exp[k]) <= 1e-9 * max(1, abs(exp[k]))
    print('  %-4s library % .9f   ABCD % .9f   %s'
          % (k, got[k], exp[k], 'ok' if ok else 'MISMATCH'))
    if not ok:
        fails.append(k)
print('  f2 from the library\'s own marginal ray (-y1/u_img): % .9f'
      % f2_from_marginal)
print('  f1 (library) % .9f  -> f1 = -f2 must hold in air, f2 should be % .9f'
      % (px.f1(), -px.f1()))

print('  (P2 is measured from the image plane at z=%g: the true rear principal\n'
      '   plane lies inside the lens, %.3f mm in front of the last vertex)'
      % (T + BFD, -(P2_ref + BFD)))

assert not fails, 'paraxial quantities differ from ABCD matrix optics: %s' \
    % fails

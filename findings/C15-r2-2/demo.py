"""C15 / 2 - compensator values are recorded in the optimiser's scaled units.

A singlet is toleranced on its front radius with the image distance as the
compensator (refocus so that the marginal ray crosses the axis on the image
surface).  The value recorded for the compensator in every trial must be the
image distance of the compensated lens, so that perturbation + compensator
values applied to a fresh copy of the nominal lens reproduce the recorded
operand values.

Reference: own exact meridional trace (numpy only).
"""
import sys
import warnings
import numpy as np

warnings.filterwarnings('ignore')

from optiland import optic
from optiland.materials import IdealMaterial
from optiland.tolerancing import (Tolerancing, SensitivityAnalysis,
                                  RangeSampler, ScalarSampler)
from optiland.tolerancing.monte_carlo import MonteCarlo

N = 1.5
T = 5.0
BFD = 45.0
R1 = 50.0
R2 = -50.0
EPD = 10.0


def make_lens():
    o = optic.Optic()
    o.add_surface(index=0, thickness=np.inf)
    o.add_surface(index=1, thickness=T, radius=R1, is_stop=True,
                  material=IdealMaterial(n=N))
    o.add_surface(index=2, thickness=BFD, radius=R2)
    o.add_surface(index=3)
    o.set_aperture('EPD', EPD)
    o.set_field_type('angle')
    o.add_field(0)
    o.add_wavelength(0.55, is_primary=True)
    return o


# ---------------------------------------------------------------- reference
def refract(d, nrm, n1, n2):
    mu = n1 / n2
    cosi = -np.dot(d, nrm)
    sin2t = mu ** 2 * (1 - cosi ** 2)
    return mu * d + (mu * cosi - np.sqrt(1 - sin2t)) * nrm


def sphere_hit(p, d, zv, r):
    c = np.array([0.0, zv + r])
    oc = p - c
    b = np.dot(oc, d)
    disc = b * b - (np.dot(oc, oc) - r * r)
    s = -b - np.sqrt(disc) if r > 0 else -b + np.sqrt(disc)
    q = p + s * d
    nrm = (q - c) / r
    if nrm[1] > 0:
        nrm = -nrm
    return q, nrm


def after_lens(r1):
    p = np.array([EPD / 2, -10.0])
    d = np.array([0.0, 1.0])
    p, nrm = sphere_hit(p, d, 0.0, r1)
    d = refract(d, nrm, 1.0, N)
    p, nrm = sphere_hit(p, d, T, R2)
    d = refract(d, nrm, N, 1.0)
    return p, d


def focus_distance(r1):
    """distance from the vertex of surface 2 to the axis crossing of the
    marginal ray"""
    p, d = after_lens(r1)
    return p[1] - p[0] * d[1] / d[0] - T


def height_at(r1, image_distance):
    p, d = after_lens(r1)
    s = (T + image_distance - p[1]) / d[1]
    return (p + s * d)[0]


# ------------------------------------------------------------------- checks
bad = 0


def analyse(kind):
    global bad
    o = make_lens()
    t = Tolerancing(o)
    t.add_operand('real_y_intercept',
                  {'optic': o, 'surface_number': -1, 'Hx': 0, 'Hy': 0,
                   'Px': 0, 'Py': 1, 'wavelength': 0.55}, target=0.0)
    t.add_compensator('thickness', surface_number=2)
    if kind == 'sensitivity':
        t.add_perturbation('radius', RangeSampler(45.0, 55.0, 3),
                           surface_number=1)
        a = SensitivityAnalysis(t)
        a.run()
        col = 'perturbation_value'
    else:
        t.add_perturbation('radius', ScalarSampler(45.0), surface_number=1)
        a = MonteCarlo(t)
        a.run(1)
        col = 'Radius of Curvature, Surface 1'
    df = a.get_results()
    for _, row in df.iterrows():
        v = row[col]
        y_rec = row['0: real y intercept']
        c_rec = row['C0: Thickness, Surface 2']
        c_exp = focus_distance(v)
        # the recorded perturbation and compensator values applied to a
        # fresh copy of the nominal lens (own trace)
        y_fresh = height_at(v, c_rec)
        ok_c = abs(c_rec - c_exp) < 1e-2
        ok_y = abs(y_fresh - y_rec) < 1e-3
        print(f'{kind:12s} R1={v:5.1f}  recorded image distance={c_rec: .5f}  '
              f'expected={c_exp: .5f}  {"ok" if ok_c else "VIOLATION"}')
        print(f'{"":12s}           recorded operand={y_rec: .6f}  operand of '
              f'the fresh lens with the recorded values={y_fresh: .6f}  '
              f'{"ok" if ok_y else "VIOLATION"}')
        bad += (not ok_c) + (not ok_y)


analyse('sensitivity')
analyse('monte carlo')
sys.exit(1 if bad else 0)

"""C11 defect 5: FFT MTF frequency step assumes num_rays intervals across the
pupil, there are num_rays - 1.

The pupil is sampled at np.linspace(-1, 1, num_rays): the diameter EPD spans
num_rays - 1 sample intervals, so the pupil pitch is EPD / (num_rays - 1).
|FFT(PSF)| is the autocorrelation of the sampled pupil; its k-th sample is a
pupil shear of k pitches, i.e. the spatial frequency

    nu_k = k * EPD / ((num_rays - 1) * lambda * f) = k / ((num_rays - 1) * lambda * FNO)

The library reports k / (num_rays * lambda * FNO). For an unaberrated circular
pupil the MTF must equal (2/pi)(phi - cos phi sin phi), cos phi = nu/nu_cutoff,
to within sampling error, at the reported frequencies.
"""
import sys
import numpy as np
from scipy.optimize import minimize_scalar
from optiland import optic
from optiland.mtf import FFTMTF


def paraboloid():
    lens = optic.Optic()
    lens.add_surface(index=0, thickness=np.inf)
    lens.add_surface(index=1, radius=-200, conic=-1, thickness=-100,
                     material='mirror', is_stop=True)
    lens.add_surface(index=2)
    lens.set_aperture('EPD', 20)
    lens.set_field_type('angle')
    lens.add_field(y=0)
    lens.add_wavelength(0.55, is_primary=True)
    return lens


def ideal(nu, cutoff):
    phi = np.arccos(np.clip(nu / cutoff, 0, 1))
    return 2 / np.pi * (phi - np.cos(phi) * np.sin(phi))


lens = paraboloid()
wavelength_mm = 0.55e-3
fno = 100 / 20                       # f / EPD of the paraboloid
cutoff = 1 / (wavelength_mm * fno)   # 363.64 cycles/mm
fail = False
print(' n    grid  err(lib axis)  err(k/((n-1) lam F))  fitted axis scale  '
      'n/(n-1)')
for n, g in [(16, 64), (32, 128), (64, 256), (128, 512), (256, 1024)]:
    m = FFTMTF(lens, fields=[(0, 0)], num_rays=n, grid_size=g)
    assert abs(m.max_freq - cutoff) < 1e-6 * cutoff
    tangential = m.mtf[0][0]
    # x-data exactly as FFTMTF.view() builds it
    freq_lib = np.arange(g // 2) * m._get_mtf_units()
    # independent x-data from the pupil pitch
    freq_own = np.arange(g // 2) / ((n - 1) * wavelength_mm * fno)
    err_lib = np.max(np.abs(tangential - ideal(freq_lib, cutoff)))
    err_own = np.max(np.abs(tangential - ideal(freq_own, cutoff)))
    # by which factor must the reported axis be stretched to fit the analytic
    # curve best?  1 => axis right
    res = minimize_scalar(
        lambda s: np.sum((tangential - ideal(s * freq_lib, cutoff))**2),
        bounds=(0.8, 1.2), method='bounded', options={'xatol': 1e-10})
    scale = res.x
    print(f'{n:3d}  {g:5d}   {err_lib:.5f}        {err_own:.5f}             '
          f'{scale:.5f}          {n / (n - 1):.5f}')
    # tolerance: half a pupil sample of axis scale error
    if abs(scale - 1) > 0.5 / n:
        fail = True

if fail:
    print('FAIL: reported frequencies are too small by ~ (n-1)/n; the '
          'deviation from the analytic MTF is several times the sampling '
          'error obtained on the correctly scaled axis')
    sys.exit(1)
print('PASS')

"""C18 defect 2: tabulated n / k tables whose rows are not in ascending
wavelength order are fed to np.interp unsorted.

Independent path: parse the YAML table by hand, sort it by wavelength, and do
the linear interpolation with an own bisect-based routine (no np.interp).
At a wavelength that IS a table row the expected value is simply the number
printed in the data file.
"""
import bisect
import os

import numpy as np
import yaml

import optiland
from optiland.materials import Material
from optiland.materials.material_file import MaterialFile

ROOT = os.path.join(os.path.dirname(os.path.dirname(optiland.__file__)),
                    'database', 'data-nk')


def table(filename, kind):
    with open(os.path.join(ROOT, filename), encoding='utf-8') as f:
        data = yaml.safe_load(f)
    for blk in data['DATA']:
        t = blk['type']
        if (kind == 'n' and t in ('tabulated n', 'tabulated nk')) or \
           (kind == 'k' and t in ('tabulated k', 'tabulated nk')):
            rows = [[float(x) for x in ln.split()]
                    for ln in blk['data'].strip().splitlines() if ln.strip()]
            col = 1 if kind == 'n' else len(rows[0]) - 1
            return [(r[0], r[col]) for r in rows]
    raise RuntimeError('no table')


def lin_interp(tab, w):
    tab = sorted(tab, key=lambda r: r[0])
    xs = [r[0] for r in tab]
    i = bisect.bisect_left(xs, w)
    if xs[i] == w:
        return tab[i][1]
    (x0, y0), (x1, y1) = tab[i - 1], tab[i]
    return y0 + (y1 - y0) * (w - x0) / (x1 - x0)


failures = []


def check(label, got, exp, tol=1e-9):
    dev = abs(got - exp)
    bad = dev > tol * max(abs(exp), 1.0)
    status = 'MISMATCH' if bad else 'ok'
    print(f'{label}: library {got:.10g}  expected {exp:.10g}  '
          f'abs.dev {dev:.3g}  {status}')
    if bad:
        failures.append(label)


# --- 1. LZOS glass CTK8 ('tabulated n'; rows ... 0.89, 1.06, 1.0139, 1.1286)
m = Material('CTK8')
assert m.material_data['filename'] == 'glass/lzos/CTK8.yml'
tab = table('glass/lzos/CTK8.yml', 'n')
order = [w for w, _ in tab]
print('CTK8 table wavelengths:', order)
print('   ascending?', order == sorted(order))
w = 1.0139           # a row of the table (Hg line); file says n = 1.68798
print('   file row at 1.0139 um:', dict(tab)[1.0139])
check('CTK8  n(1.0139) scalar', float(m.n(1.0139)), dict(tab)[1.0139])
check('CTK8  n(1.0139) array ', float(m.n(np.array([1.0139]))[0]),
      dict(tab)[1.0139])
for w in (0.95, 1.03, 1.10):
    check(f'CTK8  n({w})', float(m.n(w)), lin_interp(tab, w))

# --- 2. LZOS glass OF1
m = MaterialFile(os.path.join(ROOT, 'glass/lzos/OF1.yml'))
tab = table('glass/lzos/OF1.yml', 'n')
for w in (0.66, 0.68):
    check(f'OF1   n({w})', float(m.n(w)), lin_interp(tab, w))

# --- 3. 'tabulated nk' crystal: CaSO4 gamma (Querry), rows 7.8925, 7.874
m = MaterialFile(os.path.join(ROOT, 'main/CaSO4/Querry-gamma.yml'))
tn = table('main/CaSO4/Querry-gamma.yml', 'n')
tk = table('main/CaSO4/Querry-gamma.yml', 'k')
for w in (7.874, 7.8925, 7.90):
    check(f'CaSO4-gamma n({w})', float(m.n(w)), lin_interp(tn, w))
    check(f'CaSO4-gamma k({w})', float(m.k(w)), lin_interp(tk, w))

# --- 4. dolomite o-ray: first row 3.1546 precedes 2.5 -> k(2.5) wrong
m = MaterialFile(os.path.join(ROOT, 'main/CaMg(CO3)2/Querry-o.yml'))
tn = table('main/CaMg(CO3)2/Querry-o.yml', 'n')
tk = table('main/CaMg(CO3)2/Querry-o.yml', 'k')
print('dolomite-o first rows:', tn[:3])
for w in (2.5, 2.56):
    check(f'dolomite-o n({w})', float(m.n(w)), lin_interp(tn, w))
    check(f'dolomite-o k({w})', float(m.k(w)), lin_interp(tk, w), tol=1e-9)

print()
print(f'{len(failures)} mismatching values:', failures)
assert not failures, 'tabulated data not linearly interpolated correctly'

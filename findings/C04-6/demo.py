"""C04 defect 6: XPD() returns a NEGATIVE exit pupil diameter.

XPD() propagates the image-space marginal ray to the exit pupil plane and
returns 2*y there.  Whenever the marginal ray is below the axis at the exit
pupil (exit pupil beyond the image plane, or an intermediate image between
stop and image, or an odd number of mirrors) the "diameter" comes out
negative.  Matrix optics: XPD = |pupil magnification| * stop diameter >= 0.
Three bundled samples return a negative XPD.

Run:  PYTHONPATH=/tmp/hunt/C04 /venv/bin/python demo.py
"""
import warnings
import numpy as np
from optiland.optic import Optic
from optiland.materials import IdealMaterial
from optiland.samples.lithography import UVProjectionLens
from optiland.samples.microscopes import Objective60x

warnings.simplefilter('ignore')
fails = []

# ------------------------------------------------------------------
# (a) singlet f'=50.85 with the stop 120 mm in front (beyond the front focus):
#     the exit pupil is a real image of the stop behind the image plane.
# ------------------------------------------------------------------
D_STOP, D, R1, R2, T, N, BFD = 10.0, 120.0, 50.0, -50.0, 5.0, 1.5, 47.0
o = Optic()
o.add_surface(index=0, thickness=np.inf)
o.add_surface(index=1, radius=np.inf, thickness=D, is_stop=True)
o.add_surface(index=2, radius=R1, thickness=T, material=IdealMaterial(N))
o.add_surface(index=3, radius=R2, thickness=BFD)
o.add_surface(index=4)
o.set_aperture('EPD', D_STOP)
o.set_field_type('angle')
o.add_field(y=0)
o.add_field(y=2)
o.add_wavelength(0.55, is_primary=True)


def refr(n1, n2, R):
    return np.array([[1.0, 0.0], [-(n2 - n1) / R, 1.0]])


def trans(t, n):
    return np.array([[1.0, t / n], [0.0, 1.0]])


# stop plane -> just after the last lens surface, on (y, n u)
M = refr(N, 1.0, R2) @ trans(T, N) @ refr(1.0, N, R1) @ trans(D, 1.0)
A, B, C, Dm = M.ravel()
l_xp = -B / Dm                    # exit pupil distance from the last surface
m_pupil = A + l_xp * C            # lateral magnification stop -> exit pupil
XPL_ref = l_xp - BFD
XPD_ref = abs(m_pupil) * D_STOP   # stop is surface 1 in air: stop dia == EPD

px = o.paraxial
print('(a) singlet with remote front stop')
print('    XPL  library % .6f   ABCD % .6f' % (px.XPL(), XPL_ref))
print('    XPD  library % .6f   ABCD % .6f  (pupil magnification % .6f)'
      % (px.XPD(), XPD_ref, m_pupil))
assert abs(px.XPL() - XPL_ref) < 1e-9 * abs(XPL_ref)
if abs(px.XPD() - XPD_ref) > 1e-9 * XPD_ref:
    fails.append('singlet')

# ------------------------------------------------------------------
# (b) bundled samples: stop diameter from the library's own marginal ray,
#     pupil magnification from an independent y-nu trace of a ray leaving the
#     rim of the stop parallel to the axis and of a ray from the stop centre.
# ------------------------------------------------------------------
def xpd_independent(opt):
    sg = opt.surface_group
    w = opt.primary_wavelength
    pos = sg.positions.ravel()
    s = sg.stop_index
    ya, _ = opt.paraxial.marginal_ray()
    y_stop = abs(float(ya[s][0]))
    n = [float(x.material_post.n(w)) for x in sg.surfaces]
    out = []
    for (y, nu) in ((0.0, 1.0), (y_stop, 0.0)):      # centre ray, rim ray
        sign = 1.0
        for k in range(s + 1, len(sg.surfaces) - 1):
            y = y + (pos[k] - pos[k - 1]) * nu / (sign * n[k - 1])
            srf = sg.surfaces[k]
            n_in = sign * n[k - 1]
            if srf.is_reflective:
                sign = -sign
            n_out = sign * n[k]
            nu = nu - y * (n_out - n_in) / srf.geometry.radius
        out.append((y, nu / (sign * n[-2])))
    (yc, uc), (yr, ur) = out
    l = -yc / uc                                      # exit pupil from last surf
    return 2 * abs(yr + l * ur)


for cls in (UVProjectionLens, Objective60x):
    lens = cls()
    got, exp = lens.paraxial.XPD(), xpd_independent(lens)
    print('(b) %-18s XPD library % .6f   independent % .6f'
          % (cls.__name__, got, exp))
    if abs(got - exp) > 1e-7 * exp:
        fails.append(cls.__name__)

assert not fails, 'exit pupil diameter differs from matrix optics: %s' % fails

"""C01 defect 2: set_radius() on a flat surface silently resets its conic.

Edit history (all valid calls, finite values):
    set_conic(-1, k)   on a surface that is currently flat
    set_radius(-200, k)
Expected: radius -200, conic -1 (each setter changes exactly its quantity and
reads back the value set). The independent check keeps its own record of the
prescription and additionally compares the surface sag with the closed-form
conic sag  z = r^2 / (R (1 + sqrt(1 - (1+k) r^2 / R^2))).
"""
import numpy as np
from optiland.optic import Optic

K, R = -1.0, -200.0

lens = Optic()
lens.add_surface(index=0, thickness=np.inf)
lens.add_surface(index=1, thickness=10, is_stop=True)              # stop
lens.add_surface(index=2, material='mirror', thickness=-100)       # flat mirror
lens.add_surface(index=3)
lens.set_aperture('EPD', 40)
lens.set_field_type('angle')
lens.add_field(0)
lens.add_wavelength(0.55, is_primary=True)

expected = {'radius': np.inf, 'conic': 0.0}

lens.set_conic(K, 2)
expected['conic'] = K
print('after set_conic : conic read back =', lens.surface_group.conic[2],
      ' expected', expected['conic'])
assert lens.surface_group.conic[2] == K      # the value set reads back here

lens.set_radius(R, 2)
expected['radius'] = R
got_R = lens.surface_group.radii[2]
got_k = lens.surface_group.conic[2]
print('after set_radius: radius read back =', got_R, ' expected', R)
print('after set_radius: conic  read back =', got_k, ' expected', K)

r = 20.0
sag_lib = float(lens.surface_group.surfaces[2].geometry.sag(0.0, r))
sag_exp = r**2 / (R * (1 + np.sqrt(1 - (1 + K) * r**2 / R**2)))
sag_sphere = r**2 / (R * (1 + np.sqrt(1 - r**2 / R**2)))
print('sag at r=20: library %.9f, parabola (k=-1) %.9f, sphere (k=0) %.9f'
      % (sag_lib, sag_exp, sag_sphere))

ok = (got_R == R) and (got_k == K) and abs(sag_lib - sag_exp) < 1e-12
if not ok:
    print('FAIL: set_radius() changed the conic constant from %g to %g'
          % (K, got_k))
assert ok

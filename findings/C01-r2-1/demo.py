"""C01 / 1 - marginal-ray-height solve on the first surface (finite object)

The solve on surface 1 is iterated to its fixed point (update() x 50), so the
already-known "one linear step" behaviour plays no role.  The marginal ray is
then re-computed with an independent y-nu trace written here (own entrance
pupil search, own refraction formula) from the surface data of the lens.
"""
import sys
import warnings
import numpy as np
warnings.simplefilter('ignore')
from optiland.optic import Optic
from optiland.materials import IdealMaterial

H_REQ = 3.0
EPD = 10.0
STOP = 3

o = Optic()
o.add_surface(index=0, thickness=100.0)
o.add_surface(index=1, thickness=5, radius=40, material=IdealMaterial(1.5))
o.add_surface(index=2, thickness=10, radius=-40)
o.add_surface(index=3, thickness=60, is_stop=True)
o.add_surface(index=4)
o.set_aperture('EPD', EPD)
o.set_field_type('object_height')
o.add_field(0)
o.add_wavelength(0.55, is_primary=True)

o.solves.add('marginal_ray_height', 1, H_REQ)
for _ in range(50):          # fixed point of the solve
    o.update()

S = o.surface_group.surfaces
z = [float(s.geometry.cs.z) for s in S]
R = [float(s.geometry.radius) for s in S]
n = [float(s.material_post.n(0.55)) for s in S]


def ynu(y, u, z0):
    """independent paraxial trace; returns heights on surfaces 1..N"""
    ys, zc = {}, z0
    for k in range(1, len(S)):
        y = y + (z[k] - zc) * u
        zc = z[k]
        c = 0.0 if np.isinf(R[k]) else 1.0 / R[k]
        u = (n[k - 1] * u - y * (n[k] - n[k - 1]) * c) / n[k]
        ys[k] = y
    return ys


# entrance pupil: point of the axis in object space imaged on the stop centre
yA = ynu(1.0, 0.0, z[1])
yB = ynu(0.0, 1.0, z[1])
ep_z = z[1] + yB[STOP] / yA[STOP]
u0 = EPD / (2.0 * (ep_z - z[0]))          # marginal ray fills the pupil
ref = ynu(0.0, u0, z[0])

lib = o.paraxial.marginal_ray()[0].ravel()
print('vertex of surface 1 after update():', z[1], '(property: 0)')
print('requested marginal ray height on surface 1 :', H_REQ)
print('library marginal ray height on surface 1   :', lib[1])
print('independent y-nu height on surface 1        :', ref[1])
print('independent y-nu height on the stop         :', ref[STOP],
      ' library:', lib[STOP], ' (EPD/2 scaled by pupil magnification)')

ok = abs(ref[1] - H_REQ) < 1e-6 and abs(z[1]) < 1e-9
if not ok:
    print('VIOLATION: after update() the paraxial marginal ray is at '
          f'{ref[1]:.6f} on surface 1, requested {H_REQ}; first surface at '
          f'z = {z[1]:.6f}')
    sys.exit(1)
print('OK')
sys.exit(0)

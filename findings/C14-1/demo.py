"""C14 demo 1: an 'index' variable silently replaces the dispersive glass by a
non-dispersive IdealMaterial.  On a polychromatic lens the optimiser therefore
returns an objective that is far WORSE than the start, and undo() does not
restore the prescription (the index at the other wavelengths stays changed).

Run:  PYTHONPATH=/tmp/hunt/C14 /venv/bin/python demo.py
"""
import sys
import warnings
import numpy as np
from optiland.samples.objectives import CookeTriplet
from optiland import optimization

warnings.simplefilter('ignore')

FIELDS = [(0.0, 0.0), (0.0, 0.7), (0.0, 1.0)]
NUM_RINGS = 5


def my_merit(lens):
    """Independent merit: polychromatic RMS spot radius about the primary-
    wavelength centroid, computed from my own traces (weight 1, target 0)."""
    total = 0.0
    waves = lens.wavelengths.get_wavelengths()
    prim = lens.primary_wavelength
    for Hx, Hy in FIELDS:
        xs, ys = [], []
        cx = cy = None
        for w in waves:
            rays = lens.trace(Hx, Hy, w, NUM_RINGS, 'hexapolar')
            xs.append(np.array(rays.x)); ys.append(np.array(rays.y))
            if w == prim:
                cx, cy = np.mean(rays.x), np.mean(rays.y)
        x = np.concatenate(xs); y = np.concatenate(ys)
        rms = np.sqrt(np.mean((x - cx) ** 2 + (y - cy) ** 2))
        total += (1.0 * (rms - 0.0)) ** 2
    return total


def indices(lens):
    return {w: lens.n(w).copy() for w in lens.wavelengths.get_wavelengths()}


failures = []
for Opt in (optimization.OptimizerGeneric, optimization.LeastSquares):
    lens = CookeTriplet()
    problem = optimization.OptimizationProblem()
    for Hx, Hy in FIELDS:
        problem.add_operand('rms_spot_size', target=0, weight=1, input_data=dict(
            optic=lens, surface_number=-1, Hx=Hx, Hy=Hy, num_rays=NUM_RINGS,
            wavelength='all', distribution='hexapolar'))
    # the flint element (surface 3), index at the primary wavelength
    problem.add_variable(lens, 'index', surface_number=3, wavelength=0.55,
                         min_val=1.5, max_val=1.8)

    n_before = indices(lens)
    f_start_lib = problem.sum_squared()
    f_start = my_merit(lens)
    assert abs(f_start - f_start_lib) < 1e-9 * f_start, (f_start, f_start_lib)

    opt = Opt(problem)
    kw = dict(disp=False) if Opt is optimization.OptimizerGeneric else {}
    res = opt.optimize(**kw)
    f_ret = float(np.ravel(res.fun)[0])
    f_after = my_merit(lens)
    print(f'{Opt.__name__}: start merit (own trace) = {f_start:.6e}')
    print(f'    returned objective            = {f_ret:.6e}')
    print(f'    merit on lens after optimise  = {f_after:.6e}')
    print('    expected: returned objective <= start merit')
    if f_ret > f_start * (1 + 1e-9):
        failures.append(f'{Opt.__name__}: returned objective {f_ret:.4e} is '
                        f'{f_ret / f_start:.1f}x WORSE than start {f_start:.4e}')

    opt.undo()
    n_after = indices(lens)
    f_undo = my_merit(lens)
    dn = {w: float(n_after[w][3] - n_before[w][3]) for w in n_before}
    print(f'    after undo(): merit = {f_undo:.6e} (expected {f_start:.6e})')
    print(f'    after undo(): n(surface 3) - n_before per wavelength = {dn}')
    if max(abs(v) for v in dn.values()) > 1e-9:
        failures.append(f'{Opt.__name__}: undo() did not restore the glass: '
                        f'delta n = {dn}')
    if abs(f_undo - f_start) > 1e-9 * f_start:
        failures.append(f'{Opt.__name__}: merit after undo {f_undo:.4e} != '
                        f'start {f_start:.4e}')

print()
for f in failures:
    print('VIOLATION:', f)
assert not failures, f'{len(failures)} violation(s) of C14'
print('no violation')

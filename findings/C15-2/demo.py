"""C15 defect 2: lens with a pickup / solve + compensators is not restored.

The compensator optimiser calls optic.update() (pickups + solves) on every merit
function evaluation, so during a trial the pickup target surface and the solved
image distance follow the perturbed lens.  Tolerancing.reset() only resets the
perturbation / compensator variables and never re-applies pickups and solves,
so the dependent quantities stay at the values of the LAST trial.
"""
import warnings
import numpy as np
from optiland.samples.objectives import CookeTriplet
from optiland.tolerancing.core import Tolerancing
from optiland.tolerancing.sensitivity_analysis import SensitivityAnalysis
from optiland.tolerancing.monte_carlo import MonteCarlo
from optiland.tolerancing.perturbation import RangeSampler, DistributionSampler

warnings.filterwarnings('ignore')


def make_lens():
    lens = CookeTriplet()
    # last radius = -first radius, image distance solved for paraxial focus
    lens.pickups.add(1, 'radius', 6, scale=-1)
    lens.solves.add('marginal_ray_height', 7, 0.0)
    lens.update()          # nominal lens is consistent with its pickup/solve
    return lens


def prescription(lens):
    sg = lens.surface_group
    radii = np.array(sg.radii, float)[1:-1]
    thick = np.array([float(sg.get_thickness(i)[0])
                      for i in range(1, sg.num_surfaces - 1)])
    return radii, thick


def my_rms(lens):
    lens.trace(0, 0, 0.55, 6, 'hexapolar')
    x = lens.surface_group.x[-1].ravel()
    y = lens.surface_group.y[-1].ravel()
    return float(np.sqrt(np.mean((x - x.mean())**2 + (y - y.mean())**2)))


failures = []
for kind in ('sensitivity', 'monte_carlo'):
    lens = make_lens()
    r_nom, t_nom = prescription(make_lens())      # independent fresh copy
    rms_nom = my_rms(make_lens())
    f2_nom = make_lens().paraxial.f2()

    tol = Tolerancing(lens)
    tol.add_operand('f2', {'optic': lens})
    tol.add_operand('rms_spot_size',
                    dict(optic=lens, surface_number=-1, Hx=0, Hy=0,
                         num_rays=6, wavelength=0.55,
                         distribution='hexapolar'))
    r1 = float(lens.surface_group.radii[1])
    if kind == 'sensitivity':
        tol.add_perturbation('radius', RangeSampler(r1 - 0.5, r1 + 0.5, 3),
                             surface_number=1)
    else:
        tol.add_perturbation('radius',
                             DistributionSampler('normal', seed=3, loc=r1,
                                                 scale=0.3),
                             surface_number=1)
    tol.add_compensator('thickness', surface_number=2)

    if kind == 'sensitivity':
        an = SensitivityAnalysis(tol)
        an.run()
    else:
        an = MonteCarlo(tol)
        an.run(3)
    print('=== %s ===' % kind)
    print(an.get_results().T.to_string())
    tol.reset()                                   # explicit reset as well

    r_end, t_end = prescription(lens)
    dr = np.abs(r_end - r_nom)
    dt = np.abs(t_end - t_nom)
    print('radii  nominal :', r_nom)
    print('radii  after   :', r_end)
    print('thick. nominal :', t_nom)
    print('thick. after   :', t_end)
    print('f2  nominal %.6f  after %.6f' % (f2_nom, lens.paraxial.f2()))
    print('rms nominal %.6f  after %.6f' % (rms_nom, my_rms(lens)))
    if dr.max() > 1e-9:
        failures.append('%s: radius of pickup surface 6 off by %.4g after '
                        'run()+reset()' % (kind, dr.max()))
    if dt.max() > 1e-9:
        failures.append('%s: solved image distance off by %.4g after '
                        'run()+reset()' % (kind, dt.max()))

print()
for f in failures:
    print('FAIL', f)
assert not failures, 'C15 violated: ' + '; '.join(failures)
print('OK')

"""C02 / 1 - StandardGeometry.distance returns points on the wrong branch of
the conic (far hemisphere / second sheet of the hyperboloid).

Exits 1 when a live (intensity > 0), finite ray is recorded at a point that
does not satisfy the prescribed sag equation z = c r^2 / (1 + sqrt(1-(1+k)c^2r^2)).
"""
import sys
import warnings
import numpy as np

warnings.simplefilter('ignore')
from optiland import optic, materials
from optiland.samples.microscopes import UVReflectingMicroscope


def sag(R, k, x, y):
    """prescribed conic sag, own formula (curvature form)"""
    c = 1.0 / R
    r2 = x * x + y * y
    with np.errstate(invalid='ignore'):
        return c * r2 / (1 + np.sqrt(1 - (1 + k) * c * c * r2))


fail = False

# ---- part 1: bundled sample, on-axis marginal ray (Hy = 0, Px = 0, Py = 1)
lens = UVReflectingMicroscope()
lens.trace_generic(0.0, 0.0, 0.0, 1.0, 0.27)
k_s = 7
s = lens.surface_group.surfaces[k_s]
g = s.geometry
assert g.cs.rx == 0 and g.cs.ry == 0 and g.cs.x == 0 and g.cs.y == 0
xl, yl, zl = s.x[0], s.y[0], s.z[0] - g.cs.z        # untilted: local frame
z_exp = sag(g.radius, g.k, xl, yl)
print('part 1: UVReflectingMicroscope, surface 7 (R = %.4f, k = %g)'
      % (g.radius, g.k))
print('   recorded local point (x, y, z) = (%.6f, %.6f, %.6f), intensity %g'
      % (xl, yl, zl, s.intensity[0]))
print('   prescribed sag at that (x, y)   = %.6f' % z_exp)
print('   residual z - sag                = %.6f mm' % (zl - z_exp))
if np.isfinite(zl) and s.intensity[0] > 0 and not abs(zl - z_exp) < 1e-6:
    print('   VIOLATION: finite live ray is not on the prescribed surface '
          '(it sits on the far hemisphere, z > R); expected either a point '
          'with z = sag or a non-finite ray')
    fail = True

# ---- part 2: single hyperboloid, steep ray from an axial object point
R, K = 10.0, -5.0
lens = optic.Optic()
lens.add_surface(index=0, radius=np.inf, thickness=20.0)
lens.add_surface(index=1, radius=R, conic=K, thickness=5.0,
                 material=materials.IdealMaterial(n=1.5), is_stop=True)
lens.add_surface(index=2)
lens.set_aperture(aperture_type='EPD', value=40.0)
lens.set_field_type(field_type='object_height')
lens.add_field(y=0.0)
lens.add_wavelength(value=0.55, is_primary=True)
lens.trace_generic(0.0, 0.0, 0.0, 1.0, 0.55)
o = lens.surface_group.surfaces[0]
s = lens.surface_group.surfaces[1]
# independent reference: intersect the launched line with
#   r^2 - 2 R z + (1 + k) z^2 = 0  and keep the root on the sag branch,
#   i.e. the one with 1 - (1 + k) z / R >= 0
p0 = np.array([o.x[0], o.y[0], o.z[0]])
d = np.array([o.L[0], o.M[0], o.N[0]])
A = d[0]**2 + d[1]**2 + (1 + K) * d[2]**2
B = 2 * (p0[0]*d[0] + p0[1]*d[1] + (1 + K) * p0[2]*d[2] - R * d[2])
C = p0[0]**2 + p0[1]**2 + (1 + K) * p0[2]**2 - 2 * R * p0[2]
roots = np.roots([A, B, C])
pts = [p0 + t * d for t in roots if t > 0]
good = [p for p in pts if 1 - (1 + K) * p[2] / R >= 0]
print('part 2: hyperboloid R = 10, k = -5, ray from (0, 0, -20) with '
      'direction (%.4f, %.4f, %.4f)' % tuple(d))
print('   line/conic roots (points)       =', [np.round(p, 5).tolist()
                                                for p in pts])
print('   expected (sag branch)           =', np.round(good[0], 6).tolist())
print('   recorded by the library         = [%.6f, %.6f, %.6f]'
      % (s.x[0], s.y[0], s.z[0]))
z_exp = sag(R, K, s.x[0], s.y[0])
print('   prescribed sag at recorded (x,y) = %.6f, recorded z = %.6f'
      % (z_exp, s.z[0]))
if np.isfinite(s.z[0]) and not abs(s.z[0] - z_exp) < 1e-6:
    print('   VIOLATION: the recorded point lies on the second sheet of the '
          'hyperboloid (z < 0 for R > 0), off the prescribed sag by %.4f mm'
          % (s.z[0] - z_exp))
    fail = True

sys.exit(1 if fail else 0)

"""C03 / 3 - rays are aimed at a wrong entrance pupil when a surface in front of
the stop carries an r^2 aspheric coefficient (even asphere), because the
paraxial pupil calculation only looks at `geometry.radius`.

The same physical surface is entered twice:
  A) even asphere   R = 50,  k = -1, coefficients = [0.005]   (0.005 r^2 term)
  B) standard conic R' = 1 / (1/50 + 2*0.005) = 33.333.., k = -1
Both have the sag  z = r^2 / (2 R')  exactly, so every ray and every
paraxial quantity must be identical.
"""
import sys
import warnings
import numpy as np

warnings.simplefilter('ignore')
from optiland import optic  # noqa: E402

WL = 0.5876
R, A1, K = 50.0, 0.005, -1.0
R_EQ = 1.0 / (1.0 / R + 2 * A1)
T1, R2, T2 = 5.0, -80.0, 30.0
FIELD = 1.0   # degrees, small
EPD = 2.0


def build(kind):
    o = optic.Optic()
    o.add_surface(index=0, thickness=np.inf)
    if kind == 'asphere':
        o.add_surface(index=1, surface_type='even_asphere', radius=R, conic=K,
                      coefficients=[A1], thickness=T1, material='N-BK7')
    else:
        o.add_surface(index=1, radius=R_EQ, conic=K, thickness=T1,
                      material='N-BK7')
    o.add_surface(index=2, radius=R2, thickness=T2)
    o.add_surface(index=3, thickness=50.0, is_stop=True)
    o.add_surface(index=4)
    o.set_aperture('EPD', EPD)
    o.set_field_type('angle')
    o.add_field(y=0)
    o.add_field(y=FIELD)
    o.add_wavelength(WL, is_primary=True)
    return o


A = build('asphere')
B = build('conic')
n = float(A.surface_group.surfaces[1].material_post.n(WL))

# the two surfaces are the same surface
r = np.linspace(0, 8, 9)
sagA = A.surface_group.surfaces[1].geometry.sag(0 * r, r)
sagB = B.surface_group.surfaces[1].geometry.sag(0 * r, r)
assert np.allclose(sagA, sagB, atol=1e-12), 'test set-up: sags differ'


# independent y-nu trace: vertex curvature of z = r^2/(2R') is 1/R'
def height_at_stop(y, u):
    u = (u - y * (n - 1) / R_EQ) / n
    y = y + T1 * u
    u = n * u - y * (1 - n) / R2
    return y + T2 * u


EPL_ref = height_at_stop(0.0, 1.0) / height_at_stop(1.0, 0.0)
R_STOP = abs(height_at_stop(EPD / 2, 0.0))   # paraxial stop semi-diameter

fail = False
for name, lens in (('A even asphere', A), ('B equivalent conic', B)):
    EPL = float(lens.paraxial.EPL())
    rays = lens.ray_generator.generate_rays(0.0, 1.0, np.array([0.0]),
                                            np.array([0.0]), WL)
    # where does the generated chief ray cross the axis?
    z_cross = rays.z[0] - rays.y[0] * rays.N[0] / rays.M[0]
    lens.trace_generic(0.0, 1.0, 0.0, 0.0, WL)
    y_stop = float(lens.surface_group.y[3][0])
    print(f'{name:20s}: EPL library {EPL:10.5f}  reference {EPL_ref:10.5f} | '
          f'chief ray aimed at z = {z_cross:10.5f} | real chief-ray height '
          f'in the stop plane {y_stop:+.5f} (stop semi-diameter '
          f'{R_STOP:.3f})')
    if abs(z_cross - EPL_ref) > 1e-6:
        print(f'  VIOLATION: chief ray is aimed {z_cross - EPL_ref:+.3f} mm '
              'away from the paraxial entrance pupil')
        fail = True

sys.exit(1 if fail else 0)

"""C01 defect 5: a coefficient update on a 'polynomial' (or 'chebyshev')
freeform surface is silently truncated to an integer when the surface was
created from integer coefficients (the natural "start from all zeros" idiom
[[0, 0, 0], [0, 0, 0], [0, 0, 0]]).

Independent model: own record of the coefficient matrix + the closed-form sag
z = conic_sag + sum_ij c_ij x^i y^j.
"""
import numpy as np
from optiland.optic import Optic
from optiland.materials import IdealMaterial
from optiland.optimization.variable.variable import Variable

start = [[0, 0, 0], [0, 0, 0], [0, 0, 0]]      # 3x3 freeform, all zero
model = np.array(start, dtype=float)

lens = Optic()
lens.add_surface(index=0, thickness=np.inf)
lens.add_surface(index=1, surface_type='polynomial', radius=100, conic=0,
                 thickness=5, material=IdealMaterial(1.5), is_stop=True,
                 coefficients=start)
lens.add_surface(index=2, thickness=190)
lens.add_surface(index=3)
lens.set_aperture('EPD', 10)
lens.set_field_type('angle')
lens.add_field(0)
lens.add_wavelength(0.55, is_primary=True)

NEW = 2.5e-3                                    # c[0][2]: y^2 term
var = Variable(lens, 'polynomial_coeff', surface_number=1, coeff_index=(0, 2))
var.update(NEW)
model[0, 2] = NEW

geo = lens.surface_group.surfaces[1].geometry
x, y = 1.0, 3.0
sag_lib = float(geo.sag(x, y))
r2 = x * x + y * y
sag_exp = r2 / (100 * (1 + np.sqrt(1 - r2 / 100**2))) + \
    sum(model[i, j] * x**i * y**j for i in range(3) for j in range(3))

print('value set                 :', NEW)
print('Variable.value read back  :', var.value)
print('geometry.c[0][2] read back:', geo.c[0][2], ' (dtype %s)' % geo.c.dtype)
print('sag(1,3): library %.9f   expected %.9f' % (sag_lib, sag_exp))

ok = abs(var.value - NEW) <= 1e-9 * NEW and abs(sag_lib - sag_exp) < 1e-12
if not ok:
    print('FAIL: coefficient update was discarded (read back %r instead of '
          '%r); sag error %.3e mm' % (var.value, NEW, sag_lib - sag_exp))
assert ok

"""C12 / defect 5: with field vignetting factors the pupil compression (1 - v)
is applied THREE times on the Optic.trace path used by SpotDiagram, RayFan,
EncircledEnergy, RmsSpotSizeVsField, PupilAberration and rms_spot_size
(distribution.generate_points, Optic.trace, RayGenerator.generate_rays) and
TWICE on the trace_generic path used by the single-ray operands, distortion
and field curvature.  The ray fan published at the pupil samples
data['Py'] = linspace(-1, 1) is therefore not the fan of those pupil samples,
and the two API paths disagree with each other.

Run:  PYTHONPATH=/tmp/hunt/C12 /venv/bin/python demo.py
"""
import sys
import numpy as np
from optiland.optic import Optic
from optiland.analysis import RayFan, SpotDiagram
from optiland.distribution import HexagonalDistribution

failures = []
VY = 0.3


def check(name, got, exp, rtol=1e-6):
    ok = np.allclose(got, exp, rtol=rtol, atol=1e-12)
    print(f'[{"ok" if ok else "FAIL"}] {name}\n       observed: {got}\n'
          f'       expected: {exp}')
    if not ok:
        failures.append(name)


def singlet(vy):
    lens = Optic()
    lens.add_surface(index=0, radius=np.inf, thickness=np.inf)
    lens.add_surface(index=1, radius=50, thickness=5, material='N-BK7',
                     is_stop=True)
    lens.add_surface(index=2, radius=-50, thickness=47)
    lens.add_surface(index=3)
    lens.set_aperture('EPD', 10.0)
    lens.set_field_type('angle')
    lens.add_field(0)
    lens.add_field(10, vy=vy)
    lens.add_wavelength(0.55, is_primary=True)
    return lens


lens = singlet(VY)          # full field has a 30 % vignetting factor in y
ref = singlet(0.0)          # identical lens without vignetting factors
wl = 0.55
n = 5
field = (0.0, 1.0)

# ---- ray fan ---------------------------------------------------------------
fan = RayFan(lens, num_points=n)
Py = fan.data['Py']                       # documented pupil samples
got = fan.data[f'{field}'][f'{wl}']['y']

# independent: compress the pupil once, by (1 - vy), on the unvignetted twin
ref.trace_generic(0.0, 1.0, np.zeros(n), Py * (1 - VY), wl)
y = ref.surface_group.y[-1, :]
y_stop = ref.surface_group.y[1, :].copy()
expected = y - y[n // 2]
check(f'RayFan y-fan, field (0,1), vy={VY}, Py={Py}', got, expected)

# where do the fan rays actually cross the stop (surface 1, semi-dia 5 mm)?
lens.trace(0.0, 1.0, wl, n, 'line_y')
check('stop-surface y of the fan rays (Optic.trace, line_y)',
      lens.surface_group.y[1, :], y_stop, rtol=1e-3)
lens.trace_generic(0.0, 1.0, np.zeros(n), Py, wl)
check('stop-surface y of the same pupil samples via trace_generic',
      lens.surface_group.y[1, :], y_stop, rtol=1e-3)

# ---- spot diagram ----------------------------------------------------------
spot = SpotDiagram(lens, num_rings=6, distribution='hexapolar')
d = HexagonalDistribution()
d.generate_points(6)
ref.trace_generic(0.0, 1.0, d.x.copy(), d.y * (1 - VY), wl)
x, y = ref.surface_group.x[-1, :], ref.surface_group.y[-1, :]
exp_rms = np.sqrt(np.mean((x - x.mean())**2 + (y - y.mean())**2))
check('SpotDiagram.rms_spot_radius(), field (0,1)',
      spot.rms_spot_radius()[1][0], exp_rms)

if failures:
    print(f'\n{len(failures)} check(s) failed')
    sys.exit(1)
print('all checks passed')

"""C08 / 3 - third_order() returns SC (and S) in a different form than every
other family: SC is a Python list of 1-element arrays (shape (n,1) once
converted), S has shape (5,1).  The accessors SC() / seidels() return flat
arrays, so 'accessor == all-in-one' comparisons broadcast to n x n and fail,
and ndarray arithmetic on the returned SC does not work.

Run: cd /tmp/hunt2/C08 && PYTHONPATH=/tmp/hunt2/C08 /venv/bin/python demo.py
"""
import sys
import warnings
import numpy as np
warnings.filterwarnings('ignore')
from optiland.samples.objectives import CookeTriplet   # noqa

o = CookeTriplet()
names = ['TSC', 'SC', 'CC', 'TCC', 'TAC', 'AC', 'TPC', 'PC', 'DC',
         'TAchC', 'LchC', 'TchC']
out = o.aberrations.third_order()
n_surf = o.surface_group.num_surfaces - 2
fail = False
for name, value in zip(names, out[:-1]):
    acc = getattr(o.aberrations, name)()
    shape = np.shape(value)
    same_form = isinstance(value, np.ndarray) and shape == (n_surf,)
    agree = np.shape(acc) == shape and np.allclose(value, acc)
    flag = '' if (same_form and agree) else '<-- VIOLATION'
    if flag:
        fail = True
    print('%-6s all-in-one: %-8s shape %-7s accessor shape %-5s '
          'np.allclose(all-in-one, accessor)=%s %s'
          % (name, type(value).__name__, shape, np.shape(acc),
             bool(np.all(np.isclose(value, acc))), flag))
S = out[-1]
Sacc = o.aberrations.seidels()
okS = np.shape(S) == np.shape(Sacc) == (5,) and np.allclose(S, Sacc)
print('S      all-in-one shape %s accessor shape %s  allclose=%s %s'
      % (np.shape(S), np.shape(Sacc), bool(np.all(np.isclose(S, Sacc))),
         '' if okS else '<-- VIOLATION'))
fail |= not okS
# what a user sees
SC = out[1]
try:
    total = SC.sum()
except AttributeError as e:
    print('third_order()[1].sum() ->', type(e).__name__, e,
          '(AC, PC, LchC are ndarrays and have .sum())')
print('len(third_order()[1] * 2) = %d (list repetition, expected %d values'
      ' doubled)' % (len(SC * 2), n_surf))
sys.exit(1 if fail else 0)

"""C03 / 5 - object-space NA aperture with an object at infinity is not
rejected: every generated ray is NaN (EPD = 2 * inf * tan(U)), silently.
"""
import sys
import warnings
import numpy as np

warnings.simplefilter('ignore')
from optiland import optic  # noqa: E402

WL = 0.5876
o = optic.Optic()
o.add_surface(index=0, thickness=np.inf)
o.add_surface(index=1, radius=50.0, thickness=5.0, material='N-BK7',
              is_stop=True)
o.add_surface(index=2, radius=-80.0, thickness=60.0)
o.add_surface(index=3)
o.set_aperture('objectNA', 0.05)      # NA of an object at infinity is 0
o.set_field_type('angle')
o.add_field(y=0)
o.add_field(y=5)
o.add_wavelength(WL, is_primary=True)

fail = False
print('paraxial.EPD() =', o.paraxial.EPD())
try:
    rays = o.trace(0.0, 1.0, WL, num_rays=3, distribution='line_y')
except ValueError as e:
    print('rejected with ValueError:', e)
else:
    print('no error raised; traced rays at the image surface:')
    print('  y =', rays.y, ' M =', rays.M, ' intensity =', rays.i)
    start = o.surface_group
    print('  launch points y =', start.y[0], ' z =', start.z[0])
    ok = np.all(np.isfinite(rays.y)) and np.all(np.isfinite(rays.M))
    if not ok:
        print('VIOLATION: expected either an error ("combination the model '
              'cannot represent") or finite rays travelling at '
              f'atan({np.tan(np.radians(5.0)):.6f}) to the axis; got NaN')
        fail = True
sys.exit(1 if fail else 0)

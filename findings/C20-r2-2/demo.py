"""C20 / 2 - the field points of a .zmx file are re-sorted (by y only) and
duplicates are dropped, so the loaded field list is not the one written."""
import io
import os
import sys
import tempfile
import contextlib
from optiland.fileio import load_zemax_file


def zmx(ftype, obj_thickness, fields):
    n = len(fields)
    xs = [f[0] for f in fields] + [0.0] * (12 - n)
    ys = [f[1] for f in fields] + [0.0] * (12 - n)
    return f"""VERS 171115
MODE SEQ
NAME singlet
UNIT MM X W X CM MR CPMM
ENPD 10.0
GCAT SCHOTT
FTYP {ftype} 0 {n} 1 0 0 0 0
XFLN {' '.join(repr(v) for v in xs)}
YFLN {' '.join(repr(v) for v in ys)}
WAVM 1 0.5875618 1
PWAV 1
SURF 0
  TYPE STANDARD
  CURV 0.0
  DISZ {obj_thickness}
SURF 1
  STOP
  TYPE STANDARD
  CURV 0.02
  DISZ 5.0
  GLAS N-BK7 0 0 1.5168 64.17 0 0 0 0 0 0
SURF 2
  TYPE STANDARD
  CURV -0.02
  DISZ 45.0
SURF 3
  TYPE STANDARD
  CURV 0.0
  DISZ 0
"""


CASES = {
    # Zemax users commonly list the axial field first, then +/- pairs
    'angle, y = 0, +10, -10, +7, -7':
        (0, 'INFINITY', [(0.0, 0.0), (0.0, 10.0), (0.0, -10.0),
                         (0.0, 7.0), (0.0, -7.0)]),
    'angle, points along x and the diagonal':
        (0, 'INFINITY', [(0.0, 0.0), (5.0, 0.0), (-5.0, 0.0), (3.0, 3.0),
                         (7.0, 0.0)]),
    'object height, descending':
        (1, '200.0', [(0.0, 12.0), (0.0, 6.0), (0.0, 0.0)]),
    'angle, a field point listed twice (e.g. with different weights)':
        (0, 'INFINITY', [(0.0, 0.0), (0.0, 5.0), (0.0, 5.0), (0.0, 10.0)]),
}

failed = False
for title, (ftype, t0, fields) in CASES.items():
    fd, path = tempfile.mkstemp(suffix='.zmx')
    os.close(fd)
    with open(path, 'w', encoding='utf-16') as f:
        f.write(zmx(ftype, t0, fields))
    with contextlib.redirect_stdout(io.StringIO()):
        lens = load_zemax_file(path)
    os.remove(path)
    got = [(float(f.x), float(f.y)) for f in lens.fields.fields]
    ok = got == fields
    print(f'{title}\n   written : {fields}\n   loaded  : {got}\n   '
          f'{"ok" if ok else "VIOLATED"}')
    failed |= not ok

sys.exit(1 if failed else 0)

"""C07 / 1 - a dummy plane inserted in a gap turns rays into NaN when the
plane lies behind the point where the ray left the previous surface.

Biconvex singlet, R1 = +25 mm, 6 mm of glass n = 1.5, R2 = -25 mm, EPD 20 mm.
A plane dummy surface glass|glass is inserted d mm behind the first vertex.
The marginal ray meets the first surface at a sag of about 1.7 mm, so for
d < 1.7 mm the dummy plane is "behind" the ray: a sequential trace has to
propagate a negative distance to it.  Physically nothing has changed.

Reference: an independent exact ray trace (ray/sphere intersection + vector
Snell law written here in numpy) of the lens WITHOUT the dummy surface.
"""
import sys
import warnings
import numpy as np
from optiland.optic import Optic
from optiland.materials import IdealMaterial

warnings.simplefilter('ignore')
N_GLASS = 1.5
R1, T1, R2, T2 = 25.0, 6.0, -25.0, 40.0
EPD, FIELD = 20.0, 5.0


def lens(dummy=None):
    g = IdealMaterial(N_GLASS)
    o = Optic()
    o.add_surface(index=0, thickness=np.inf)
    o.add_surface(index=1, radius=np.inf, thickness=5.0, is_stop=True)
    i = 2
    if dummy is None:
        o.add_surface(index=i, radius=R1, thickness=T1, material=g); i += 1
    else:
        o.add_surface(index=i, radius=R1, thickness=dummy, material=g); i += 1
        # dummy: plane, same glass on both sides
        o.add_surface(index=i, radius=np.inf, thickness=T1 - dummy,
                      material=g); i += 1
    o.add_surface(index=i, radius=R2, thickness=T2); i += 1
    o.add_surface(index=i)
    o.set_aperture('EPD', EPD)
    o.set_field_type('angle')
    o.add_field(0)
    o.add_field(FIELD)
    o.add_wavelength(0.55, is_primary=True)
    return o


# ---------------- independent reference ---------------------------------
def sphere_hit(p, d, zv, R):
    """first intersection (closest to the vertex) of ray p + t d with the
    sphere of vertex (0,0,zv) and radius R"""
    c = np.array([0.0, 0.0, zv + R])
    oc = p - c
    b = oc @ d
    disc = b * b - (oc @ oc - R * R)
    ts = np.array([-b - np.sqrt(disc), -b + np.sqrt(disc)])
    pts = [p + t * d for t in ts]
    k = int(np.argmin([abs(q[2] - zv) for q in pts]))
    q = pts[k]
    nrm = (q - c) / R
    return ts[k], q, nrm


def snell(d, nrm, n1, n2):
    if nrm @ d < 0:
        nrm = -nrm
    mu = n1 / n2
    cosi = nrm @ d
    cost = np.sqrt(1 - mu * mu * (1 - cosi * cosi))
    return mu * d + (cost - mu * cosi) * nrm


def reference(p0, d0):
    """trace from point p0 (in air) through the singlet to the image plane;
    the first lens vertex is at z = 5"""
    opl = 0.0
    t, p, nrm = sphere_hit(p0, d0, 5.0, R1)
    opl += t
    d = snell(d0, nrm, 1.0, N_GLASS)
    t, p2, nrm = sphere_hit(p, d, 5.0 + T1, R2)
    opl += t * N_GLASS
    d2 = snell(d, nrm, N_GLASS, 1.0)
    t = (5.0 + T1 + T2 - p2[2]) / d2[2]
    opl += t
    return p2 + t * d2, d2, opl


bad = False
Hy, Px, Py = 1.0, 0.0, 0.9
base = lens()
rb = base.trace_generic(0.0, Hy, Px, Py, 0.55)
# launch point and direction of that ray, as recorded on the object surface
s0 = base.surface_group.surfaces[0]
p0 = np.array([s0.x[0], s0.y[0], s0.z[0]])
d0 = np.array([s0.L[0], s0.M[0], s0.N[0]])
pref, dref, oplref = reference(p0, d0)
print('reference (own trace, no dummy): y = %.9f  M = %.9f  OPL = %.9f'
      % (pref[1], dref[1], oplref))
print('library, no dummy              : y = %.9f  M = %.9f  OPL = %.9f'
      % (rb.y[0], rb.M[0], rb.opd[0]))

for d in (3.0, 1.0, 0.5):
    o = lens(dummy=d)
    r = o.trace_generic(0.0, Hy, Px, Py, 0.55)
    ok = (np.isfinite(r.y[0]) and abs(r.y[0] - pref[1]) < 1e-9
          and abs(r.M[0] - dref[1]) < 1e-9
          and abs(r.opd[0] - oplref) < 1e-9 and r.i[0] == 1.0)
    print('dummy plane %.1f mm behind vertex: y = %s  M = %s  OPL = %s  '
          'intensity = %s   %s'
          % (d, r.y[0], r.M[0], r.opd[0], r.i[0],
             'ok' if ok else 'VIOLATION (expected the reference values)'))
    bad |= not ok

sys.exit(1 if bad else 0)

"""C07 / mirror clause, re-description of the field list.

Lens A is a rotationally symmetric triplet with fields y = 0, +14, +20 deg and
vignetting factors vy = 0, 0.1, 0.3.  Lens B is the SAME lens described in the
mirror image about the x-z plane: fields y = 0, -14, -20 deg, same vignetting.
The ray (Hy, Px, Py) of A and the ray (-Hy, Px, -Py) of B are mirror images of
each other, so x, L, N, path length must agree and y, M must change sign.
Seidel sums must have the same magnitude.

Independent expectation: (i) the mirror image of A's ray (second path through
the API), (ii) an own look-up of the vignetting factor that the prescription
assigns to the full field (|y| = 20 deg -> vy = 0.3).
"""
import sys
import warnings
import numpy as np
from optiland.optic import Optic
from optiland.materials import IdealMaterial

warnings.simplefilter('ignore')

R = [np.inf, 22.0, -435.0, -22.2, 20.3, 79.7, -18.4, np.inf]
T = [np.inf, 3.26, 6.0, 1.0, 4.75, 2.95, 42.2, 0.0]
N = [1.0, 1.62, 1.0, 1.60, 1.0, 1.62, 1.0, 1.0]
FIELDS = [(0.0, 0.0), (14.0, 0.1), (20.0, 0.3)]     # (|y| in deg, vy)
WL = 0.55


def build(sign):
    o = Optic()
    for i in range(len(R)):
        mat = 'air' if N[i] == 1.0 else IdealMaterial(N[i])
        o.add_surface(index=i, radius=R[i], thickness=T[i], material=mat,
                      is_stop=(i == 4))
    o.set_aperture('EPD', 10.0)
    o.set_field_type('angle')
    for y, vy in FIELDS:
        o.add_field(y=sign * y, vy=vy)
    o.add_wavelength(WL, is_primary=True)
    return o


A, B = build(+1), build(-1)
Hy, Px, Py = 1.0, 0.2, 0.8

ra = A.trace_generic(0.0, Hy, Px, Py, WL)
a = np.array([ra.x[0], ra.y[0], ra.L[0], ra.M[0], ra.N[0], ra.opd[0]])
rb = B.trace_generic(0.0, -Hy, Px, -Py, WL)
b = np.array([rb.x[0], rb.y[0], rb.L[0], rb.M[0], rb.N[0], rb.opd[0]])
expected_b = a * np.array([1, -1, 1, -1, 1, 1])

# own look-up of the vignetting factor of the full field
vy_own = dict((y, v) for y, v in FIELDS)[abs(Hy) * max(y for y, _ in FIELDS)]
vy_A = float(A.fields.get_vig_factor(0.0, Hy)[1])
vy_B = float(B.fields.get_vig_factor(0.0, -Hy)[1])

names = ['x', 'y', 'L', 'M', 'N', 'opd']
print('image-plane ray data          ', names)
print('lens A  (Hy=+1, Py=+0.8)      ', a)
print('lens B  (Hy=-1, Py=-0.8) obs. ', b)
print('lens B  expected (mirror of A)', expected_b)
print('deviation                     ', b - expected_b)
print(f'vignetting factor vy of the full field: prescription {vy_own}, '
      f'lens A {vy_A}, lens B {vy_B}')
SA, SB = A.aberrations.seidels(), B.aberrations.seidels()
print('Seidel sums lens A:', SA)
print('Seidel sums lens B:', SB, ' (expected same magnitudes)')
print('max y field used by the paraxial chief ray: A',
      A.fields.max_y_field, ' B', B.fields.max_y_field)

ok_rays = np.allclose(b, expected_b, rtol=0, atol=1e-9)
ok_vig = abs(vy_B - vy_own) < 1e-12 and abs(vy_A - vy_own) < 1e-12
ok_seidel = np.allclose(np.abs(SB), np.abs(SA), rtol=1e-9, atol=0)
print('rays mirror correctly:', ok_rays, '| vignetting kept:', ok_vig,
      '| Seidel magnitudes kept:', ok_seidel)
assert ok_vig, 'mirror-image field list loses its vignetting factors'
assert ok_rays, 'mirror-image description does not give mirror-image rays'
assert ok_seidel, 'mirror-image description changes the Seidel sums'
sys.exit(0)

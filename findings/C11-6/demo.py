"""C11 defect 6: FFT PSF/MTF ignore the pupil compression of vignetting factors.

A field with vignetting factor vy is traced through a pupil that is compressed
in y (an ellipse). The image-space beam is then slower in the tangential
section: its working F-number grows and the tangential cut-off
(sin U'_upper - sin U'_lower) / lambda shrinks by the same factor. FFTPSF lays
the traced samples on the full unit-disk grid and FFTMTF reports the tangential
curve against the axis-of-symmetry cut-off 1/(lambda FNO), so the tangential
MTF is reported far beyond the physical cut-off of the beam.
"""
import sys
import numpy as np
from optiland import optic
from optiland.mtf import FFTMTF


def paraboloid(vy):
    lens = optic.Optic()
    lens.add_surface(index=0, thickness=np.inf)
    lens.add_surface(index=1, radius=-200, conic=-1, thickness=-100,
                     material='mirror', is_stop=True)
    lens.add_surface(index=2)
    lens.set_aperture('EPD', 20)
    lens.set_field_type('angle')
    lens.add_field(y=0)
    lens.add_field(y=0.01, vy=vy)     # tiny field: coma < 0.01 waves
    lens.add_wavelength(0.55, is_primary=True)
    return lens


def ideal(nu, cutoff):
    phi = np.arccos(np.clip(nu / cutoff, 0, 1))
    return 2 / np.pi * (phi - np.cos(phi) * np.sin(phi))


wavelength_mm = 0.55e-3
n, g = 64, 256
fail = False
for vy in (0.0, 0.3, 0.5):
    lens = paraboloid(vy)
    field = (0, 1)
    # independent: direction cosines of the extreme rays of the traced beam
    cosines = {}
    for name, (px, py) in dict(up=(0., 1.), low=(0., -1.),
                               right=(1., 0.), left=(-1., 0.)).items():
        lens.trace_generic(0., 1., px, py, 0.55)
        sg = lens.surface_group
        cosines[name] = (sg.L[-1, 0], sg.M[-1, 0])
    cut_tan = abs(cosines['up'][1] - cosines['low'][1]) / wavelength_mm
    cut_sag = abs(cosines['right'][0] - cosines['left'][0]) / wavelength_mm

    m = FFTMTF(lens, fields=[field], num_rays=n, grid_size=g)
    freq = np.arange(g // 2) * m._get_mtf_units()   # x-data of view()
    tangential, sagittal = m.mtf[0]
    err_tan = np.max(np.abs(tangential - ideal(freq, cut_tan)))
    err_sag = np.max(np.abs(sagittal - ideal(freq, cut_sag)))
    beyond = freq > 1.05 * cut_tan
    worst = np.max(tangential[beyond]) if np.any(beyond) else 0.0
    print(f'vy={vy}: beam cut-off tangential {cut_tan:7.2f}, sagittal '
          f'{cut_sag:7.2f} cycles/mm; FFTMTF.max_freq {m.max_freq:7.2f}')
    print(f'        max |tangential - ideal(nu/{cut_tan:.1f})| = {err_tan:.3f}'
          f', max |sagittal - ideal(nu/{cut_sag:.1f})| = {err_sag:.3f}, '
          f'largest tangential MTF beyond the beam cut-off = {worst:.3f}')
    if err_tan > 0.05 or err_sag > 0.05:
        fail = True

if fail:
    print('FAIL: the tangential MTF of a vignetted field is that of the '
          'unvignetted circular pupil')
    sys.exit(1)
print('PASS')

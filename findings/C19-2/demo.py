"""C19 defect 2: a lens with a polarization state cannot be saved; the
dictionary form carries the live PolarizationState object."""
import json
import os
import sys
import tempfile
import numpy as np
from optiland.optic import Optic
from optiland.materials import IdealMaterial
from optiland.rays import PolarizationState
from optiland.fileio import save_optiland_file, load_optiland_file


def build():
    lens = Optic()
    lens.add_surface(index=0, thickness=np.inf)
    lens.add_surface(index=1, radius=50, thickness=5, is_stop=True,
                     material=IdealMaterial(1.5))
    lens.add_surface(index=2, radius=-50, thickness=40)
    lens.add_surface(index=3)
    lens.set_aperture('EPD', 10)
    lens.set_field_type('angle')
    lens.add_field(0)
    lens.add_field(5)
    lens.add_wavelength(0.55, is_primary=True)
    # no coatings at all: only the polarization setting differs from a
    # plain lens
    lens.set_polarization(PolarizationState(is_polarized=True, Ex=1, Ey=2,
                                            phase_x=0.0, phase_y=0.3))
    return lens


def signature(lens):
    """positions, directions, optical path, intensity of a ray fan"""
    r = lens.trace(0.0, 1.0, 0.55, num_rays=5, distribution='line_y')
    return np.array([r.x, r.y, r.z, r.L, r.M, r.N, r.opd, r.i])


lens = build()
ref = signature(lens)
state = lens.polarization_state
expected_state = (state.is_polarized, float(state.Ex), float(state.Ey),
                  state.phase_x, state.phase_y)
print('polarization of the original lens:', expected_state)

failures = []
d = lens.to_dict()
print('dict entry for polarization is a',
      type(d['wavelengths']['polarization']).__name__)
try:
    json.dumps(d)
except TypeError as e:
    failures.append(f'to_dict() is not JSON-serialisable: {e}')

fn = os.path.join(tempfile.mkdtemp(), 'lens.json')
try:
    save_optiland_file(lens, fn)
    reloaded = load_optiland_file(fn)
    s2 = reloaded.polarization_state
    got_state = (s2.is_polarized, float(s2.Ex), float(s2.Ey),
                 s2.phase_x, s2.phase_y)
    print('polarization of the reloaded lens:', got_state)
    if not np.allclose(got_state, expected_state, rtol=1e-12, atol=0):
        failures.append(f'polarization state changed: {got_state}')
    dev = np.max(np.abs(signature(reloaded) - ref))
    print('max ray deviation after reload:', dev)
    if dev > 1e-12:
        failures.append(f'rays differ by {dev}')
except Exception as e:
    failures.append(f'save_optiland_file/load_optiland_file raised '
                    f'{type(e).__name__}: {e}')

# the in-memory round trip "works" only by sharing the live object:
clone = Optic.from_dict(lens.to_dict())
if clone.polarization is lens.polarization:
    clone.polarization.Ex, clone.polarization.Ey = 0.0, 1.0   # edit the clone
    now = lens.polarization_state
    if (now.Ex, now.Ey) != expected_state[1:3]:
        failures.append('editing the polarization of the from_dict() clone '
                        f'changed the original lens: Ex, Ey = {now.Ex}, '
                        f'{now.Ey} (expected {expected_state[1:3]})')

if failures:
    print('\nEXPECTED: lens saved; reloaded lens has polarization '
          f'{expected_state} and identical rays; clone independent')
    print('OBSERVED:')
    for f in failures:
        print('  -', f)
    sys.exit(1)
print('OK')

"""C20 / 1 - a glass name that is NOT in the catalogue is silently replaced by a
different catalogue glass whose name merely contains it (SF3 -> LASF35, ...),
instead of the model glass with the index / Abbe number written in the file."""
import io
import os
import sys
import tempfile
import contextlib
import numpy as np
from optiland.fileio import load_zemax_file

# legacy glasses (not in the bundled catalogue), with the n_d / V_d that a
# .zmx file carries on its GLAS line
CASES = [('SF3', 1.74000, 28.20),
         ('SK1', 1.61025, 56.70),
         ('LF3', 1.58215, 42.09),
         ('BK1', 1.51009, 63.46),
         ('PC',  1.58547, 29.91)]      # Zemax MISC catalogue: polycarbonate

C1, T, C2, BFD = 0.02, 5.0, -0.02, 45.0


def zmx(name, nd, vd):
    return f"""VERS 171115
MODE SEQ
NAME singlet
UNIT MM X W X CM MR CPMM
ENPD 10.0
GCAT SCHOTT MISC
FTYP 0 0 1 1 0 0 0 0
XFLN 0 0 0 0 0 0 0 0 0 0 0 0
YFLN 0 0 0 0 0 0 0 0 0 0 0 0
WAVM 1 0.5875618 1
PWAV 1
SURF 0
  TYPE STANDARD
  CURV 0.0
  DISZ INFINITY
SURF 1
  STOP
  TYPE STANDARD
  CURV {C1}
  DISZ {T}
  GLAS {name} 0 0 {nd} {vd} 0 0 0 0 0 0
SURF 2
  TYPE STANDARD
  CURV {C2}
  DISZ {BFD}
SURF 3
  TYPE STANDARD
  CURV 0.0
  DISZ 0
"""


def efl_from_written_numbers(n):
    # thick lens in air, own formula
    p1 = (n - 1) * C1
    p2 = (1 - n) * C2
    return 1.0 / (p1 + p2 - p1 * p2 * T / n)


failed = False
for name, nd, vd in CASES:
    fd, path = tempfile.mkstemp(suffix='.zmx')
    os.close(fd)
    with open(path, 'w', encoding='utf-8') as f:
        f.write(zmx(name, nd, vd))
    with contextlib.redirect_stdout(io.StringIO()):   # hide 'Warning:' print
        lens = load_zemax_file(path)
    os.remove(path)
    mat = lens.surface_group.surfaces[1].material_post
    n_lib = float(np.ravel(mat.n(0.5875618))[0])
    f_lib = float(lens.paraxial.f2())
    f_ref = efl_from_written_numbers(nd)
    picked = getattr(mat, 'material_data', {}).get('filename',
                                                    type(mat).__name__)
    # the model glass is a fit (few 1e-4); 5e-3 is far outside its error
    ok = abs(n_lib - nd) < 5e-3 and abs(f_lib - f_ref) < 0.01 * abs(f_ref)
    print(f'{name:4s} file n_d={nd:.5f}  library n_d={n_lib:.5f} '
          f'({picked});  EFL library={f_lib:.4f}  expected={f_ref:.4f}  '
          f'{"ok" if ok else "VIOLATED"}')
    failed |= not ok

sys.exit(1 if failed else 0)

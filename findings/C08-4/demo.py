"""C08 defect 4: the chief ray used for the Seidel terms is scaled to
max(y-field) (signed, y only) instead of the largest radial field. A field list
that is rotated into x, that lies on the negative y side, or that is diagonal
gives all field-dependent Seidel terms for the wrong (often zero) field.

Independent paths:
  (a) rotational symmetry: the same 5 deg maximum field placed at (0,5), (5,0),
      (0,-5) or (3,4) must give the same S1, S3, S4 and the same |S2|, |S5|;
  (b) the library's own normalised-field paraxial trace,
      optic.paraxial.trace(Hy=1, Py=0, wl), which scales Hy by
      fields.max_field (radial) - a second path through the API;
  (c) classical formulas on an own paraxial trace for a 5 deg chief ray.
"""
import contextlib
import io
import sys
import numpy as np
from optiland import optic


def lens(fields):
    o = optic.Optic()
    o.add_surface(index=0, radius=np.inf, thickness=np.inf)
    o.add_surface(index=1, radius=50, thickness=5, material='N-BK7')
    o.add_surface(index=2, radius=-80, thickness=4)
    o.add_surface(index=3, radius=np.inf, thickness=56, is_stop=True)
    o.add_surface(index=4)
    o.set_aperture(aperture_type='EPD', value=10)
    o.set_field_type(field_type='angle')
    for x, y in fields:
        o.add_field(x=x, y=y)
    o.add_wavelength(value=0.5876, is_primary=True)
    return o


def classical_sums(o, field_deg):
    sg = o.surface_group
    z = np.array([float(np.ravel(p)[0]) for p in sg.positions])
    R = np.array([float(r) for r in sg.radii])
    c = np.where(np.isinf(R), 0.0, 1.0 / R)
    n = np.array([float(np.ravel(v)[0]) for v in o.n()])
    stop = sg.stop_index
    N = len(z)

    def tr(y1, u0):
        y = np.zeros(N)
        u = np.zeros(N)
        u[0] = u0
        y[1] = y1
        for k in range(1, N):
            if k > 1:
                y[k] = y[k - 1] + u[k - 1] * (z[k] - z[k - 1])
            u[k] = (n[k - 1] * u[k - 1]
                    - y[k] * c[k] * (n[k] - n[k - 1])) / n[k]
        return y, u
    ya, ua = tr(o.aperture.value / 2, 0.0)
    yA, _ = tr(1.0, 0.0)
    yB, _ = tr(0.0, 1.0)
    t = np.tan(np.deg2rad(field_deg))
    yb, ub = tr(-t * yB[stop] / yA[stop], t)
    H = n[0] * (yb[1] * ua[0] - ya[1] * ub[0])
    S = np.zeros(5)
    for k in range(1, N - 1):
        n0, n1 = n[k - 1], n[k]
        A = n0 * (ua[k - 1] + ya[k] * c[k])
        Ab = n0 * (ub[k - 1] + yb[k] * c[k])
        dun = ua[k] / n1 - ua[k - 1] / n0
        d1n = 1 / n1 - 1 / n0
        S += [-A * A * ya[k] * dun, -A * Ab * ya[k] * dun,
              -Ab * Ab * ya[k] * dun, -H * H * c[k] * d1n,
              -Ab * (Ab * Ab * ya[k] * (1 / n1**2 - 1 / n0**2)
                     + c[k] * d1n * yb[k] * (H - Ab * ya[k]))]
    return -S, yb, ub        # library sign convention: S_lib = -S_classical


np.set_printoptions(precision=6, linewidth=160)
configs = [('(0,0),(0,5)   reference', [(0, 0), (0, 5)]),
           ('(0,0),(5,0)   x only', [(0, 0), (5, 0)]),
           ('(0,0),(0,-5)  negative y', [(0, 0), (0, -5)]),
           ('(0,0),(3,4)   diagonal, r=5', [(0, 0), (3, 4)])]
failures = 0
for label, fl in configs:
    with contextlib.redirect_stdout(io.StringIO()):
        o = lens(fl)
    S_lib = np.ravel(o.aberrations.seidels())
    S_exp, yb_exp, ub_exp = classical_sums(o, o.fields.max_field)
    yb_l, ub_l = [np.ravel(a) for a in o.paraxial.chief_ray()]
    # second API path: normalised paraxial trace of the full-field chief ray
    o.paraxial.trace(1.0, 0.0, o.primary_wavelength)
    ub_api = np.ravel(o.surface_group.u)
    print('== fields', label, ' max_field =', o.fields.max_field,
          ' max_y_field =', o.fields.max_y_field)
    print('   chief-ray slopes  chief_ray()          :', ub_l)
    print('   chief-ray slopes  paraxial.trace(Hy=1) :', ub_api)
    print('   Seidel sums library :', S_lib)
    print('   Seidel sums expected:', S_exp, '(S2, S5 up to the field sign)')
    ok = (np.allclose(np.abs(S_lib), np.abs(S_exp), rtol=1e-8, atol=1e-15)
          and np.allclose(S_lib[[0, 2, 3]], S_exp[[0, 2, 3]], rtol=1e-8))
    if label.endswith('reference'):
        assert ok, 'control must pass'
        assert np.allclose(ub_l, ub_api) and np.allclose(ub_l, ub_exp)
        print('   control passes')
    elif not ok:
        failures += 1
        print('   MISMATCH')

if failures:
    print('FAIL: %d field lists with a 5 deg maximum field give Seidel sums '
          'for the wrong field' % failures)
    sys.exit(1)
print('OK')

"""C17 demo 4: after Optic.set_index the Fresnel coating keeps using the OLD
indices, so the traced transmittance no longer follows the Fresnel coefficients
of the surface's actual index pair.

Independent value: normal incidence through a lens in air,
I = [(1 - ((1-n)/(1+n))^2)]^2 (both faces), and a second path through the API:
an identical lens built from scratch with the new index.
"""
import sys
import numpy as np
from optiland.optic import Optic
from optiland.materials import IdealMaterial
from optiland.rays import create_polarization


def build(n):
    o = Optic()
    o.add_surface(index=0, thickness=np.inf)
    o.add_surface(index=1, thickness=5, radius=40,
                  material=IdealMaterial(n=n), is_stop=True)
    o.add_surface(index=2, thickness=37, radius=-40)
    o.add_surface(index=3)
    o.set_aperture('EPD', 10.0)
    o.set_field_type('angle')
    o.add_field(y=0)
    o.add_field(y=10)
    o.add_wavelength(0.55, is_primary=True)
    o.surface_group.set_fresnel_coatings()
    return o


def axial_intensity(o, state):
    o.set_polarization(create_polarization(state))
    rays = o.trace(0, 0, 0.55, num_rays=1, distribution='hexapolar')
    return float(rays.i[0])      # hexapolar(1) -> first ray is the axial ray


def formula(n):
    R = ((1 - n) / (1 + n))**2
    return (1 - R)**2


failures = []
edited = build(1.5)
for state in ('H', 'V', 'RCP', 'unpolarized'):
    i0 = axial_intensity(edited, state)
    assert abs(i0 - formula(1.5)) < 1e-12, (i0, formula(1.5))
print(f'n=1.5 : library I = {i0:.9f}, formula = {formula(1.5):.9f}  (agree)')

edited.set_index(2.0, 1)          # the edit: glass index 1.5 -> 2.0
fresh = build(2.0)
surf = edited.surface_group.surfaces[1]
print('after set_index(2.0, 1): surface n_post =',
      float(surf.material_post.n(0.55)), ' coating n_post =',
      float(surf.coating.material_post.n(0.55)))
for state in ('H', 'V', 'RCP', 'unpolarized'):
    got = axial_intensity(edited, state)
    ref = axial_intensity(fresh, state)
    exp = formula(2.0)
    print(f'n=2.0, {state:11s}: edited lens I = {got:.9f}, freshly built lens I = '
          f'{ref:.9f}, formula = {exp:.9f}')
    if abs(got - exp) > 1e-9 or abs(got - ref) > 1e-9:
        failures.append(f'{state}: I={got:.9f} expected {exp:.9f}')

if failures:
    print('FAIL: Fresnel coefficients use stale indices after set_index:')
    for f in failures:
        print('  ', f)
    sys.exit(1)
print('OK')

"""C15 / 3 - a decentre perturbation corrupts the paraxial operands (f2, ...).

The effective focal length of a lens is a first-order quantity: decentring one
of its surfaces adds a prism (a constant deviation) but does not change the
power.  In a sensitivity / Monte-Carlo run with a 'decenter' perturbation the
recorded 'f2' must therefore stay at the y-nu focal length of the lens.

Reference: own y-nu trace (numpy only) and, as a cross-check that does not rely
on that argument, the focal length from the *difference* of two exact real rays
traced through the decentred lens (own tracer).
"""
import sys
import warnings
import numpy as np

warnings.filterwarnings('ignore')

from optiland import optic
from optiland.materials import IdealMaterial
from optiland.tolerancing import (Tolerancing, SensitivityAnalysis,
                                  RangeSampler, DistributionSampler)
from optiland.tolerancing.monte_carlo import MonteCarlo

N = 1.5
T = 5.0
BFD = 48.0
R1 = 50.0
R2 = -50.0


def make_lens():
    o = optic.Optic()
    o.add_surface(index=0, thickness=np.inf)
    o.add_surface(index=1, thickness=T, radius=R1, is_stop=True,
                  material=IdealMaterial(n=N))
    o.add_surface(index=2, thickness=BFD, radius=R2)
    o.add_surface(index=3)
    o.set_aperture('EPD', 10.0)
    o.set_field_type('angle')
    o.add_field(0)
    o.add_wavelength(0.55, is_primary=True)
    return o


# ---------------------------------------------------------------- reference
def efl_ynu():
    y, nu = 1.0, 0.0
    nu -= y * (N - 1) / R1
    y += T * nu / N
    nu -= y * (1 - N) / R2
    return -1.0 / nu


def refract(d, nrm, n1, n2):
    mu = n1 / n2
    cosi = -np.dot(d, nrm)
    return mu * d + (mu * cosi - np.sqrt(1 - mu ** 2 * (1 - cosi ** 2))) * nrm


def sphere_hit(p, d, yv, zv, r):
    c = np.array([yv, zv + r])
    oc = p - c
    b = np.dot(oc, d)
    disc = b * b - (np.dot(oc, oc) - r * r)
    s = -b - np.sqrt(disc) if r > 0 else -b + np.sqrt(disc)
    q = p + s * d
    nrm = (q - c) / r
    if nrm[1] > 0:
        nrm = -nrm
    return q, nrm


def slope_after(y0, dy2):
    p = np.array([y0, -10.0])
    d = np.array([0.0, 1.0])
    p, nrm = sphere_hit(p, d, 0.0, 0.0, R1)
    d = refract(d, nrm, 1.0, N)
    p, nrm = sphere_hit(p, d, dy2, T, R2)
    d = refract(d, nrm, N, 1.0)
    return d[0] / d[1]


def efl_real_differential(dy2, h=1e-3):
    """-dy / du' of two exact rays close to the axis of the decentred lens"""
    return -2 * h / (slope_after(h, dy2) - slope_after(-h, dy2))


F_REF = efl_ynu()
bad = 0


def check(kind, dy, got):
    global bad
    f_diff = efl_real_differential(dy)
    ok = abs(got - F_REF) < 1e-3
    print(f'{kind:12s} decentre y of surface 2 = {dy: .4f}  recorded f2 = '
          f'{got: .5f}  y-nu = {F_REF: .5f}  two exact rays = {f_diff: .5f}  '
          f'{"ok" if ok else "VIOLATION"}')
    bad += not ok


o = make_lens()
assert abs(o.paraxial.f2() - F_REF) < 1e-9

o = make_lens()
t = Tolerancing(o)
t.add_operand('f2', {'optic': o})
t.add_perturbation('decenter', RangeSampler(-0.2, 0.2, 5), surface_number=2,
                   axis='y')
sa = SensitivityAnalysis(t)
sa.run()
for _, row in sa.get_results().iterrows():
    check('sensitivity', row['perturbation_value'], row['0: f2'])

o = make_lens()
t = Tolerancing(o)
t.add_operand('f2', {'optic': o})
t.add_perturbation('decenter',
                   DistributionSampler('normal', seed=3, loc=0.0, scale=0.05),
                   surface_number=2, axis='y')
mc = MonteCarlo(t)
mc.run(4)
for _, row in mc.get_results().iterrows():
    check('monte carlo', row['Decenter Y, Surface 2'], row['0: f2'])

sys.exit(1 if bad else 0)

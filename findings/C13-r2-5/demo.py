"""C13 / 5 - RayFan.view() and OPDFan.view() overwrite the stored analysis
results: after looking at the plot, .data is no longer what was computed.

Run: cd /tmp/hunt2/C13 && PYTHONPATH=/tmp/hunt2/C13 /venv/bin/python demo.py
"""
import sys
import copy
import warnings
import numpy as np
warnings.simplefilter('ignore')
import matplotlib
matplotlib.use('Agg')
import matplotlib.pyplot as plt
from optiland.optic import Optic
from optiland.materials import IdealMaterial
from optiland.physical_apertures import RadialAperture
from optiland.analysis import RayFan
from optiland.wavefront import OPDFan

# singlet whose rear surface has a clear aperture that clips the rim of the
# off-axis bundle (ordinary mechanical vignetting)
lens = Optic()
lens.add_surface(index=0, thickness=np.inf)
lens.add_surface(index=1, thickness=6, radius=50, is_stop=True,
                 material=IdealMaterial(1.6, 0.0))
lens.add_surface(index=2, thickness=40, radius=-50,
                 aperture=RadialAperture(r_max=4.6))
lens.add_surface(index=3)
lens.set_aperture('EPD', 10)
lens.set_field_type('angle')
lens.add_field(0)
lens.add_field(6)
lens.add_wavelength(0.55, is_primary=True)
W = '0.55'


def flat(obj):
    out = []
    def rec(v):
        if isinstance(v, dict):
            for k in sorted(v):
                rec(v[k])
        elif isinstance(v, (list, tuple)):
            for e in v:
                rec(e)
        else:
            out.append(np.ravel(np.asarray(v, dtype=float)))
    rec(obj)
    return np.concatenate(out)


bad = False
for name, make in (('RayFan', lambda: RayFan(lens, num_points=21)),
                   ('OPDFan', lambda: OPDFan(lens, num_rays=21))):
    analysis = make()
    before = flat(copy.deepcopy(analysis.data))
    analysis.view()
    plt.close('all')
    after = flat(analysis.data)
    fresh = flat(make().data)          # the lens itself is unchanged
    n_changed = int(np.sum(~((before == after) |
                             (np.isnan(before) & np.isnan(after)))))
    print(f'{name}: results recomputed on the same lens identical to the first '
          f'run: {np.array_equal(before, fresh, equal_nan=True)}')
    print(f'{name}: values of .data changed by view(): {n_changed} of '
          f'{before.size}; NaN before {int(np.isnan(before).sum())}, '
          f'after {int(np.isnan(after).sum())}')
    if n_changed:
        k = int(np.argmax(before != after))
        print(f'   e.g. element {k}: {before[k]!r} -> {after[k]!r}')
        bad = True

# consequence: a number computed from the same object before / after view()
fan = RayFan(lens, num_points=21)
key = str(fan.fields[1])
rms_before = float(np.sqrt(np.mean(fan.data[key][W]['y']**2)))
fan.view()
plt.close('all')
rms_after = float(np.sqrt(np.mean(fan.data[key][W]['y']**2)))
print(f'RMS of the tangential fan, field 2: before view() {rms_before:.6f}, '
      f'after view() {rms_after}')
bad = bad or not (rms_before == rms_after)

if bad:
    print('VIOLATED: the analysis results are not the same after view()')
    sys.exit(1)
print('property holds')
sys.exit(0)

"""C14 demo 4: OptimizerGeneric.optimize(method='BFGS' | 'CG') hands the
variable bounds to scipy, scipy ignores them for these methods and only emits a
RuntimeWarning - which optimize() itself suppresses.  The lens is silently left
with a bounded variable far outside its bounds.

Run:  PYTHONPATH=/tmp/hunt/C14 /venv/bin/python demo.py
"""
import warnings
import numpy as np
from optiland.samples.objectives import CookeTriplet
from optiland import optimization

R_MIN, R_MAX = 21.0, 23.0        # physical bounds on the radius of surface 1 (mm)
failures = []
for method in ('BFGS', 'CG', None):
    lens = CookeTriplet()
    problem = optimization.OptimizationProblem()
    problem.add_operand('f2', target=60, weight=1, input_data=dict(optic=lens))
    problem.add_variable(lens, 'radius', surface_number=1,
                         min_val=R_MIN, max_val=R_MAX)
    r_start = float(lens.surface_group.radii[1])
    assert R_MIN <= r_start <= R_MAX
    with warnings.catch_warnings(record=True) as caught:
        warnings.simplefilter('always')
        opt = optimization.OptimizerGeneric(problem)
        res = opt.optimize(method=method, disp=False, maxiter=50)
    # independent observation: read the prescription, not the Variable
    r_end = float(lens.surface_group.surfaces[1].geometry.radius)
    v = problem.variables[0]
    lo, hi = v.bounds
    n_warn = len([w for w in caught if 'bounds' in str(w.message)])
    print(f'method={method}: radius {r_start:.4f} -> {r_end:.4f} mm, allowed '
          f'[{R_MIN}, {R_MAX}]; variable value {float(v.value):.6f}, scaled bounds '
          f'({lo:.2f}, {hi:.2f}); warnings about bounds reaching the user: {n_warn}')
    if not (R_MIN - 1e-9 <= r_end <= R_MAX + 1e-9):
        failures.append(f'method={method}: radius {r_end:.4f} mm outside '
                        f'[{R_MIN}, {R_MAX}] by {max(R_MIN - r_end, r_end - R_MAX):.4f} mm'
                        f' and no error / warning was raised')

print()
for f in failures:
    print('VIOLATION:', f)
assert not failures, f'{len(failures)} violation(s) of C14'
print('no violation')

"""C09 / 5 - wavefront analyses reject wavelengths / fields given as numpy
arrays.

`Wavefront(optic, fields=..., wavelengths=...)` documents "str or list"; the
sentinel tests `self.fields == 'all'` / `self.wavelengths == 'all'` are
evaluated on the argument itself, so an ndarray with more than one element
raises "truth value of an array ... is ambiguous" although the same numbers as
a list work.
"""
import sys
import numpy as np
from optiland.samples.objectives import CookeTriplet
from optiland.wavefront import Wavefront, OPDFan
from optiland.analysis.rms_vs_field import RmsWavefrontErrorVsField

lens = CookeTriplet()
wl = [0.48, 0.55, 0.65]
fl = [(0.0, 0.0), (0.0, 1.0)]
ref = Wavefront(lens, fields=fl, wavelengths=wl, num_rays=3).data
bad = False
for name, call in (
        ('Wavefront(wavelengths=ndarray)',
         lambda: Wavefront(lens, fields=fl, wavelengths=np.array(wl),
                           num_rays=3).data),
        ('Wavefront(fields=ndarray)',
         lambda: Wavefront(lens, fields=np.array(fl), wavelengths=wl,
                           num_rays=3).data),
        ('OPDFan(wavelengths=ndarray)',
         lambda: OPDFan(lens, fields=fl, wavelengths=np.linspace(0.48, 0.65, 3),
                        num_rays=5).data),
        ('RmsWavefrontErrorVsField(wavelengths=ndarray)',
         lambda: RmsWavefrontErrorVsField(lens, num_fields=3,
                                          wavelengths=np.array(wl),
                                          num_rays=3).data)):
    try:
        data = call()
        if name.startswith('Wavefront'):
            ok = all(np.allclose(data[i][j][0], ref[i][j][0])
                     for i in range(2) for j in range(3))
            print(name, 'returned', 'the list result' if ok else 'DIFFERENT')
            bad |= not ok
        else:
            print(name, 'returned data')
    except Exception as exc:
        bad = True
        print(name, 'raised', type(exc).__name__ + ':', exc)
if bad:
    print('VIOLATED: expected the same OPD data as for the equivalent lists')
    sys.exit(1)
print('property holds')
sys.exit(0)

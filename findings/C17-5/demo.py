"""C17 demo 5: a surface carrying a SimpleCoating is skipped by the polarization
ray trace (no frame update at that surface, coating transmittance discarded).

A lossless SimpleCoating(transmittance=1, reflectance=0) is physically the same
as no coating, so the propagated field must stay transverse and the traced
state must equal that of the bare lens.  A SimpleCoating(0.5) must halve the
intensity of every state (and of unpolarized light).
"""
import sys
import numpy as np
from optiland.optic import Optic
from optiland.materials import IdealMaterial
from optiland.coatings import SimpleCoating
from optiland.rays import create_polarization
from optiland.distribution import create_distribution


def build(coating):
    o = Optic()
    o.add_surface(index=0, thickness=np.inf)
    o.add_surface(index=1, thickness=5, radius=40,
                  material=IdealMaterial(n=1.5), is_stop=True,
                  coating=coating)
    o.add_surface(index=2, thickness=37, radius=-40)
    o.add_surface(index=3)
    o.set_aperture('EPD', 10.0)
    o.set_field_type('angle')
    o.add_field(y=0)
    o.add_field(y=20)
    o.add_wavelength(0.55, is_primary=True)
    return o


def run(o, state_name):
    o.set_polarization(create_polarization(state_name))
    rays = o.trace(0.3, 0.7, 0.55, num_rays=6, distribution='hexapolar')
    dist = create_distribution('hexapolar')
    dist.generate_points(6)
    r0 = o.ray_generator.generate_rays(0.3, 0.7, dist.x, dist.y, 0.55)
    k_in = np.array([r0.L, r0.M, r0.N]).T
    k_out = np.array([rays.L, rays.M, rays.N]).T
    worst = 0.0
    for a in (np.array([1.0, 0.0, 0.0]), np.array([0.0, 1.0, 0.0])):
        e0 = a - (k_in @ a)[:, None] * k_in          # own transverse input field
        e0 /= np.linalg.norm(e0, axis=1)[:, None]
        e1 = np.einsum('nij,nj->ni', rays.p, e0)
        worst = max(worst, np.abs(np.sum(e1 * k_out, axis=1)).max())
    return rays, worst


failures = []
bare, w_bare = run(build(None), 'H')
print(f'bare lens                 : max|E.k| = {w_bare:.3e}, I = {bare.i.mean():.6f}')
assert w_bare < 1e-12

lossless, w_ll = run(build(SimpleCoating(1.0, 0.0)), 'H')
dp = np.abs(lossless.p - bare.p).max()
print(f'SimpleCoating(T=1) surface: max|E.k| = {w_ll:.3e} (expected 0), '
      f'max|P - P_bare| = {dp:.3e} (expected 0)')
if w_ll > 1e-9:
    failures.append(f'lossless SimpleCoating: field not transverse, |E.k|={w_ll:.3e}')

for st in ('H', 'V', 'L+45', 'RCP', 'unpolarized'):
    half, _ = run(build(SimpleCoating(0.5, 0.0)), st)
    got = float(half.i.mean())
    print(f'SimpleCoating(T=0.5), {st:11s}: I = {got:.6f} (expected 0.5)')
    if abs(got - 0.5) > 1e-9:
        failures.append(f'T=0.5 coating, {st}: I={got:.6f} expected 0.5')

if failures:
    print('FAIL:')
    for f in failures:
        print('  ', f)
    sys.exit(1)
print('OK')

"""C04 defect 2: magnification() / invariant() ignore the index sign reversal
of mirrors.

A concave mirror (R = -100, f = 50) images an object 150 mm away to a real,
INVERTED image 75 mm in front of the mirror: m = -0.5.  The library reports
m = +0.5, because magnification() = n0*u0 / (n_k*u_k) takes n_k from
Optic.n(), which is +1 after the mirror, whereas matrix optics (mirror ==
index sign reversal) has n_k = -1 there.  For the same reason invariant()
returns the Lagrange invariant with the wrong sign when surface 1 is a mirror
(H evaluated with optic.n() changes sign at every mirror instead of being one
value at every surface).

Run:  PYTHONPATH=/tmp/hunt/C04 /venv/bin/python demo.py
"""
import numpy as np
from optiland.optic import Optic

R, S_OBJ, H_OBJ, EPD = -100.0, 150.0, 10.0, 10.0

# ---- independent ABCD on (y, n*u), mirror: n -> -n ----------------------
n0, n1 = 1.0, -1.0
phi = (n1 - n0) / R                       # 0.02
# image distance: n1/s' = n0/s + phi with s = -S_OBJ
s_img = n1 / (n0 / (-S_OBJ) + phi)        # -75 (in front of mirror)
m_ref = (n0 / (-S_OBJ)) / (n1 / s_img)    # n s'/(n' s) = -0.5

o = Optic()
o.add_surface(index=0, thickness=S_OBJ)
o.add_surface(index=1, radius=R, thickness=s_img, material='mirror',
              is_stop=True)
o.add_surface(index=2)
o.set_aperture('EPD', EPD)
o.set_field_type('object_height')
o.add_field(y=0)
o.add_field(y=H_OBJ)
o.add_wavelength(0.55, is_primary=True)
px = o.paraxial

m_lib = px.magnification()

# second path through the API: image height of the chief ray / object height.
# (library convention: the chief ray of field +H leaves the object at y=-H)
ya, ua = px.marginal_ray()
yb, ub = px.chief_ray()
assert abs(ya[-1][0]) < 1e-9, 'image plane is at the paraxial focus'
m_chief = float(yb[-1][0]) / (-H_OBJ)

print('concave mirror R=%g, object at %g, image at %g' % (R, S_OBJ, s_img))
print('  magnification()              : % .9f' % m_lib)
print('  ABCD (n\' = -n after mirror)   : % .9f' % m_ref)
print('  chief-ray image h / object h : % .9f   (library\'s own chief_ray)'
      % m_chief)

# Lagrange invariant: object space value from the returned rays
#   H = n (yb*ua - ya*ub); at the object plane ya = 0, yb = -H_OBJ
H_obj = n0 * (-H_OBJ) * float(ua[0][0])
# after the mirror, signed index n1 = -1, rays as returned at surface 1
H_1_signed = n1 * (float(yb[1][0]) * float(ua[1][0])
                   - float(ya[1][0]) * float(ub[1][0]))
H_lib = px.invariant()
print('  Lagrange invariant in object space (from returned rays): % .9f'
      % H_obj)
print('  same, after the mirror with n\' = -1                     : % .9f'
      % H_1_signed)
print('  invariant()                                             : % .9f'
      % H_lib)

fails = []
if abs(m_lib - m_ref) > 1e-9:
    fails.append('magnification %.6f != %.6f' % (m_lib, m_ref))
if abs(H_lib - H_obj) > 1e-9 * abs(H_obj):
    fails.append('invariant %.6f != %.6f' % (H_lib, H_obj))
assert not fails, '; '.join(fails)

"""C16 demo 2: a ray that was blocked by a physical aperture (intensity 0) gets
intensity NaN - not 0 - at every later surface as soon as it fails to
intersect a later surface (or has undergone total internal reflection).
NaN is outside [0, 1], is "!= 0" for the analyses' transmitted-ray masks, and
contradicts "zero intensity from that surface onward".

Independent reference: the entrance heights of the rays are known exactly
(collimated on-axis beam, plane first surface), so which rays are outside the
aperture of surface 1 is decided here without the library; the property then
fixes their intensity to exactly 0 on surface 1 and on all later surfaces.
"""
import sys
import warnings
import numpy as np
from optiland.optic import Optic
from optiland.materials import IdealMaterial
from optiland.physical_apertures import RadialAperture
from optiland.analysis import SpotDiagram

warnings.filterwarnings("ignore")  # the library emits RuntimeWarnings for NaN
WL = 0.55
EPD = 12.0
R_AP = 3.0

o = Optic()
o.add_surface(index=0, thickness=np.inf)
# plane front face with a 3 mm clear semi-aperture, glass n = 1.5
o.add_surface(index=1, thickness=2.0, is_stop=True,
              material=IdealMaterial(n=1.5, k=0.0),
              aperture=RadialAperture(r_max=R_AP))
# strongly curved back face: sphere of radius 4 -> rays higher than 4 mm
# cannot intersect it at all
o.add_surface(index=2, thickness=6.0, radius=-4.0)
o.add_surface(index=3)
o.set_aperture('EPD', EPD)
o.set_field_type('angle')
o.add_field(0)
o.add_wavelength(WL, is_primary=True)

n_rays = 13
rays = o.trace(0, 0, WL, num_rays=n_rays, distribution='line_y')
I = o.surface_group.intensity

# independent: heights of a collimated on-axis line_y fan on a plane surface
h = np.linspace(-1, 1, n_rays) * EPD / 2
outside = np.abs(h) > R_AP

print("entrance heights            :", h)
print("outside aperture of surf 1  :", outside.astype(int))
for j in range(I.shape[0]):
    print(f"intensity recorded, surface {j}:", I[j])
print("rays.i returned by trace    :", rays.i)

failures = []
for j in range(1, I.shape[0]):
    bad = ~(I[j][outside] == 0)
    if np.any(bad):
        failures.append(
            f"surface {j}: {int(bad.sum())} of {int(outside.sum())} rays "
            f"blocked at surface 1 have intensity {I[j][outside][bad][0]} "
            "instead of 0")
if not np.all(rays.i[outside] == 0):
    failures.append("rays.i of blocked rays is not 0: "
                    f"{rays.i[outside]}")
if not np.all((I >= 0) & (I <= 1)):
    failures.append(f"{int(np.sum(~((I >= 0) & (I <= 1))))} recorded "
                    "intensities are not inside [0, 1] (NaN)")

sd = SpotDiagram(o, num_rings=6)
inten = sd.data[0][0][2]
n_transmitted_reported = int(np.sum(inten != 0))      # mask used by the lib
pts = o.trace(0, 0, WL, 6, 'hexapolar')
r_in = np.hypot(o.surface_group.x[1], o.surface_group.y[1])
n_inside = int(np.sum(r_in <= R_AP))
print(f"SpotDiagram: {n_transmitted_reported} rays with intensity != 0; "
      f"{n_inside} rays are inside the aperture")
if n_transmitted_reported > n_inside:
    failures.append(f"SpotDiagram intensity array marks "
                    f"{n_transmitted_reported} rays as transmitted, only "
                    f"{n_inside} pass the aperture")

print()
if failures:
    print("PROPERTY C16 VIOLATED:")
    for f in failures:
        print("  -", f)
    sys.exit(1)
print("OK")

"""C19 / 2 - a reloaded mirror system goes dark when Fresnel coatings are
switched on.

Lens + fold mirror.  The lens is saved to JSON and loaded again.  On both
lenses polarized tracing is then enabled the documented way
(set_polarization + surface_group.set_fresnel_coatings()).  The original
transmits (1 - R)^2 of the light (the mirror is left alone), the reloaded
lens transmits nothing: its mirror got a Fresnel coating between two equal
media, whose reflectance is 0.
"""
import sys
import os
import tempfile
import warnings
import numpy as np
from optiland.optic import Optic
from optiland.materials import IdealMaterial
from optiland.rays import create_polarization
from optiland.fileio.optiland_handler import (save_optiland_file,
                                               load_optiland_file)

warnings.filterwarnings('ignore')
N = 1.5


def build():
    o = Optic()
    o.add_surface(index=0, thickness=np.inf)
    o.add_surface(index=1, radius=80, thickness=5, material=IdealMaterial(N),
                  is_stop=True)
    o.add_surface(index=2, radius=-80, thickness=30)
    o.add_surface(index=3, radius=-300, thickness=-40, material='mirror')
    o.add_surface(index=4)
    o.set_aperture('EPD', 10)
    o.set_field_type('angle')
    o.add_field(0)
    o.add_wavelength(0.55, is_primary=True)
    return o


lens = build()
fn = os.path.join(tempfile.mkdtemp(), 'lens.json')
save_optiland_file(lens, fn)
loaded = load_optiland_file(fn)

# identical edit history on both lenses
result = {}
for label, o in (('original', lens), ('reloaded', loaded)):
    o.set_polarization(create_polarization('unpolarized'))
    o.surface_group.set_fresnel_coatings()
    rays = o.trace(0.0, 0.0, 0.55, num_rays=3, distribution='line_y')
    assert rays.x[1] == 0 and abs(rays.y[1]) < 1e-12      # axial ray
    result[label] = float(rays.i[1])
    coat = [type(s.coating).__name__ if s.coating else '-'
            for s in o.surface_group.surfaces]
    print(f'{label}: coatings {coat}, intensity of the axial ray '
          f'{result[label]:.6f}')

# independent value: two uncoated air/glass interfaces at normal incidence,
# an uncoated mirror (the library reflects 100 % there)
R = ((N - 1) / (N + 1))**2
expected = (1 - R)**2
print(f'expected (1-R)^2 with R = {R:.4f}: {expected:.6f}')

bad = (abs(result['original'] - expected) > 1e-9 or
       abs(result['reloaded'] - expected) > 1e-9)
if bad:
    print('VIOLATION: original', result['original'], 'reloaded',
          result['reloaded'], 'expected', expected)
sys.exit(1 if bad else 0)

"""C11 defect 2: GeometricMTF ignores the finite-conjugate working F-number.

The cut-off of every MTF frequency axis must be 1 / (wavelength x working
F-number). For a finite object distance the working F-number is
1 / (2 |u'|), u' being the image-space marginal ray slope; FFTMTF uses it,
GeometricMTF uses the infinite-conjugate f / EPD instead.
"""
import sys
import numpy as np
from optiland import optic
from optiland.mtf import GeometricMTF, FFTMTF


def finite_triplet(object_distance=100.0):
    lens = optic.Optic()
    lens.add_surface(index=0, radius=np.inf, thickness=object_distance)
    lens.add_surface(index=1, radius=22.01359, thickness=3.25896,
                     material='SK16')
    lens.add_surface(index=2, radius=-435.76044, thickness=6.00755)
    lens.add_surface(index=3, radius=-22.21328, thickness=0.99997,
                     material=('F2', 'schott'))
    lens.add_surface(index=4, radius=20.29192, thickness=4.75041,
                     is_stop=True)
    lens.add_surface(index=5, radius=79.68360, thickness=2.95208,
                     material='SK16')
    lens.add_surface(index=6, radius=-18.39533, thickness=42.20778)
    lens.add_surface(index=7)
    lens.set_aperture(aperture_type='EPD', value=10)
    lens.set_field_type(field_type='object_height')
    lens.add_field(y=0)
    lens.add_field(y=5)
    lens.add_wavelength(value=0.55, is_primary=True)
    lens.image_solve()      # paraxial focus for the finite object
    return lens


wavelength = 0.55
lens = finite_triplet()

# independent working F-number 1: paraxial marginal ray slope at the image
_, ua = lens.paraxial.marginal_ray()
wfno_paraxial = 1 / (2 * abs(ua[-1, 0]))
# independent working F-number 2: real marginal ray, 1 / (2 sin U')
lens.trace_generic(0., 0., 0., 1., wavelength)
wfno_real = 1 / (2 * abs(lens.surface_group.M[-1, 0]))
cutoff_expected = 1 / (wavelength * 1e-3 * wfno_paraxial)

geo = GeometricMTF(lens, fields=[(0, 0)], num_rays=64)
fft = FFTMTF(lens, fields=[(0, 0)], num_rays=64, grid_size=256)

print(f'magnification                  : {lens.paraxial.magnification():.4f}')
print(f'f/EPD (infinite conjugate FNO) : {lens.paraxial.FNO():.4f}')
print(f'working FNO, paraxial 1/(2u\')  : {wfno_paraxial:.4f}')
print(f'working FNO, real ray 1/(2sinU): {wfno_real:.4f}')
print(f'expected cut-off  [cycles/mm]  : {cutoff_expected:.3f}')
print(f'FFTMTF.max_freq                : {fft.max_freq:.3f}')
print(f'GeometricMTF.max_freq          : {geo.max_freq:.3f}')
print(f'GeometricMTF.freq[-1]          : {geo.freq[-1]:.3f}')

# the diffraction limited curve evaluated at the physical frequencies
nu = geo.freq
phi = np.arccos(np.clip(nu / cutoff_expected, 0, 1))
ideal = 2 / np.pi * (phi - np.cos(phi) * np.sin(phi))
excess = np.max(geo.diff_limited_mtf - ideal)
k = np.argmax(geo.diff_limited_mtf - ideal)
print(f'GeometricMTF.diff_limited_mtf exceeds the true diffraction limit by '
      f'{excess:.3f} at {nu[k]:.1f} cycles/mm '
      f'(reported {geo.diff_limited_mtf[k]:.3f}, true {ideal[k]:.3f})')
beyond = nu > cutoff_expected * (1 + 1e-9)
if np.any(beyond):
    print(f'largest tangential geometric MTF reported beyond the true '
          f'cut-off: {np.max(geo.mtf[0][0][beyond]):.3f} (must be 0)')

rel = abs(geo.max_freq - cutoff_expected) / cutoff_expected
if rel > 0.02 or excess > 0.02:
    print(f'FAIL: GeometricMTF cut-off off by {100 * rel:.1f} %')
    sys.exit(1)
print('PASS')

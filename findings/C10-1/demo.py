"""C10 / defect 1: ZernikeFit solves a LINEAR least-squares problem with
scipy.optimize.least_squares and a forward-difference Jacobian (step ~1.5e-8).
The Jacobian is polluted by the rounding error of the residual vector, which
is proportional to the magnitude of the DATA.  Consequences:

  (A) data of magnitude >~ 3e7 : the finite difference h*Z_k is below the
      rounding unit of the residual, the Jacobian is garbage / exactly 0, the
      gradient test "converges" at (or next to) the initial guess -> the
      coefficients are ~0 instead of ~1e8 (exact combination of the first N
      terms NOT recovered, fit(s*z) != s*fit(z)).
  (B) data with a large component outside the span of the first N terms
      (a large truncation residual R): coefficient error grows like R**2
      (~6e-10 * R**2), i.e. the fit is not the least-squares solution and is
      not homogeneous in the data.
  (C) same thing seen through ZernikeOPD on a strongly aberrated, rotationally
      symmetric lens on axis.

Reference values: known generating coefficients (A) and numpy.linalg.lstsq on
a design matrix built column by column through the public API (B, C).
"""
import sys
import warnings
import numpy as np

warnings.filterwarnings('ignore')
from optiland.zernike import (ZernikeFit, ZernikeFringe, ZernikeStandard,
                              ZernikeNoll)
from optiland.distribution import create_distribution

CLS = {'fringe': ZernikeFringe, 'standard': ZernikeStandard,
       'noll': ZernikeNoll}


def basis(kind, ks, x, y):
    """columns Z_k(x, y) for k in ks, evaluated one unit vector at a time"""
    r = np.hypot(x, y)
    p = np.arctan2(y, x)
    cols = []
    for k in ks:
        c = [0.0] * (k + 1)
        c[k] = 1.0
        cols.append(CLS[kind](c).poly(r, p) * np.ones_like(r))
    return np.array(cols).T


d = create_distribution('hexapolar')
d.generate_points(15)           # 721 well spread points, the library default
x, y = d.x, d.y
rng = np.random.default_rng(0)
failures = []

# ---------------------------------------------------------------- (A)
print('(A) exact combination of the first N terms, scaled by s')
for kind in ('fringe', 'standard', 'noll'):
    N = 37
    A = basis(kind, range(N), x, y)
    c = rng.normal(size=N)
    base = np.array(ZernikeFit(x, y, A @ c, kind, N).coeffs)
    for s in (1.0, 1e4, 1e8):
        got = np.array(ZernikeFit(x, y, A @ (s * c), kind, N).coeffs)
        err = np.max(np.abs(got - s * c)) / (s * np.max(np.abs(c)))
        hom = np.max(np.abs(got - s * base)) / (s * np.max(np.abs(base)))
        print(f'  {kind:8s} N={N} s={s:7.0e}: max|got|={np.max(np.abs(got)):.3e}'
              f'  expected max|c|={s*np.max(np.abs(c)):.3e}'
              f'  rel.err={err:.2e}  |fit(s z)-s fit(z)|/..={hom:.2e}')
        if err > 1e-9:
            failures.append(f'A {kind} s={s}: rel.err {err:.2e}')

# ---------------------------------------------------------------- (B)
print('(B) first-N combination (|c|~1) + R * Z_51 (outside the fitted span)')
for kind in ('fringe', 'noll'):
    N = 37
    A = basis(kind, range(N), x, y)
    out = basis(kind, [50], x, y)[:, 0]
    c = rng.normal(size=N)
    for R in (0.0, 1e2, 1e3, 1e4, 1e5):
        z = A @ c + R * out
        ref = np.linalg.lstsq(A, z, rcond=None)[0]
        got = np.array(ZernikeFit(x, y, z, kind, N).coeffs)
        dev = np.max(np.abs(got - ref))
        rel = dev / np.max(np.abs(ref))
        print(f'  {kind:8s} R={R:7.0e}: max|coeff - lstsq| = {dev:.3e}'
              f'   relative to max|lstsq coeff| = {rel:.2e}')
        if rel > 1e-9:
            failures.append(f'B {kind} R={R}: rel.dev {rel:.2e}')

# ---------------------------------------------------------------- (C)
print('(C) ZernikeOPD, Edmund 49-847 singlet, on axis, 0.486 um')
from optiland.wavefront import ZernikeOPD
from optiland.samples.simple import Edmund_49_847
lens = Edmund_49_847()
zo = ZernikeOPD(lens, (0, 0), 0.4861327, zernike_type='fringe', num_terms=6)
A = basis('fringe', range(6), zo.x, zo.y)
ref = np.linalg.lstsq(A, zo.z, rcond=None)[0]
got = np.array(zo.coeffs)
print('  sampled OPD max |z| = %.1f waves' % np.max(np.abs(zo.z)))
print('  lstsq  coeffs:', np.array2string(ref, precision=3))
print('  library coeffs:', np.array2string(got, precision=3))
print('  (terms 2,3,5,6 are forbidden by rotational symmetry: lstsq gives'
      ' ~1e-13, the library ~1e-5)')
rel = np.max(np.abs(got - ref)) / np.max(np.abs(ref))
print('  max|coeff - lstsq| = %.3e (relative %.2e)'
      % (np.max(np.abs(got - ref)), rel))
if rel > 1e-9:
    failures.append(f'C ZernikeOPD rel.dev {rel:.2e}')

print()
if failures:
    print('PROPERTY VIOLATED:')
    for f in failures:
        print('  ', f)
assert not failures, 'ZernikeFit does not return the least-squares solution'
print('ok')

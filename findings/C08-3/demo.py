"""C08 defect 3: with a zero Lagrange invariant (only the on-axis field is
defined, or the largest y-field is 0) the spherical terms TSC / SC and the sum
S1 are returned as 0, although spherical aberration does not depend on the
field at all.

Independent paths:
  (a) Smith's formula with the invariant cancelled analytically,
        TSC_k = n (n'-n) y (u'+i) i^2 / (2 n' n'_K u'_K)
      on an own paraxial marginal-ray trace of the public prescription;
  (b) the same optic with one extra 5 deg field (spherical must not change);
  (c) a real marginal ray (optic.trace_generic) in the small-aperture limit.
"""
import contextlib
import io
import sys
import numpy as np
from optiland import optic


def singlet(fields, epd):
    o = optic.Optic()
    o.add_surface(index=0, radius=np.inf, thickness=np.inf)
    o.add_surface(index=1, radius=50, thickness=5, material='N-BK7',
                  is_stop=True)
    o.add_surface(index=2, radius=-80, thickness=60)
    o.add_surface(index=3)
    o.set_aperture(aperture_type='EPD', value=epd)
    o.set_field_type(field_type='angle')
    for f in fields:
        o.add_field(y=f)
    o.add_wavelength(value=0.5876, is_primary=True)
    o.image_solve()
    return o


def tsc_classical(o):
    sg = o.surface_group
    z = np.array([float(np.ravel(p)[0]) for p in sg.positions])
    R = np.array([float(r) for r in sg.radii])
    c = np.where(np.isinf(R), 0.0, 1.0 / R)
    n = np.array([float(np.ravel(v)[0]) for v in o.n()])
    N = len(z)
    y = np.zeros(N)
    u = np.zeros(N)
    y[1] = o.aperture.value / 2      # EPD aperture, infinite object
    for k in range(1, N):
        if k > 1:
            y[k] = y[k - 1] + u[k - 1] * (z[k] - z[k - 1])
        u[k] = (n[k - 1] * u[k - 1] - y[k] * c[k] * (n[k] - n[k - 1])) / n[k]
    out = []
    for k in range(1, N - 1):
        i = u[k - 1] + y[k] * c[k]
        out.append(n[k - 1] * (n[k] - n[k - 1]) * y[k] * (u[k] + i) * i * i
                   / (2 * n[k] * n[-1] * u[-1]))
    return np.array(out), u[-1]


np.set_printoptions(precision=6, linewidth=160)
with contextlib.redirect_stdout(io.StringIO()):
    on_axis = singlet([0.0], 2.0)
    with_field = singlet([0.0, 5.0], 2.0)

exp, uK = tsc_classical(on_axis)
lib = np.ravel(on_axis.aberrations.TSC())
lib_sc = np.ravel(on_axis.aberrations.SC())
lib_S1 = float(np.ravel(on_axis.aberrations.seidels())[0])
ref = np.ravel(with_field.aberrations.TSC())
ref_S1 = float(np.ravel(with_field.aberrations.seidels())[0])
on_axis.trace_generic(0.0, 0.0, 0.0, 1.0, 0.5876)
y_real = float(on_axis.surface_group.y[-1, 0])

print('Lagrange invariant (on-axis field only):', on_axis.paraxial.invariant())
print('TSC library, fields=[0]      :', lib)
print('TSC library, fields=[0, 5deg]:', ref)
print('TSC classical (own trace)    :', exp)
print('SC  library, fields=[0]      :', lib_sc, ' expected', -exp / uK)
print('S1  library, fields=[0]      : %.6e   with 5deg field: %.6e'
      % (lib_S1, ref_S1))
print('real marginal-ray error in the paraxial image plane: %.6e ; '
      'sum(TSC) library %.6e ; classical %.6e' % (y_real, lib.sum(), exp.sum()))

assert np.allclose(ref, exp, rtol=1e-9), 'control: classical formula'
ok = (np.allclose(lib, exp, rtol=1e-9) and np.isclose(lib_S1, ref_S1, rtol=1e-9)
      and abs(lib.sum() / y_real - 1) < 1e-2)
if not ok:
    print('FAIL: spherical aberration vanishes when only the on-axis field is '
          'defined (expected %s, got %s)' % (exp, lib))
    sys.exit(1)
print('OK')

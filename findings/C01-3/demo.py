"""C01 defect 3: set_thickness(<finite>, 0) on a lens with an object at
infinity turns EVERY vertex position into NaN.

Independent model: vertex k = running sum of the thicknesses, first surface at
z = 0, object at -t0. A thickness edit changes exactly that thickness.
"""
import numpy as np
from optiland.samples.objectives import CookeTriplet

lens = CookeTriplet()                      # object at infinity
before = lens.surface_group.positions.ravel().copy()
thick = list(np.diff(before))              # thicknesses read back
assert np.isinf(thick[0])

NEW_T0 = 100.0                             # bring the object to 100 mm
lens.set_thickness(NEW_T0, 0)
thick[0] = NEW_T0

expected = np.concatenate([[-thick[0]], [0.0], np.cumsum(thick[1:])])
got = lens.surface_group.positions.ravel()
print('positions before :', before)
print('expected after   :', expected)
print('observed after   :', got)
print('thickness 0 read back:', lens.surface_group.get_thickness(0),
      ' expected', NEW_T0)

ok = np.all(np.isfinite(got)) and np.allclose(got, expected, rtol=1e-12,
                                               atol=1e-12)
if not ok:
    print('FAIL: set_thickness(%.1f, 0) on an infinite-conjugate lens '
          'destroyed %d of %d vertex positions (NaN)'
          % (NEW_T0, int(np.sum(np.isnan(got))), got.size))
assert ok

"""C20 defect 3: "GLAS MIRROR" on a STANDARD surface is imported as a
*refracting* model glass AbbeMaterial(1.5, 40) - the surface does not reflect.

Independent paths: (a) mirror equation |f| = |R|/2 and marginal ray height 0
at the written image distance R/2; (b) the same prescription typed in through
Optic.add_surface(material='mirror'); (c) a real-ray trace.
"""
import os
import tempfile
import numpy as np
from optiland.fileio.zemax_handler import load_zemax_file

# concave spherical mirror R = -100 mm, image 50 mm in front of it
ZMX = """MODE SEQ
UNIT MM X W X CM MR CPMM
ENPD 10.0
GCAT SCHOTT
FTYP 0 0 1 1 0 0 0 0
XFLN 0.0
YFLN 0.0
WAVM 1 0.55 1
PWAV 1
SURF 0
  TYPE STANDARD
  CURV 0.0
  DISZ INFINITY
SURF 1
  STOP
  TYPE STANDARD
  CURV -0.01
  DISZ -50.0
  GLAS MIRROR 0 0 1.5 40
SURF 2
  TYPE STANDARD
  CURV 0.0
  DISZ 0.0
"""

fd, path = tempfile.mkstemp(suffix='.zmx')
os.close(fd)
with open(path, 'w', encoding='utf-16') as f:
    f.write(ZMX)
lens = load_zemax_file(path)
os.remove(path)

# (a) mirror equation from the written numbers
R = 1 / -0.01
efl_abs_expected = abs(R) / 2          # 50 mm
y_img_expected = 0.0                   # image plane written at R/2

# (b) same prescription through the public API
from optiland.optic import Optic
ref = Optic()
ref.add_surface(index=0, thickness=np.inf)
ref.add_surface(index=1, radius=R, thickness=-50.0, material='mirror',
                is_stop=True)
ref.add_surface(index=2)
ref.set_aperture('EPD', 10.0)
ref.set_field_type('angle')
ref.add_field(y=0.0)
ref.add_wavelength(0.55, is_primary=True)
efl_expected = float(ref.paraxial.f2())
assert abs(abs(efl_expected) - efl_abs_expected) < 1e-9

surf = lens.surface_group.surfaces[1]
f2 = float(lens.paraxial.f2())
ya, ua = lens.paraxial.marginal_ray()
rays = lens.trace_generic(0., 0., 0., 0.1, 0.55)

print('surface 1 medium   :', type(surf.material_post).__name__,
      '| is_reflective =', surf.is_reflective, ' (expected a mirror)')
print(f'paraxial f2        : observed {f2:.4f}   expected {efl_expected:.4f}')
print(f'marginal y at image: observed {float(ya[-1][0]):.6f}   '
      f'expected {y_img_expected:.6f}')
print(f'real ray Py=0.1    : direction N at image = {float(rays.N[0]):+.6f} '
      f'(expected negative, travelling back after reflection), '
      f'y = {float(rays.y[0]):.6f} (expected ~0)')

assert surf.is_reflective, 'GLAS MIRROR surface was imported as refractive'
assert abs(f2 - efl_expected) < 1e-9 * abs(efl_expected)

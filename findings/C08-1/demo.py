"""C08 defect 1: first-order colour terms (TAchC, LchC, TchC) use the marginal
height of the PREVIOUS surface (ya[k-1]) instead of the surface itself (ya[k]).

Independent path: own paraxial y-nu trace built only from the public
prescription (surface_group.radii / positions, optic.n(wavelength)) and
Smith's surface formula
    TAchC_k = -y_k i_k (dn_k - (n_k/n'_k) dn'_k) / (n'_K u'_K)
    TchC_k  = -y_k ibar_k (same bracket)         / (n'_K u'_K)
plus a physical cross-check: sum(TAchC) must predict the F-C difference of the
paraxial marginal ray height in the image plane.
"""
import contextlib
import io
import sys
import numpy as np
from optiland import optic
from optiland.samples.objectives import CookeTriplet


def prescription(o, wl):
    sg = o.surface_group
    z = np.array([float(np.ravel(p)[0]) for p in sg.positions])
    R = np.array([float(r) for r in sg.radii])
    c = np.where(np.isinf(R), 0.0, 1.0 / R)
    n = np.array([float(np.ravel(v)[0]) for v in o.n(wl)])
    return z, c, n


def ptrace(z, c, n, y1, u0):
    """y[k]: height on surface k (k>=1); u[k]: slope after surface k."""
    N = len(z)
    y = np.zeros(N)
    u = np.zeros(N)
    u[0] = u0
    y[1] = y1
    for k in range(1, N):
        if k > 1:
            y[k] = y[k - 1] + u[k - 1] * (z[k] - z[k - 1])
        u[k] = (n[k - 1] * u[k - 1] - y[k] * c[k] * (n[k] - n[k - 1])) / n[k]
    return y, u


def expected_colour(o):
    wl = o.primary_wavelength
    z, c, n = prescription(o, wl)
    dn = prescription(o, 0.4861)[2] - prescription(o, 0.6563)[2]
    # launch data of the library's own marginal / chief ray (object space only)
    ya_l, ua_l = [np.ravel(a) for a in o.paraxial.marginal_ray()]
    yb_l, ub_l = [np.ravel(a) for a in o.paraxial.chief_ray()]
    ya, ua = ptrace(z, c, n, ya_l[1], ua_l[0])
    yb, ub = ptrace(z, c, n, yb_l[1], ub_l[0])
    assert np.allclose(ya[1:], ya_l[1:]) and np.allclose(ub, ub_l)
    N = len(z)
    TA, TC = [], []
    for k in range(1, N - 1):
        i = ua[k - 1] + ya[k] * c[k]
        ib = ub[k - 1] + yb[k] * c[k]
        br = dn[k - 1] - n[k - 1] / n[k] * dn[k]
        TA.append(-ya[k] * i * br / (n[-1] * ua[-1]))
        TC.append(-ya[k] * ib * br / (n[-1] * ua[-1]))
    # physical check: F and C marginal rays to the (primary) image plane
    yF, _ = ptrace(z, c, prescription(o, 0.4861)[2], ya_l[1], ua_l[0])
    yC, _ = ptrace(z, c, prescription(o, 0.6563)[2], ya_l[1], ua_l[0])
    return np.array(TA), np.array(TC), ua[-1], yF[-1] - yC[-1]


def finite_singlet():
    o = optic.Optic()
    o.add_surface(index=0, radius=np.inf, thickness=120.0)
    o.add_surface(index=1, radius=40.0, thickness=12.0, material='N-BK7',
                  is_stop=True)
    o.add_surface(index=2, radius=-40.0, thickness=60.0)
    o.add_surface(index=3)
    o.set_aperture(aperture_type='EPD', value=10.0)
    o.set_field_type(field_type='object_height')
    o.add_field(y=0.0)
    o.add_field(y=5.0)
    o.add_wavelength(value=0.4861)
    o.add_wavelength(value=0.5876, is_primary=True)
    o.add_wavelength(value=0.6563)
    o.image_solve()
    return o


failures = 0
np.set_printoptions(precision=6, linewidth=160)
with contextlib.redirect_stdout(io.StringIO()):
    cases = [('thick N-BK7 singlet, object at 120 mm', finite_singlet()),
             ('CookeTriplet sample', CookeTriplet())]
for label, o in cases:
    TA, TC, uK, dy_FC = expected_colour(o)
    res = o.aberrations.third_order()
    libTA, libL, libTC = [np.ravel(res[i]) for i in (9, 10, 11)]
    print('==', label)
    print(' TAchC  library :', libTA)
    print(' TAchC  expected:', TA)
    print(' TchC   library :', libTC)
    print(' TchC   expected:', TC)
    print(' LchC   library :', libL)
    print(' LchC   expected:', -TA / uK)
    print(' sum TAchC library %.6e  expected %.6e  paraxial F-C ray '
          'difference in image plane %.6e' % (libTA.sum(), TA.sum(), dy_FC))
    for name, a, b in (('TAchC', libTA, TA), ('TchC', libTC, TC),
                       ('LchC', libL, -TA / uK)):
        if not np.allclose(a, b, rtol=1e-8, atol=1e-14):
            rel = np.max(np.abs(a - b)) / np.max(np.abs(b))
            print(' MISMATCH %s: max deviation = %.3g of the largest term'
                  % (name, rel))
            failures += 1
    # the classical sum reproduces the true F-C paraxial difference to 2nd
    # order in dn; the library's sum does not
    print(' |expected sum / true F-C - 1| = %.3g ; '
          '|library sum / true F-C - 1| = %.3g'
          % (abs(TA.sum() / dy_FC - 1), abs(libTA.sum() / dy_FC - 1)))

if failures:
    print('FAIL: %d colour families differ from the classical surface '
          'formulas' % failures)
    sys.exit(1)
print('OK')

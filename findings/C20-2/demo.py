"""C20 defect 2: a catalogue glass named in the file (GCAT SCHOTT, GLAS SF6) is
resolved WITHOUT the vendor catalogue first, so "SF6" becomes sulphur
hexafluoride gas (n = 1.0007) instead of SCHOTT SF6 (n_d = 1.80518); with
GCAT CDGM, "F2" becomes HIKARI F2 instead of CDGM F2.

Independent path: (a) the file itself states n_d of the glass (GLAS field 4);
(b) Material(name, vendor) looked up directly through the public API;
(c) thick-lens focal length from the written numbers vs. lens.paraxial.f2().
"""
import os
import tempfile
import numpy as np
from optiland.fileio.zemax_handler import load_zemax_file
from optiland.materials import Material

LAMBDA_D = 0.5875618

TEMPLATE = """MODE SEQ
UNIT MM X W X CM MR CPMM
ENPD 10.0
GCAT {gcat}
FTYP 0 0 1 1 0 0 0 0
XFLN 0.0
YFLN 0.0
WAVM 1 0.5875618 1
PWAV 1
SURF 0
  TYPE STANDARD
  CURV 0.0
  DISZ INFINITY
SURF 1
  STOP
  TYPE STANDARD
  CURV 0.02
  DISZ 5.0
  GLAS {glass} 1 0 {nd} {vd}
SURF 2
  TYPE STANDARD
  CURV -0.02
  DISZ 30.0
SURF 3
  TYPE STANDARD
  CURV 0.0
  DISZ 0.0
"""


def thick_lens_efl(n, c1, c2, t):
    phi = (n - 1) * (c1 - c2 + (n - 1) * t * c1 * c2 / n)
    return 1 / phi


failures = []
for gcat, glass, nd, vd in [('SCHOTT', 'SF6', 1.80518, 25.43),
                            ('CDGM', 'F2', 1.61293, 36.96),
                            ('CDGM SCHOTT', 'BAF2', 1.56969, 49.4)]:
    fd, path = tempfile.mkstemp(suffix='.zmx')
    os.close(fd)
    with open(path, 'w', encoding='utf-8') as f:
        f.write(TEMPLATE.format(gcat=gcat, glass=glass, nd=nd, vd=vd))
    lens = load_zemax_file(path)
    os.remove(path)

    mat = lens.surface_group.surfaces[1].material_post
    n_loaded = float(mat.n(LAMBDA_D))
    vendor = gcat.split()[0].lower()
    ref = Material(glass, vendor)           # second path through the API
    n_ref = float(ref.n(LAMBDA_D))
    f_lib = float(lens.paraxial.f2())
    f_exp = thick_lens_efl(nd, 0.02, -0.02, 5.0)

    print(f'GCAT {gcat:12s} GLAS {glass:5s}: file n_d = {nd}, '
          f'Material("{glass}", "{vendor}") -> {ref.material_data["filename"]}'
          f' n_d = {n_ref:.6f}')
    print(f'    loaded medium: {type(mat).__name__} '
          f'{getattr(mat, "material_data", {}).get("filename")} '
          f'n_d = {n_loaded:.6f}')
    print(f'    EFL from written numbers = {f_exp:.4f} mm, '
          f'lens.paraxial.f2() = {f_lib:.4f} mm')
    if abs(n_loaded - nd) > 1e-4 or abs(f_lib / f_exp - 1) > 1e-3:
        failures.append((gcat, glass, nd, n_loaded, f_exp, f_lib))

assert not failures, f'catalogue glass resolved to a different medium: {failures}'

"""C12 / 1 - spot statistics are taken from GLOBAL x/y, not from coordinates in the image surface.

A biconvex singlet (R=+-50, t=5, n=1.5, stop on its first surface, EPD 10) images an object
at infinity.  30 mm behind the lens a flat 45 degree mirror folds the beam upwards; the image
plane sits 18 mm above the mirror and faces it (dy=18, rx=pi/2).  A flat fold mirror is an
isometry, so every spot in the image plane is congruent with the spot of the UNFOLDED lens
(image plane 48 mm behind the lens).  The reference numbers come from an independent numpy
ray trace of the unfolded lens.
"""
import sys
import numpy as np
from optiland import optic
from optiland.materials import IdealMaterial
from optiland.analysis import SpotDiagram, RmsSpotSizeVsField

R1, R2, T, N_GLASS, D_IMG, EPD, FIELD = 50.0, -50.0, 5.0, 1.5, 48.0, 10.0, 3.0


# ---------------------------------------------------------------- reference
def hexapolar(num_rings):
    x, y = [0.0], [0.0]
    for i in range(1, num_rings + 1):
        th = np.linspace(0, 2 * np.pi, 6 * i + 1)[:-1]
        x += list(i / num_rings * np.cos(th))
        y += list(i / num_rings * np.sin(th))
    return np.array(x), np.array(y)


def refract(d, nrm, mu):
    cosi = np.sum(d * nrm, axis=0)
    nrm = nrm * np.sign(cosi)
    cosi = np.abs(cosi)
    return mu * d + (np.sqrt(1 - mu**2 * (1 - cosi**2)) - mu * cosi) * nrm


def sphere_hit(p, d, zv, R):
    c = 1.0 / R
    o = p - np.array([[0.0], [0.0], [zv]])
    a = c
    b = 2 * c * np.sum(o * d, axis=0) - 2 * d[2]
    cc = c * np.sum(o * o, axis=0) - 2 * o[2]
    t = 2 * cc / (-b + np.sqrt(b * b - 4 * a * cc))  # root next to the vertex
    p = p + t * d
    nrm = (p - np.array([[0.0], [0.0], [zv + R]])) / abs(R)
    return p, nrm


def reference_spot(field_deg, num_rings=6):
    """(x, y) in the image plane of the unfolded lens; stop = entrance pupil = surface 1."""
    px, py = hexapolar(num_rings)
    th = np.radians(field_deg)
    d = np.array([np.zeros_like(px), np.full_like(px, np.sin(th)),
                  np.full_like(px, np.cos(th))])
    p = np.array([px * EPD / 2, py * EPD / 2, np.zeros_like(px)])
    p = p - 20.0 * d                       # start in front of the lens
    p, n = sphere_hit(p, d, 0.0, R1)
    d = refract(d, n, 1 / N_GLASS)
    p, n = sphere_hit(p, d, T, R2)
    d = refract(d, n, N_GLASS)
    t = (D_IMG + T - p[2]) / d[2]
    p = p + t * d
    return p[0], p[1]


def stats(x, y):
    cx, cy = x.mean(), y.mean()
    r2 = (x - cx)**2 + (y - cy)**2
    return cy, np.sqrt(r2.mean()), np.sqrt(r2.max())


# ------------------------------------------------------------------ library
lens = optic.Optic()
lens.add_surface(index=0, radius=np.inf, thickness=np.inf)
lens.add_surface(index=1, radius=R1, thickness=T, material=IdealMaterial(N_GLASS),
                 is_stop=True)
lens.add_surface(index=2, radius=R2, thickness=30.0)
lens.add_surface(index=3, material='mirror', thickness=0.0, rx=np.pi / 4)   # fold
lens.add_surface(index=4, dy=D_IMG - 30.0, rx=np.pi / 2)                   # image
lens.set_aperture('EPD', EPD)
lens.set_field_type('angle')
lens.add_field(y=0)
lens.add_field(y=FIELD)
lens.add_wavelength(0.55, is_primary=True)

# the rays do arrive on the image plane (global y = 18 for every ray)
lens.trace(0, 1, 0.55, 6, 'hexapolar')
assert np.allclose(lens.surface_group.y[-1], D_IMG - 30.0)
assert np.all(lens.surface_group.intensity[-1] == 1)

spot = SpotDiagram(lens)                 # hexapolar, 6 rings, all fields
rms = spot.rms_spot_radius()
geo = spot.geometric_spot_radius()
cen = spot.centroid()
rvf = RmsSpotSizeVsField(lens, num_fields=2)._spot_size

bad = False
for k, f in enumerate([0.0, FIELD]):
    cy_ref, rms_ref, geo_ref = stats(*reference_spot(f))
    print(f'field {f:3.1f} deg  RMS radius    library {rms[k][0]:.6f}  expected {rms_ref:.6f}')
    print(f'               GEO radius    library {geo[k][0]:.6f}  expected {geo_ref:.6f}')
    print(f'               |centroid y|  library {abs(cen[k][1]):.6f}  expected {abs(cy_ref):.6f}'
          '   (height in the image plane)')
    print(f'               RmsSpotSizeVsField  {rvf[k][0]:.6f}  expected {rms_ref:.6f}')
    if not np.isclose(rms[k][0], rms_ref, rtol=1e-6, atol=1e-9):
        bad = True
    if not np.isclose(geo[k][0], geo_ref, rtol=1e-6, atol=1e-9):
        bad = True
    if not np.isclose(abs(cen[k][1]), abs(cy_ref), rtol=1e-6, atol=1e-9):
        bad = True
    if not np.isclose(rvf[k][0], rms_ref, rtol=1e-6, atol=1e-9):
        bad = True

if bad:
    print('VIOLATION: spot statistics are computed from global x/y; the in-plane '
          'coordinate that lies along global z is dropped')
    sys.exit(1)
print('OK')
sys.exit(0)

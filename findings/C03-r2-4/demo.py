"""C03 / 4 - integer-typed pupil coordinates silently truncate the entrance
pupil position / launch plane / object point to whole numbers
(np.full_like(Px, value) inherits the integer dtype of Px).
"""
import sys
import warnings
import numpy as np

warnings.simplefilter('ignore')
from optiland import optic  # noqa: E402
from optiland.distribution import BaseDistribution  # noqa: E402

WL = 0.5876
R1, T1, R2, T2 = 50.0, 5.0, -80.0, 20.0
FIELD = 10.0
EPD = 10.0


def build(obj_t, ftype, fmax):
    o = optic.Optic()
    o.add_surface(index=0, thickness=obj_t)
    o.add_surface(index=1, radius=R1, thickness=T1, material='N-BK7')
    o.add_surface(index=2, radius=R2, thickness=T2, is_stop=True)
    o.add_surface(index=3, thickness=60.0)
    o.add_surface(index=4)
    o.set_aperture('EPD', EPD)
    o.set_field_type(ftype)
    o.add_field(y=0)
    o.add_field(y=fmax)
    o.add_wavelength(WL, is_primary=True)
    return o


lens = build(np.inf, 'angle', FIELD)
n = float(lens.surface_group.surfaces[1].material_post.n(WL))


def to_stop(y, u):          # own y-nu trace: surface 1 -> stop (surface 2)
    u = (u - y * (n - 1) / R1) / n
    return y + T1 * u


EPL_ref = to_stop(0.0, 1.0) / to_stop(1.0, 0.0)     # 3.4127 (not an integer)
fail = False


def check(label, rays, Hy, Py, fmax, infinite=True):
    global fail
    for k in range(rays.x.size):
        t = (EPL_ref - rays.z[k]) / rays.N[k]
        y_aim = rays.y[k] + rays.M[k] * t
        msg = (f'{label}: Py={Py[k]:+.0f}  aim height in pupil plane '
               f'{y_aim:+.6f} (expected {Py[k] * EPD / 2:+.6f})')
        bad = abs(y_aim - Py[k] * EPD / 2) > 1e-9
        if infinite:
            slope = rays.M[k] / rays.N[k]
            want = np.tan(np.radians(Hy * fmax))
            msg += f'  tan(angle) {slope:.6f} (expected {want:.6f})'
            bad |= abs(slope - want) > 1e-9
        else:
            msg += f'  start height {rays.y[k]:+.4f} (expected {Hy * fmax:+.4f})'
            bad |= abs(rays.y[k] - Hy * fmax) > 1e-9
        print(('VIOLATION ' if bad else 'ok        ') + msg)
        fail |= bad


# 1. plain Python integers / integer arrays given to the ray generator
r = lens.ray_generator.generate_rays(0, 1, 0, 1, WL)
check('generate_rays(0, 1, 0, 1)          ', r, 1, [1], FIELD)
r = lens.ray_generator.generate_rays(0, 1, np.array([0, 0]), np.array([-1, 1]),
                                     WL)
check('generate_rays(int arrays)          ', r, 1, [-1, 1], FIELD)


# 2. public route: Optic.trace with a user distribution holding integer arrays
class ThreePoints(BaseDistribution):
    def generate_points(self, num_points=3, vx=0.0, vy=0.0):
        self.x = np.array([0, 0, 0])
        self.y = np.array([-1, 0, 1])


d = ThreePoints()
d.generate_points()
lens.trace(0.0, 1.0, WL, distribution=d)
sg = lens.surface_group


class _R:   # launch data recorded on the object surface
    x, y, z = sg.x[0], sg.y[0], sg.z[0]
    L, M, N = sg.L[0], sg.M[0], sg.N[0]


check('Optic.trace(distribution=int pts)  ', _R, 1, [-1, 0, 1], FIELD)

# 3. finite object, object height 2.5: the object point itself is truncated
lens_f = build(100.0, 'object_height', 2.5)
r = lens_f.ray_generator.generate_rays(0, 1, np.array([0]), np.array([1]), WL)
check('finite object, height 2.5, int Px  ', r, 1, [1], 2.5, infinite=False)

# control: the same requests with floats are right
r = lens.ray_generator.generate_rays(0.0, 1.0, np.array([0.0, 0.0]),
                                     np.array([-1.0, 1.0]), WL)
check('control (float arrays)             ', r, 1, [-1, 1], FIELD)

sys.exit(1 if fail else 0)

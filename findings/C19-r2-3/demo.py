"""C19 / 3 - a lens whose fields / wavelengths / stop flag come from numpy
arrays cannot be saved, and the failed save destroys the existing file.

The lens traces fine; to_dict() hands the numpy scalars on unchanged;
json.dump() rejects numpy integers and numpy booleans.  save_obj_to_json has
already opened (truncated) the target file at that point.
"""
import sys
import os
import json
import tempfile
import warnings
import numpy as np
from optiland.optic import Optic
from optiland.materials import IdealMaterial
from optiland.fileio.optiland_handler import (save_optiland_file,
                                               load_optiland_file)

warnings.filterwarnings('ignore')


def build(fields, wavelengths, primary, stop_index):
    o = Optic()
    o.add_surface(index=0, thickness=np.inf)
    for i, (r, t, m) in enumerate([(50, 5, IdealMaterial(1.5)), (-50, 45, 'air')], 1):
        o.add_surface(index=i, radius=r, thickness=t, material=m,
                      is_stop=(i == stop_index))
    o.add_surface(index=3)
    o.set_aperture('EPD', 10)
    o.set_field_type('angle')
    for y in fields:
        o.add_field(y=y)
    for w in wavelengths:
        o.add_wavelength(w, is_primary=(w == primary))
    return o


cases = {
    'fields from np.arange(0, 15, 7)':
        dict(fields=np.arange(0, 15, 7), wavelengths=[0.55], primary=0.55,
             stop_index=1),
    'is_primary=(w == primary) with w from a numpy array':
        dict(fields=[0, 7, 14], wavelengths=np.array([0.48, 0.55, 0.65]),
             primary=0.55, stop_index=1),
    'is_stop=(i == stop_index) with stop_index = np.argmin(...)':
        dict(fields=[0, 7, 14], wavelengths=[0.55], primary=0.55,
             stop_index=np.argmin([3.0, 1.0, 2.0])),
}

bad = False
folder = tempfile.mkdtemp()
fn = os.path.join(folder, 'lens.json')

# a good file from an earlier session
save_optiland_file(build([0, 7, 14], [0.55], 0.55, 1), fn)
good_size = os.path.getsize(fn)

for name, kw in cases.items():
    lens = build(**kw)
    rays = lens.trace(0, 1, 0.55, 3, 'line_y')        # the lens is usable
    assert np.all(np.isfinite(rays.y))
    # the lens is what it should be (thick-lens lensmaker's equation)
    f_ref = 1 / (0.5 * (1 / 50 + 1 / 50 + 0.5 * 5 / (1.5 * 50 * -50)))
    assert abs(lens.paraxial.f2() - f_ref) < 1e-9
    try:
        save_optiland_file(lens, fn)
        loaded = load_optiland_file(fn)
        same = json.loads(json.dumps(loaded.to_dict())) == \
            json.load(open(fn))
        print(f'{name}: saved and reloaded, dict equal: {same}')
        bad |= not same
    except TypeError as e:
        bad = True
        print(f'{name}: save raises {e!r}')
        try:
            load_optiland_file(fn)
            print('   previous file still loads')
        except Exception as e2:                               # noqa
            print(f'   the existing file ({good_size} bytes) is now '
                  f'{os.path.getsize(fn)} bytes and no longer loads: '
                  f'{type(e2).__name__}')
        # restore a good file for the next case
        save_optiland_file(build([0, 7, 14], [0.55], 0.55, 1), fn)

print('expected: every lens is saved and reloads with fields [0, 7, 14]')
sys.exit(1 if bad else 0)

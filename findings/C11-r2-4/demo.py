"""C11 / 4 - GeometricMTF: the line spread is binned into num_points + 1 bins
whatever the frequency range, so the transform is aliased: the curve comes
back up to the diffraction limit at f = (num_points + 1) / spot width.

Statement: "the geometric MTF is the modulus of the Fourier transform of the
spot's line spread".

References
 (a) exact transform of the ray spot: |mean_j exp(2 pi i f y_j)| (numpy);
 (b) for a defocused paraboloid the blur is a uniform disc of diameter d, whose
     line spread is a semicircle: MTF(f) = |2 J1(pi f d) / (pi f d)| (analytic)
both multiplied by the diffraction-limited curve when scale=True.
"""
import sys
import warnings
import numpy as np
from scipy.special import j1
warnings.simplefilter('ignore')
from optiland import optic
from optiland.mtf import GeometricMTF
from optiland.samples.objectives import PetzvalLens

bad = False
TOL = 0.05

# ---- 1. shipped Petzval lens, all defaults (9 - 23 waves PV of aberration)
o = PetzvalLens()
g = GeometricMTF(o)
for i, f in enumerate(g.fields):
    x, y, inten = g.data[i][0]
    lit = inten > 0
    ref = g.diff_limited_mtf * np.array(
        [abs(np.mean(np.exp(2j * np.pi * v * y[lit]))) for v in g.freq])
    lib = np.asarray(g.mtf[i][0])
    k = int(np.argmax(np.abs(lib - ref)))
    flag = abs(lib[k] - ref[k]) > TOL
    bad |= flag
    print(f'PetzvalLens field Hy={f[1]:.1f} tangential: worst at '
          f'{g.freq[k]:.0f} c/mm ({g.freq[k] / g.cutoff:.2f} of cut-off): '
          f'library {lib[k]:.3f}  exact transform of the spot {ref[k]:.3f}'
          f'{"   <-- VIOLATED" if flag else ""}')


# ---- 2. paraboloid, f/10, defocused by 40 waves: uniform blur disc
def paraboloid(defocus_mm):
    o = optic.Optic()
    o.add_surface(index=0, radius=np.inf, thickness=np.inf)
    o.add_surface(index=1, radius=-200.0, conic=-1.0,
                  thickness=-100 - defocus_mm, material='mirror', is_stop=True)
    o.add_surface(index=2)
    o.set_aperture(aperture_type='EPD', value=10.0)
    o.set_field_type(field_type='angle')
    o.add_field(y=0)
    o.add_wavelength(value=0.55, is_primary=True)
    return o


WL, F = 0.55e-3, 10.0
waves = 40
dz = 8 * waves * WL * F**2          # W020 = dz / (8 F^2)
d = dz / F                          # blur diameter (paraxial)
o = paraboloid(dz)
for scale in (False, True):
    # 20000 random pupil points: no regular ray grid, so the spot itself
    # has no periodicity; what remains is the binning of the library
    g = GeometricMTF(o, scale=scale, distribution='random', num_rays=20000)
    y = g.data[0][0][1]
    exact = np.array([abs(np.mean(np.exp(2j * np.pi * v * y)))
                      for v in g.freq])
    arg = np.pi * g.freq * d
    with np.errstate(invalid='ignore', divide='ignore'):
        ref = np.where(arg > 0, np.abs(2 * j1(arg) / arg), 1.0)
    if scale:
        ref = ref * g.diff_limited_mtf
        exact = exact * g.diff_limited_mtf
    lib = np.asarray(g.mtf[0][0])
    k = int(np.argmax(np.abs(lib - ref)))
    flag = abs(lib[k] - ref[k]) > TOL
    bad |= flag
    print(f'paraboloid f/10 defocused {waves} waves (blur {d * 1e3:.0f} um), '
          f'scale={scale}: worst at {g.freq[k]:.0f} c/mm '
          f'({g.freq[k] / g.cutoff:.2f} of cut-off): library {lib[k]:.3f}  '
          f'analytic 2J1(x)/x {ref[k]:.4f}  exact transform of the spot '
          f'{exact[k]:.4f}; predicted alias at '
          f'{(g.num_points + 1) / d:.0f} c/mm'
          f'{"   <-- VIOLATED" if flag else ""}')

if bad:
    print('VIOLATED: geometric MTF is not the transform of the line spread')
    sys.exit(1)
print('ok')
sys.exit(0)

"""C15 defect 1: an 'index' perturbation replaces the glass by a dispersion-free
IdealMaterial and reset() never puts the original glass back.

Consequences checked here (CookeTriplet, wavelengths 0.48 / 0.55 / 0.65 um):
  (a) a trial whose index perturbation EQUALS the nominal index does not
      reproduce the nominal operand values (operands at 0.48 / 0.65 um);
  (b) in a one-at-a-time sensitivity run the trials of ANOTHER perturbation
      (a radius) are evaluated with the glass already destroyed, so they differ
      from the same radius applied to a fresh copy of the nominal lens;
  (c) after run() (and after reset()) the lens is not the nominal lens.
"""
import warnings
import numpy as np
from optiland.samples.objectives import CookeTriplet
from optiland.tolerancing.core import Tolerancing
from optiland.tolerancing.sensitivity_analysis import SensitivityAnalysis
from optiland.tolerancing.perturbation import RangeSampler

warnings.filterwarnings('ignore')

WLS = (0.48, 0.55, 0.65)


def my_operands(lens):
    """Independent evaluation: own trace + own rms formula, no Operand class."""
    out = []
    for wl in (0.48, 0.65):
        lens.trace(0, 0, wl, 5, 'hexapolar')
        x = lens.surface_group.x[-1, :].ravel()
        y = lens.surface_group.y[-1, :].ravel()
        out.append(np.sqrt(np.mean((x - x.mean())**2 + (y - y.mean())**2)))
    lens.trace_generic(0, 1, 0, 0, 0.65)
    out.append(float(lens.surface_group.y[-1, 0]))
    return np.array(out)


lens = CookeTriplet()
n_nominal = {wl: lens.n(wl).copy() for wl in WLS}
nominal_ops = my_operands(CookeTriplet())

tol = Tolerancing(lens)
common = dict(optic=lens, surface_number=-1, Hx=0, Hy=0, num_rays=5,
              distribution='hexapolar')
tol.add_operand('rms_spot_size', dict(common, wavelength=0.48))
tol.add_operand('rms_spot_size', dict(common, wavelength=0.65))
tol.add_operand('real_y_intercept', dict(optic=lens, surface_number=-1, Hx=0,
                                         Hy=1, Px=0, Py=0, wavelength=0.65))

r3 = float(lens.surface_group.radii[3])
n1 = float(lens.n(0.55)[1])           # nominal index of glass 1 at 0.55 um
tol.add_perturbation('radius', RangeSampler(r3 - 0.2, r3 + 0.2, 3),
                     surface_number=3)
tol.add_perturbation('index', RangeSampler(n1, n1, 1), surface_number=1,
                     wavelength=0.55)

sa = SensitivityAnalysis(tol)
sa.run()
df = sa.get_results()
op_cols = sa.operand_names
print(df.to_string())

failures = []

# (a) nominal-valued index perturbation must reproduce nominal operands
row = df[df.perturbation_type.str.startswith('Refractive')].iloc[0]
got = row[op_cols].to_numpy(float)
rel = np.abs(got - nominal_ops) / np.abs(nominal_ops)
print('\n(a) index perturbation == nominal index (%.6f)' % n1)
print('    recorded operands :', got)
print('    nominal operands  :', nominal_ops)
print('    relative deviation:', rel)
if rel.max() > 1e-9:
    failures.append('(a) nominal index perturbation changes operands by up to '
                    '%.3g relative' % rel.max())

# (b) radius trials vs. the same radius on a fresh nominal lens
worst = 0.0
for _, row in df[df.perturbation_type.str.startswith('Radius')].iterrows():
    fresh = CookeTriplet()
    fresh.surface_group.surfaces[3].geometry.radius = row.perturbation_value
    exp = my_operands(fresh)
    got = row[op_cols].to_numpy(float)
    rel = np.abs(got - exp) / np.abs(exp)
    worst = max(worst, rel.max())
    print('(b) radius S3 = %.5f recorded %s expected %s' %
          (row.perturbation_value, got, exp))
if worst > 1e-9:
    failures.append('(b) radius trials deviate from fresh-copy values by up '
                    'to %.3g relative' % worst)

# (c) lens restored?
tol.reset()
for wl in WLS:
    d = np.abs(lens.n(wl) - n_nominal[wl]).max()
    print('(c) max |n - n_nominal| at %.2f um after run()+reset(): %.3g'
          % (wl, d))
    if d > 1e-12:
        failures.append('(c) index at %.2f um off by %.3g after reset' %
                        (wl, d))
print('    material of surface 1 is now',
      type(lens.surface_group.surfaces[1].material_post).__name__)
after = my_operands(lens)
print('    operands after reset:', after, ' nominal:', nominal_ops)

print()
for f in failures:
    print('FAIL', f)
assert not failures, 'C15 violated: ' + '; '.join(failures)
print('OK')

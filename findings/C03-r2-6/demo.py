"""C03 / 6 - declaring object-space telecentricity through the documented
FieldGroup.set_telecentric(True) (or Aperture(..., object_space_telecentric=
True)) has no effect on the generated rays: they are aimed at the paraxial
entrance pupil instead of leaving parallel to the axis, and the forbidden
combinations are not rejected.
"""
import sys
import warnings
import numpy as np

warnings.simplefilter('ignore')
from optiland import optic  # noqa: E402
from optiland.aperture import Aperture  # noqa: E402

WL = 0.5876
NA = 0.05
Y_MAX = 4.0


def build(ap=('objectNA', NA)):
    o = optic.Optic()
    o.add_surface(index=0, thickness=100.0)
    o.add_surface(index=1, radius=50.0, thickness=5.0, material='N-BK7')
    o.add_surface(index=2, radius=-80.0, thickness=20.0, is_stop=True)
    o.add_surface(index=3, thickness=60.0)
    o.add_surface(index=4)
    o.set_aperture(*ap)
    o.set_field_type('object_height')
    o.add_field(y=0)
    o.add_field(y=Y_MAX)
    o.add_wavelength(WL, is_primary=True)
    return o


def chief_and_marginal(o):
    c = o.ray_generator.generate_rays(0.0, 1.0, np.array([0.0]),
                                      np.array([0.0]), WL)
    m = o.ray_generator.generate_rays(0.0, 1.0, np.array([0.0]),
                                      np.array([1.0]), WL)
    return c, m


fail = False
# expected (telecentric object space, NA = n sin U, object in air):
#   chief ray (Px = Py = 0): direction (0, 0, 1)
#   Py = +1 ray            : M = sin U = NA
cases = {}
o = build()
o.fields.set_telecentric(True)
cases['fields.set_telecentric(True)'] = o
o = build()
o.aperture = Aperture('objectNA', NA, object_space_telecentric=True)
cases['Aperture(..., object_space_telecentric=True)'] = o
o = build()
o.obj_space_telecentric = True
cases['control: optic.obj_space_telecentric = True'] = o

for name, o in cases.items():
    c, m = chief_and_marginal(o)
    bad = abs(c.M[0]) > 1e-12 or abs(m.M[0] - NA) > 1e-12 \
        or abs(c.y[0] - Y_MAX) > 1e-12
    print(f'{"VIOLATION" if bad else "ok       "} {name}: chief ray M = '
          f'{c.M[0]:+.6f} (expected 0), Py=+1 ray M = {m.M[0]:+.6f} '
          f'(expected {NA:+.6f}), start height {c.y[0]:.3f}')
    fail |= bad

# forbidden combination: EPD aperture + telecentric object space
o = build(ap=('EPD', 5.0))
o.fields.set_telecentric(True)
try:
    o.ray_generator.generate_rays(0.0, 1.0, np.array([0.0]), np.array([0.0]),
                                  WL)
    print('VIOLATION EPD aperture with fields.set_telecentric(True): traced, '
          'expected ValueError')
    fail = True
except ValueError as e:
    print('ok        EPD + telecentric rejected:', e)

sys.exit(1 if fail else 0)

"""C03 defect 6: Paraxial.trace(Hy, Py, wavelength) launches the wrong ray for
a FINITE object with ANGULAR fields.  The object height is computed as
y1 - tan(theta) instead of -tan(theta) * (EPL - z_object): the distance factor
is missing and the pupil height is added to the object height.  The paraxial
ray neither starts at the requested field point nor agrees with the real ray
requested with the same (Hy, Py).

Run:  PYTHONPATH=/tmp/hunt/C03 /venv/bin/python demo.py
"""
import sys
import warnings
import numpy as np
from optiland.optic import Optic
from optiland.materials import IdealMaterial

warnings.filterwarnings('ignore')
WL = 0.55
FIELD = 1.0       # deg, small so that real and paraxial rays agree to ~1e-3
EPD = 2.0
OBJ = 50.0

o = Optic()
o.add_surface(index=0, thickness=OBJ)
o.add_surface(index=1, radius=50.0, thickness=5.0,
              material=IdealMaterial(n=1.6))
o.add_surface(index=2, radius=-50.0, thickness=10.0)
o.add_surface(index=3, is_stop=True, thickness=50.0)
o.add_surface(index=4)
o.set_aperture('EPD', EPD)
o.set_field_type('angle')
o.add_field(y=0.0)
o.add_field(y=FIELD)
o.add_wavelength(WL, is_primary=True)
sg = o.surface_group
z = sg.positions.ravel()
R = sg.radii
n = o.n()
S = sg.stop_index


def own_epl():
    y, u, zc = 0.0, 0.1, z[S]
    for k in range(S - 1, 0, -1):
        y += u * (z[k] - zc)
        zc = z[k]
        u = (n[k] * u + y * (n[k] - n[k - 1]) / R[k]) / n[k - 1]
    return zc - y / u


EPL = own_epl()
print(f'EPL own = {EPL:.6f}, library = {o.paraxial.EPL():.6f}')


def own_paraxial(Hy, Py):
    """launch at the field point, aim at the pupil point, y-nu trace"""
    theta = np.radians(Hy * FIELD)
    y0 = -np.tan(theta) * (EPL - z[0])         # chief ray makes angle theta
    y1 = Py * EPD / 2
    u = (y1 - y0) / (EPL - z[0])
    ys, y, zc = [y0], y0, z[0]
    for k in range(1, len(z)):
        y += u * (z[k] - zc)
        zc = z[k]
        if k < len(z) - 1 and np.isfinite(R[k]):
            u = (n[k - 1] * u - y * (n[k] - n[k - 1]) / R[k]) / n[k]
        ys.append(y)
    return np.array(ys)


fail = 0
for Hy, Py in [(1.0, 0.0), (1.0, 1.0), (-1.0, 0.5), (0.0, 1.0)]:
    o.paraxial.trace(Hy, Py, WL)
    y_lib = sg.y[:, 0].copy()
    u_lib0 = sg.u[0, 0]
    o.trace_generic(0.0, Hy, 0.0, Py, WL)
    y_real = sg.y[:, 0].copy()
    y_own = own_paraxial(Hy, Py)
    # height of the library's paraxial ray in the entrance pupil plane
    y_pupil_lib = y_lib[0] + u_lib0 * (EPL - z[0])
    dev_own = np.max(np.abs(y_lib - y_own))
    dev_real = np.max(np.abs(y_lib - y_real))
    ok = dev_own < 1e-9
    fail += not ok
    print(f'Hy={Hy:+.1f} Py={Py:+.1f}')
    print(f'   library paraxial y : {np.round(y_lib, 5)}')
    print(f'   own paraxial y     : {np.round(y_own, 5)}')
    print(f'   real ray y         : {np.round(y_real, 5)}')
    print(f'   object height: library {y_lib[0]:+.5f}  expected '
          f'{y_own[0]:+.5f};  pupil height: library {y_pupil_lib:+.5f} '
          f'expected {Py * EPD / 2:+.5f}')
    print(f"   [{'ok  ' if ok else 'FAIL'}] max |library - own| = "
          f'{dev_own:.5f}, max |library - real| = {dev_real:.5f}, '
          f'max |own - real| = {np.max(np.abs(y_own - y_real)):.5f}')

if fail:
    print(f'\n{fail} request(s) FAILED -> defect demonstrated')
    sys.exit(1)
print('\nall checks passed')

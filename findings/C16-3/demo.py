"""C16 demo 3: Optic.set_index (and hence the optimizer's 'index' variable)
silently deletes the extinction coefficient of the medium: after re-setting
the refractive index of an absorbing glass - even to the very same value -
the Beer-Lambert attenuation exp(-4 pi k d / lambda) is no longer applied and
the rays come out with intensity 1.

Independent reference: own Beer-Lambert formula with the k the medium was
given, evaluated over the geometric path length between the recorded
intersection points.
"""
import sys
import numpy as np
from optiland.optic import Optic
from optiland.materials import IdealMaterial
from optiland.optimization import OptimizationProblem

WL = 0.55
N_GLASS = 1.5
K_GLASS = 2e-6


def build():
    o = Optic()
    o.add_surface(index=0, thickness=np.inf)
    o.add_surface(index=1, thickness=10, radius=60, is_stop=True,
                  material=IdealMaterial(n=N_GLASS, k=K_GLASS))
    o.add_surface(index=2, thickness=50, radius=-60)
    o.add_surface(index=3)
    o.set_aperture('EPD', 10)
    o.set_field_type('angle')
    o.add_field(0)
    o.add_wavelength(WL, is_primary=True)
    return o


def beer_lambert(o):
    sg = o.surface_group
    d = np.sqrt((sg.x[2] - sg.x[1])**2 + (sg.y[2] - sg.y[1])**2
                + (sg.z[2] - sg.z[1])**2)
    return np.exp(-4 * np.pi * K_GLASS * d * 1e3 / WL)


failures = []

o = build()
rays = o.trace(0, 0, WL, num_rays=5, distribution='line_y')
exp0 = beer_lambert(o)
print("fresh lens:        rays.i =", rays.i)
print("                 expected =", exp0)
assert np.allclose(rays.i, exp0, rtol=1e-12), "baseline should be right"

# 1) edit: set the index of the glass to the value it already has
o.set_index(N_GLASS, 1)
rays = o.trace(0, 0, WL, num_rays=5, distribution='line_y')
exp1 = beer_lambert(o)
print("after set_index(1.5, 1):")
print("                   rays.i =", rays.i)
print("  surface_group.intensity[2] =", o.surface_group.intensity[2])
print("                 expected =", exp1)
print("  k of the medium after the edit:",
      o.surface_group.surfaces[1].material_post.k(WL), "(was", K_GLASS, ")")
if not np.allclose(rays.i, exp1, rtol=1e-9):
    failures.append("set_index(1.5, 1): rays.i = %s, Beer-Lambert gives %s "
                    "(relative error %.3g)"
                    % (rays.i, exp1, np.max(np.abs(rays.i / exp1 - 1))))

# 2) same thing through the optimizer's variable (value unchanged)
o = build()
problem = OptimizationProblem()
problem.add_variable(o, 'index', surface_number=1, wavelength=WL)
var = problem.variables[0]
var.update(var.value)          # write back the value just read
rays = o.trace(0, 0, WL, num_rays=5, distribution='line_y')
exp2 = beer_lambert(o)
print("after Variable('index').update(own value):")
print("                   rays.i =", rays.i)
print("                 expected =", exp2)
if not np.allclose(rays.i, exp2, rtol=1e-9):
    failures.append("index variable update: rays.i = %s, Beer-Lambert gives "
                    "%s" % (rays.i, exp2))

print()
if failures:
    print("PROPERTY C16 VIOLATED:")
    for f in failures:
        print("  -", f)
    sys.exit(1)
print("OK")

"""C11 / 5 - image space that is not air: the MTF cut-off (and frequency axis)
is too small by the factor n_image.

Reduced-eye-like model: one refracting conicoid, image inside the medium
n' = 1.336.  Diffraction cut-off on the image surface, in cycles/mm:
      f_c = 2 NA / lambda0 = 2 n' sin(U') / lambda0 = 1 / (lambda0 * Fw),
      Fw  = 1 / (2 n' sin U')        (working F-number)
Reference: sin(U') of the real marginal ray and own y-nu trace.
"""
import sys
import warnings
import numpy as np
warnings.simplefilter('ignore')
from optiland import optic, materials
from optiland.mtf import FFTMTF

WL = 0.55
R1 = 8.0


def make(n_img, ap):
    o = optic.Optic()
    medium = materials.IdealMaterial(n=n_img)
    o.add_surface(index=0, radius=np.inf, thickness=np.inf)
    o.add_surface(index=1, radius=R1, conic=-0.5, thickness=24.0,
                  material=medium, is_stop=True)
    o.add_surface(index=2, material=medium)
    o.set_aperture(aperture_type=ap[0], value=ap[1])
    o.set_field_type(field_type='angle')
    o.add_field(y=0)
    o.add_wavelength(value=WL, is_primary=True)
    o.update_paraxial()
    o.image_solve()
    return o


bad = False
for n_img in (1.336, 1.5):
    for ap in (('EPD', 3.0), ('imageFNO', 8.0)):
        o = make(n_img, ap)
        epd = o.paraxial.EPD()
        # own paraxial trace of the marginal ray: n'u' = n u - y (n'-n)/R
        u_par = -(epd / 2) * (n_img - 1.0) / R1 / n_img
        fc_par = 2 * n_img * abs(u_par) / (WL * 1e-3)
        # real marginal ray
        o.trace_generic(0.0, 0.0, 0.0, 1.0, WL)
        sinU = abs(o.surface_group.M[-2, 0])
        fc_real = 2 * n_img * sinU / (WL * 1e-3)
        m = FFTMTF(o, num_rays=32, grid_size=128)
        print(f"n'={n_img} aperture {ap}: EPD {epd:.3f}  cut-off library "
              f"{m.max_freq:.1f} c/mm   reference 2 n' u'/lambda {fc_par:.1f} "
              f"(paraxial), 2 n' sinU'/lambda {fc_real:.1f} (real ray)  "
              f"ratio {m.max_freq / fc_par:.4f}  (1/n' = {1 / n_img:.4f})")
        if abs(m.max_freq / fc_par - 1) > 0.01:
            bad = True
if bad:
    print("VIOLATED: cut-off is not 1 / (wavelength x working F-number); "
          "it is short by the image-space index")
    sys.exit(1)
print('ok')
sys.exit(0)

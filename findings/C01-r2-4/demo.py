"""C01 / 4 - numpy scalars other than float64 as object distance, wavelength or
aperture value make every paraxial call (image_solve, solves, update) raise

Prescriptions are routinely held in numpy arrays; an integer array
(np.array([100, 5, 50])) or a float32 array yields np.int64 / np.float32
scalars.  add_surface / add_wavelength / set_aperture accept them, the lens is
then unusable.
"""
import sys
import warnings
import numpy as np
warnings.simplefilter('ignore')
from optiland.optic import Optic
from optiland.materials import IdealMaterial


def build(t0=100.0, wl=0.55, epd=10.0):
    o = Optic()
    o.add_surface(index=0, thickness=t0)
    o.add_surface(index=1, thickness=5, radius=40,
                  material=IdealMaterial(1.5), is_stop=True)
    o.add_surface(index=2, thickness=50, radius=-40)
    o.add_surface(index=3)
    o.set_aperture('EPD', epd)
    o.set_field_type('angle')
    o.add_field(0)
    o.add_wavelength(wl, is_primary=True)
    return o


def image_z(o):
    o.image_solve()
    o.solves.add('marginal_ray_height', 3, 0.0)
    o.update()
    return float(o.surface_group.positions[-1][0])


# reference: thin y-nu trace of the singlet, object at -t0
def ref_image_z(t0, n=1.5, R1=40.0, R2=-40.0, t=5.0):
    y, u = t0 * 0.01, 0.01
    u = (u - y * (n - 1) / R1) / n
    y = y + t * u
    u = n * u - y * (1 - n) / R2
    return t - y / u


thick = np.array([100, 5, 50])            # integer prescription table
cases = [
    ('python float 100.0 (baseline)', dict(t0=100.0)),
    ('object distance np.int64(100)', dict(t0=thick[0])),
    ('object distance np.float32(100)', dict(t0=np.float32(100))),
    ('wavelength np.int64(1) um', dict(wl=np.arange(1, 3)[0])),
    ('wavelength np.float32(0.55)', dict(wl=np.float32(0.55))),
    ('EPD np.float32(10), object at infinity',
     dict(epd=np.float32(10), t0=np.inf)),
]
bad = False
for name, kw in cases:
    t0 = float(kw.get('t0', 100.0))
    try:
        z = image_z(build(**kw))
        exp = ref_image_z(t0) if np.isfinite(t0) else None
        print(f'{name}: image at {z:.6f}'
              + (f' (reference {exp:.6f})' if exp else ''))
        if exp is not None and abs(z - exp) > 1e-6:
            bad = True
    except Exception as e:
        bad = True
        print(f'{name}: RAISED {type(e).__name__}: {e}')
if bad:
    print('VIOLATION: valid numeric arguments make image_solve / '
          'solves.add / update raise')
    sys.exit(1)
print('OK')
sys.exit(0)

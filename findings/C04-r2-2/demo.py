"""C04 / 2 - object-space telecentric lens: marginal ray, XPD, magnification
and Lagrange invariant are NaN.

Plano-convex lens (f = 100) with the stop in its back focal plane, finite
object, aperture given as object-space NA (the only aperture type the library
allows for telecentric object space).  The marginal paraxial ray is perfectly
well defined: it leaves the axial object point with slope tan(asin(NA/n0)).
Reference: independent y-nu trace.
"""
import sys
import warnings
import numpy as np
from optiland.optic import Optic
from optiland.materials import IdealMaterial

warnings.simplefilter('ignore')

NA = 0.05
o = Optic()
o.add_surface(index=0, thickness=150.0)
o.add_surface(index=1, radius=np.inf, thickness=4.0,
              material=IdealMaterial(1.5))
o.add_surface(index=2, radius=-50.0, thickness=100.0)      # f = 100
o.add_surface(index=3, thickness=200.0, is_stop=True)      # stop at F'
o.add_surface(index=4)
o.set_aperture('objectNA', NA)
o.set_field_type('object_height')
o.add_field(0.0)
o.add_field(5.0)
o.add_wavelength(0.55, is_primary=True)
o.obj_space_telecentric = True

# ---- independent y-nu reference -----------------------------------------
R = [np.inf, np.inf, -50.0, np.inf, np.inf]
z = [-150.0, 0.0, 4.0, 104.0, 304.0]
n = [1.0, 1.5, 1.0, 1.0, 1.0]


def trace(y0, u0):
    ys, us = [y0], [u0]
    y, u = y0, u0
    for j in range(1, 4):
        y = y + u * (z[j] - z[j - 1])
        c = 0.0 if np.isinf(R[j]) else 1.0 / R[j]
        u = (n[j - 1] * u - y * (n[j] - n[j - 1]) * c) / n[j]
        ys.append(y)
        us.append(u)
    ys.append(y + u * (z[4] - z[3]))
    us.append(u)
    return np.array(ys), np.array(us)


ya_ref, ua_ref = trace(0.0, np.tan(np.arcsin(NA)))
# chief ray of the 5 mm field: parallel to the axis in object space
# (library sign convention: field +5 <-> object height -5)
yb_ref, ub_ref = trace(-5.0, 0.0)
assert abs(yb_ref[3]) < 1e-12          # goes through the stop centre
H_ref = yb_ref[1] * ua_ref[1] * n[1] - ya_ref[1] * ub_ref[1] * n[1]
# exit pupil: image of the stop = the stop itself (nothing behind it)
xpd_ref = 2 * abs(ya_ref[3])
mag_ref = n[0] * ua_ref[0] / (n[3] * ua_ref[3])

# ---- library ---------------------------------------------------------------
P = o.paraxial
ya, ua = P.marginal_ray()
yb, ub = P.chief_ray()
ya, ua, yb, ub = [np.ravel(a) for a in (ya, ua, yb, ub)]
fail = False


def cmp(name, got, exp):
    global fail
    got = np.asarray(got, float)
    exp = np.asarray(exp, float)
    ok = got.shape == exp.shape and np.all(np.isfinite(got)) and \
        np.allclose(got, exp, rtol=1e-9, atol=1e-9)
    print(f'{name}:\n   library  = {got}\n   expected = {exp}   '
          f'{"ok" if ok else "VIOLATION"}')
    fail |= not ok


cmp('marginal ray heights', ya, ya_ref)
cmp('marginal ray slopes', ua, ua_ref)
cmp('chief ray heights', yb, yb_ref)
cmp('XPD', P.XPD(), xpd_ref)
cmp('magnification', P.magnification(), mag_ref)
cmp('Lagrange invariant', P.invariant(), H_ref)

sys.exit(1 if fail else 0)

"""C10 / 2 - Zernike decomposition of the wavefront of a skew field (Hx and Hy
both non-zero, infinite object) is tilted: the tilt correction uses sin of the
two field angles instead of the direction cosines of the plane wave.

Independent reference: an exact ray trace through the two spherical surfaces
written here (no optiland code), OPD measured on the reference sphere centred
on the chief-ray image point and passing through the axial point of the
paraxial exit pupil (own y-nu calculation).
"""
import sys
import numpy as np
from optiland.optic import Optic
from optiland.materials import IdealMaterial
from optiland.wavefront import ZernikeOPD

N_GLASS, R1, R2, T_LENS, T_IMG = 1.5168, 50.0, -50.0, 5.0, 47.0
EPD, FIELD_DEG, WL = 10.0, 10.0, 0.55


# ---------------------------------------------------------------- reference
def ref_opd(fx_deg, fy_deg, px, py, mirror_x):
    """OPD in waves of a plane wave with slopes (tan fx, tan fy) through a
    biconvex singlet whose first surface is the stop (entrance pupil at the
    first vertex)."""
    surfaces = [(R1, 0.0, N_GLASS), (R2, T_LENS, 1.0)]   # R, z vertex, n after
    z_img = T_LENS + T_IMG
    # paraxial exit pupil: image of the stop centre (vertex 1) through
    # surface 2:  n'/s' = n/s + (n'-n)/R,  s = -T_LENS
    s_img = 1.0 / (N_GLASS / (-T_LENS) + (1.0 - N_GLASS) / R2)
    z_xp = T_LENS + s_img
    d0 = np.array([mirror_x * np.tan(np.radians(fx_deg)),
                   np.tan(np.radians(fy_deg)), 1.0])
    d0 /= np.linalg.norm(d0)
    px = np.concatenate([[0.0], px])          # chief ray first
    py = np.concatenate([[0.0], py])
    E = np.column_stack([px * EPD / 2, py * EPD / 2, np.zeros_like(px)])
    # start every ray on one plane wavefront, 50 mm before the pupil
    ref = -50.0 * d0
    P = E - ((E - ref) @ d0)[:, None] * d0
    d = np.tile(d0, (len(P), 1))
    n = 1.0
    opl = np.zeros(len(P))
    for R, zv, n2 in surfaces:
        C = np.array([0.0, 0.0, zv + R])
        oc = P - C
        b = np.sum(oc * d, axis=1)
        c = np.sum(oc * oc, axis=1) - R**2
        sq = np.sqrt(b * b - c)
        t = -b - sq if R > 0 else -b + sq
        Q = P + t[:, None] * d
        opl += n * t
        nrm = (Q - C) / R
        cosi = np.sum(d * nrm, axis=1)
        nrm = nrm * np.sign(cosi)[:, None]
        cosi = np.abs(cosi)
        mu = n / n2
        cost = np.sqrt(1 - mu**2 * (1 - cosi**2))
        d = mu * d + (cost - mu * cosi)[:, None] * nrm
        P, n = Q, n2
    t = (z_img - P[:, 2]) / d[:, 2]
    Q = P + t[:, None] * d
    opl += n * t
    C = Q[0]
    Rs = np.linalg.norm(C - np.array([0.0, 0.0, z_xp]))
    delta = Q - C
    b = np.sum(-d * delta, axis=1)
    c = np.sum(delta * delta, axis=1) - Rs**2
    tb = -b + np.sqrt(b * b - c)              # back along the ray to the sphere
    total = opl - n * tb
    return (total[0] - total[1:]) / (WL * 1e-3)


# ------------------------------------------------------------------ library
def make_lens():
    o = Optic()
    o.add_surface(index=0, radius=np.inf, thickness=np.inf)
    o.add_surface(index=1, radius=R1, thickness=T_LENS,
                  material=IdealMaterial(N_GLASS), is_stop=True)
    o.add_surface(index=2, radius=R2, thickness=T_IMG)
    o.add_surface(index=3)
    o.set_aperture('EPD', EPD)
    o.set_field_type('angle')
    o.add_field(y=0)
    o.add_field(y=FIELD_DEG)
    o.add_wavelength(WL, is_primary=True)
    return o


def check(field):
    z = ZernikeOPD(make_lens(), field, WL, num_rings=6,
                   zernike_type='fringe', num_terms=37)
    px, py = z.x, z.y
    model = z.zernike.poly(z.radius, z.phi)     # the Zernike decomposition
    # the library may mirror the x axis of the field; accept either
    errs = []
    for mirror in (1.0, -1.0):
        ref = ref_opd(FIELD_DEG * field[0], FIELD_DEG * field[1], px, py,
                      mirror)
        errs.append((np.max(np.abs(model - ref)), np.ptp(ref)))
    err, pv_ref = min(errs)
    print(f'field {field}: Fringe Z2={z.coeffs[1]:+.4f} Z3={z.coeffs[2]:+.4f}'
          f'  PV(decomposition)={np.ptp(model):.3f} waves,'
          f' PV(reference OPD)={pv_ref:.3f} waves,'
          f' max|decomposition - reference|={err:.3e} waves')
    return err


tol = 0.05   # waves; truncation residual of 37 terms here is < 1e-3
ok = True
e_y = check((0, 1))          # pure y field: control, agrees
e_s = check((0.6, 0.8))      # same field magnitude, skew azimuth
if e_y > tol:
    print('FAIL (control): y field deviates', e_y)
    ok = False
if e_s > tol:
    print(f'FAIL: skew field: decomposition deviates from the sampled OPD by '
          f'{e_s:.1f} waves (expected < {tol})')
    ok = False
print('PASS' if ok else 'VIOLATED')
sys.exit(0 if ok else 1)

"""C03 defect 5: Paraxial.EPL() returns the entrance pupil position relative
to the first surface, the ray generator uses it as a global z coordinate (and
_get_starting_z_offset mixes a global min(z) into a relative offset).  As soon
as the first surface is not at z = 0 - e.g. after deleting a leading dummy
surface with surface_group.remove_surface(1) - rays are aimed at a misplaced
pupil plane; for an infinite object they are even launched from inside/behind
the lens.

Run:  PYTHONPATH=/tmp/hunt/C03 /venv/bin/python demo.py
"""
import sys
import warnings
import numpy as np
from optiland.optic import Optic
from optiland.materials import IdealMaterial

warnings.filterwarnings('ignore')
WL = 0.55
GAP = 30.0
FIELD = 5.0
EPD = 2.0


def build(obj_t, with_dummy):
    o = Optic()
    o.add_surface(index=0, thickness=obj_t)
    k = 1
    if with_dummy:
        o.add_surface(index=1, thickness=GAP)      # dummy plane in air
        k = 2
    o.add_surface(index=k, radius=50.0, thickness=5.0,
                  material=IdealMaterial(n=1.6))
    o.add_surface(index=k + 1, radius=-50.0, thickness=10.0)
    o.add_surface(index=k + 2, is_stop=True, thickness=50.0)
    o.add_surface(index=k + 3)
    o.set_aperture('EPD', EPD)
    o.set_field_type('angle')
    o.add_field(y=0.0)
    o.add_field(y=FIELD)
    o.add_wavelength(WL, is_primary=True)
    return o


def independent_epl(o):
    """global z of the entrance pupil from an own y-nu trace"""
    sg = o.surface_group
    s = sg.stop_index
    z = sg.positions.ravel()
    R = sg.radii
    n = o.n()
    y, u, zc = 0.0, 0.1, z[s]
    for k in range(s - 1, 0, -1):
        y += u * (z[k] - zc)
        zc = z[k]
        power = (n[k] - n[k - 1]) / R[k]
        u = (n[k] * u + y * power) / n[k - 1]
    return zc - y / u


fail = 0
for label, t_edit, t_ref in [('infinite object', np.inf, np.inf),
                             ('finite object', 100.0, 100.0 + GAP)]:
    edited = build(t_edit, True)
    edited.surface_group.remove_surface(1)       # the edit
    ref = build(t_ref, False)                    # same lens built directly
    print(label)
    out = {}
    for name, o in (('edited ', edited), ('direct ', ref)):
        sg = o.surface_group
        z1 = sg.positions.ravel()[1]
        epl_lib = o.paraxial.EPL()
        epl_own = independent_epl(o)
        o.trace_generic(0.0, 1.0, 0.0, 0.0, WL)          # chief ray
        s = sg.stop_index
        zL, M0, N0 = sg.z[0, 0], sg.M[0, 0], sg.N[0, 0]
        y0 = sg.y[0, 0]
        # own propagation of the launch record to the true pupil plane
        y_at_pupil = y0 + (epl_own - zL) / N0 * M0
        y_stop = sg.y[s, 0]
        out[name] = (y_at_pupil, y_stop)
        print(f'  {name}: first surface z={z1:6.2f}  EPL lib={epl_lib:8.4f} '
              f'own(global)={epl_own:8.4f}  launch z={zL:8.3f}  '
              f'M0={M0:+.6f}')
        print(f'           chief ray height in the true entrance pupil plane '
              f'= {y_at_pupil:+.5f} (expected 0), at the stop = {y_stop:+.5f} '
              f'(expected ~0)')
        ok = (abs(y_at_pupil) < 1e-6          # aimed at the pupil centre
              and np.isfinite(y_stop) and abs(y_stop) < 0.05
              and zL < z1)                    # launched in front of the lens
        if np.isinf(t_edit):                  # field angle honoured
            ok = ok and abs(M0 - np.sin(np.radians(FIELD))) < 1e-9
        print(f"    [{'ok  ' if ok else 'FAIL'}]")
        fail += not ok

if fail:
    print(f'\n{fail} check(s) FAILED -> defect demonstrated')
    sys.exit(1)
print('\nall checks passed')

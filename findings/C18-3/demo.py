"""C18 defect 3: formula-4 entries whose second rational term is unused
(C6..C9 = 0) return NaN (array argument) or raise ZeroDivisionError (scalar
argument) at exactly 1.0 um, a wavelength inside the stated range.

Independent path: own evaluation of refractiveindex.info formula 4
    n^2 = C1 + C2 w^C3/(w^2 - C4^C5) + C6 w^C7/(w^2 - C8^C9) + sum Ci w^Cj
in which a term whose coefficient is 0 contributes 0, cross-checked by
continuity (n just below / just above 1 um through the library itself).
"""
import io
import contextlib
import os
import warnings

import numpy as np
import yaml

import optiland
from optiland.materials import Material

ROOT = os.path.join(os.path.dirname(os.path.dirname(optiland.__file__)),
                    'database', 'data-nk')


def own_formula4(filename, w):
    with open(os.path.join(ROOT, filename), encoding='utf-8') as f:
        data = yaml.safe_load(f)
    blk = [b for b in data['DATA'] if b['type'] == 'formula 4'][0]
    c = [float(x) for x in blk['coefficients'].split()]
    c += [0.0] * (17 - len(c))
    n2 = c[0]
    for i in (1, 5):
        if c[i] != 0.0:
            n2 += c[i] * w**c[i + 1] / (w**2 - c[i + 2]**c[i + 3])
    for i in range(9, 17, 2):
        if c[i] != 0.0:
            n2 += c[i] * w**c[i + 1]
    return np.sqrt(n2), c


CASES = [('Y3Al5O12', 'Hrabovsky'),      # YAG
         ('Lu3Al5O12', 'Hrabovsky'),     # LuAG
         ('Lu2O3', 'Kaminskii'),
         ('BeAl2O4', 'Walling-alpha'),   # chrysoberyl
         ('LiIO3', 'Umegaki-o')]

failures = []
for name, ref in CASES:
    with contextlib.redirect_stdout(io.StringIO()):
        m = Material(name, ref)
    md = m.material_data
    lo, hi = md['min_wavelength'], md['max_wavelength']
    assert lo < 1.0 < hi
    exp, c = own_formula4(md['filename'], 1.0)
    print(f"{md['filename']}  stated range [{lo}, {hi}] um")
    print(f'   coefficients C1..C9 = {c[:9]}')
    try:
        scalar = float(m.n(1.0))
    except Exception as e:            # noqa
        scalar = f'raised {type(e).__name__}: {e}'
    with warnings.catch_warnings():
        warnings.simplefilter('ignore')
        array = m.n(np.array([0.9999999, 1.0, 1.0000001]))
    print(f'   expected n(1.0)        = {exp:.12f}')
    print(f'   library  n(1.0) scalar = {scalar}')
    print(f'   library  n([1-1e-7, 1.0, 1+1e-7]) = {array}')
    ok_s = isinstance(scalar, float) and abs(scalar - exp) < 1e-9
    ok_a = np.isfinite(array[1]) and abs(array[1] - exp) < 1e-9
    assert abs(array[0] - exp) < 1e-6 and abs(array[2] - exp) < 1e-6, \
        'own formula disagrees with the library next to 1 um'
    if not (ok_s and ok_a):
        failures.append((name, ref, scalar, array[1], exp))

print()
for f in failures:
    print('FAIL', f)
assert not failures, 'n(1.0 um) is not the formula-4 value'

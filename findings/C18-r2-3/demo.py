"""C18 / 3 - AbbeMaterial.abbe() cannot be called: the constructor stores the input
Abbe number in an instance attribute called `abbe`, which hides
BaseMaterial.abbe().

Every other material answers abbe() with (n_d - 1)/(n_F - n_C); for a model glass the
call raises TypeError, so the Abbe number of the model cannot be obtained through
the common material interface (e.g. when looping over the glasses of a lens that
was imported from a Zemax file with MODEL glasses).
"""
import sys
from optiland.materials import AbbeMaterial, BaseMaterial, IdealMaterial, Material

D, F, C = 0.5875618, 0.4861327, 0.6562725


def own_abbe(m):
    return (m.n(D) - 1) / (m.n(F) - m.n(C))


bad = 0
# control: a catalogue glass obeys the interface
bk7 = Material('N-BK7 (SCHOTT)')
print(f"Material N-BK7: abbe() = {bk7.abbe():.6f}, (n_d-1)/(n_F-n_C) = "
      f"{own_abbe(bk7):.6f}")
if abs(bk7.abbe() - own_abbe(bk7)) > 1e-9:
    bad += 1

for nd, vd in [(1.5168, 64.17), (1.62004, 36.37), (1.7552, 27.58)]:
    m = AbbeMaterial(nd, vd)
    assert isinstance(m, BaseMaterial)
    expected = own_abbe(m)
    try:
        got = m.abbe()
        print(f"AbbeMaterial({nd}, {vd}).abbe() = {got:.6f}, expected {expected:.6f}")
        if abs(got - expected) > 1e-9:
            bad += 1
    except TypeError as e:
        print(f"AbbeMaterial({nd}, {vd}).abbe() raised TypeError: {e}; "
              f"expected (n_d-1)/(n_F-n_C) = {expected:.6f}")
        bad += 1

if bad:
    print("FAIL")
    sys.exit(1)
print("OK")
sys.exit(0)

"""C16 / 3 - rays are extinguished in front of an aspheric surface whose base
sphere lies behind the ray's starting point although the aspheric surface
itself lies ahead of it; no aperture, coating or absorbing medium present."""
import sys
import warnings
import numpy as np

warnings.filterwarnings('ignore')
from optiland.optic import Optic
from optiland.materials import IdealMaterial

WL = 0.55
R2, GAP, R3, A4 = -30.0, 0.3, -20.0, 1e-4
Z2 = 3.0              # vertex of surface 2
Z3 = Z2 + GAP         # vertex of the asphere


def sag_sphere(r, R):
    return r**2 / (R * (1 + np.sqrt(1 - r**2 / R**2)))


def sag3(r):
    return sag_sphere(r, R3) + A4 * r**4


o = Optic()
o.add_surface(index=0, thickness=np.inf)
o.add_surface(index=1, radius=50, thickness=3, is_stop=True,
              material=IdealMaterial(1.5))
o.add_surface(index=2, radius=R2, thickness=GAP)
o.add_surface(index=3, surface_type='even_asphere', radius=R3,
              coefficients=[0.0, A4], thickness=3,
              material=IdealMaterial(1.6))
o.add_surface(index=4, radius=-40, thickness=60)
o.add_surface(index=5)
o.set_aperture('EPD', 16)
o.set_field_type('angle')
o.add_field(0)
o.add_wavelength(WL, is_primary=True)

n = 17
rays = o.trace(0.0, 0.0, WL, num_rays=n, distribution='line_y')
sg = o.surface_group
inten = sg.intensity

# Independent check that every ray leaving surface 2 really meets the asphere
# ahead of it: own bisection along the ray for z - Z3 - sag3(r) = 0.
bad = False
print(' ray  y on S2   air gap along ray to asphere (own solve)   '
      'intensity S2 -> S3 (library)   expected')
for j in range(n):
    p = np.array([sg.x[2, j], sg.y[2, j], sg.z[2, j]])
    d = np.array([sg.L[2, j], sg.M[2, j], sg.N[2, j]])

    def f(t):
        q = p + t * d
        return q[2] - Z3 - sag3(np.hypot(q[0], q[1]))
    lo, hi = 0.0, 2.0
    assert f(lo) < 0 < f(hi)          # asphere is ahead of the ray
    for _ in range(80):
        mid = 0.5 * (lo + hi)
        lo, hi = (mid, hi) if f(mid) < 0 else (lo, mid)
    t_own = 0.5 * (lo + hi)
    # base sphere position relative to the start point (negative: behind)
    base = Z3 + sag_sphere(np.hypot(p[0], p[1]), R3) - p[2]
    expected = 1.0    # no aperture, no coating, k = 0
    ok = inten[3, j] == expected and inten[-1, j] == expected
    print(f' {j:3d}  {p[1]:7.3f}   t = {t_own:.4f} mm (base sphere at '
          f'{base:+.3f} mm)        {inten[2, j]:.1f} -> {inten[3, j]:.1f}'
          f'                  {expected:.1f}   {"ok" if ok else "VIOLATED"}')
    bad |= not ok

print('rays lost without any aperture:',
      int(np.sum(inten[-1] != 1.0)), 'of', n, '(expected 0)')
sys.exit(1 if bad else 0)

"""C17 / 4 - Jones elements placed in a lens act in a frame rotated by 90 deg
about the ray with respect to the frame in which the input states are defined:
a horizontal polarizer blocks 'H' light and passes 'V' light, a quarter-wave
plate has the opposite retardance.

The element is put on a plane dummy surface in air (the direction of every ray
is unchanged there), through the library's extension point for polarizing
coatings (BaseCoatingPolarized + a BaseJones object).

Reference (Malus / Jones algebra with numpy only): a polarizer onto the unit
state u transmits |<u|v>|^2 of the unit state v; a retarder at angle theta is
R(theta) diag(exp(-i d/2), exp(+i d/2)) R(-theta).
"""
import sys
import warnings
import numpy as np
from optiland.optic import Optic
from optiland import jones
from optiland.coatings import BaseCoatingPolarized
from optiland.rays import create_polarization, PolarizationState

warnings.filterwarnings('ignore')


class ElementCoating(BaseCoatingPolarized):
    """A polarization element as a surface 'coating'."""
    def __init__(self, jones_element):
        self.jones = jones_element


def bench(*elements, field=0.0):
    o = Optic()
    o.add_surface(index=0, thickness=np.inf)
    for k, el in enumerate(elements):
        o.add_surface(index=k + 1, thickness=10, is_stop=(k == 0),
                      coating=ElementCoating(el))
    o.add_surface(index=len(elements) + 1)
    o.set_aperture('EPD', 10)
    o.set_field_type('angle')
    o.add_field(y=0)
    o.add_field(y=10)
    o.add_wavelength(0.55, is_primary=True)
    return o


r2 = np.sqrt(0.5)
vec = {'H': np.array([1, 0], complex), 'V': np.array([0, 1], complex),
       'L+45': np.array([r2, r2], complex), 'L-45': np.array([r2, -r2], complex),
       'RCP': np.array([r2, -1j * r2]), 'LCP': np.array([r2, 1j * r2])}
polarizer = {'H': jones.JonesPolarizerH, 'V': jones.JonesPolarizerV,
             'L+45': jones.JonesPolarizerL45, 'L-45': jones.JonesPolarizerL135,
             'RCP': jones.JonesPolarizerRCP, 'LCP': jones.JonesPolarizerLCP}

bad = False
print('polarizer  input   library   expected |<u|v>|^2')
for pname, pcls in polarizer.items():
    for Hy in (0, 1):                      # axial beam and 10 deg oblique beam
        o = bench(pcls())
        for sname, v in vec.items():
            o.set_polarization(create_polarization(sname))
            got = o.trace(0, Hy, 0.55, num_rays=3, distribution='hexapolar').i
            exp = abs(np.vdot(vec[pname], v))**2
            if np.abs(got - exp).max() > 1e-9:
                bad = True
                if Hy == 0:
                    print(f'{pname:9s}  {sname:5s}   {got[0]:.4f}    {exp:.4f}'
                          '   VIOLATION')

# quarter-wave plate at 45 deg followed by a circular analyser
d, th = np.pi / 2, np.pi / 4
R = np.array([[np.cos(th), -np.sin(th)], [np.sin(th), np.cos(th)]])
Q = R @ np.diag([np.exp(-1j * d / 2), np.exp(1j * d / 2)]) @ R.T
out = Q @ vec['H']
for an in ('RCP', 'LCP'):
    o = bench(jones.JonesQuarterWaveRetarder(theta=th), polarizer[an]())
    o.set_polarization(create_polarization('H'))
    got = float(o.trace(0, 0, 0.55, num_rays=1, distribution='line_y').i[0])
    exp = abs(np.vdot(vec[an], out))**2
    ok = abs(got - exp) < 1e-9
    print(f"H -> QWP(45 deg) -> {an} analyser: library {got:.4f}  expected "
          f"{exp:.4f}  {'ok' if ok else 'VIOLATION'}")
    bad |= not ok

# an arbitrary state through the H polarizer: expected Ex^2 / (Ex^2 + Ey^2)
o = bench(jones.JonesPolarizerH())
o.set_polarization(PolarizationState(True, Ex=0.3, Ey=-0.8, phase_x=0.4,
                                     phase_y=2.0))
got = float(o.trace(0, 0, 0.55, num_rays=1, distribution='line_y').i[0])
exp = 0.3**2 / (0.3**2 + 0.8**2)
ok = abs(got - exp) < 1e-9
print(f"(Ex,Ey)=(0.3,-0.8) -> H polarizer: library {got:.4f}  expected "
      f"{exp:.4f}  {'ok' if ok else 'VIOLATION'}")
bad |= not ok

sys.exit(1 if bad else 0)

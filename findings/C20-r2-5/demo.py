"""C20 / 5 - the paraxial magnification of an imported system with an odd
number of mirrors (GLAS MIRROR) has the wrong sign."""
import io
import os
import sys
import tempfile
import contextlib
import numpy as np
from optiland.fileio import load_zemax_file


def zmx(surfaces, obj_t):
    body = ''
    for i, (curv, disz, glass, stop) in enumerate(surfaces, start=1):
        body += f'SURF {i}\n'
        if stop:
            body += '  STOP\n'
        body += f'  TYPE STANDARD\n  CURV {curv!r}\n  DISZ {disz!r}\n'
        if glass:
            body += f'  GLAS {glass}\n'
    n = len(surfaces) + 1
    return f"""VERS 171115
MODE SEQ
NAME mirror
UNIT MM X W X CM MR CPMM
ENPD 10.0
GCAT SCHOTT
FTYP 1 0 2 1 0 0 0 0
XFLN 0 0 0 0 0 0 0 0 0 0 0 0
YFLN 0 10 0 0 0 0 0 0 0 0 0 0
WAVM 1 0.5875618 1
PWAV 1
SURF 0
  TYPE STANDARD
  CURV 0.0
  DISZ {obj_t!r}
{body}SURF {n}
  TYPE STANDARD
  CURV 0.0
  DISZ 0
"""


def load(text):
    fd, path = tempfile.mkstemp(suffix='.zmx')
    os.close(fd)
    with open(path, 'w', encoding='utf-8') as f:
        f.write(text)
    with contextlib.redirect_stdout(io.StringIO()):
        lens = load_zemax_file(path)
    os.remove(path)
    return lens


def m_reference(surfaces, obj_t, n_glass):
    """own y-nu trace with the usual sign rule n' = -n after a mirror;
    m = n0 u0 / (n_k u_k)."""
    n = 1.0
    y, u = 0.0, 0.01
    n0u0 = n * u
    y = y + u * obj_t
    for curv, disz, glass, _ in surfaces:
        if glass and glass.startswith('MIRROR'):
            n2 = -n
        elif glass:
            n2 = np.sign(n) * n_glass
        else:
            n2 = np.sign(n) * 1.0
        u = (n * u - y * curv * (n2 - n)) / n2
        n = n2
        y = y + u * disz
    return n0u0 / (n * u), y        # y: residual height on the image surface


failed = False

# 1. concave mirror R = -100 (f = 50), object 150 in front -> image 75 in
#    front of the mirror, real and inverted: m = -s'/s = -0.5
s1 = [(-0.01, -75.0, 'MIRROR 0 0 1.5 40', True)]
# 2. Mangin mirror: N-BK7 meniscus, silvered back (one reflection)
s2 = [(-0.008, 4.0, 'N-BK7 0 0 1.5168 64.17 0 0 0 0 0 0', True),
      (-0.012, -4.0, 'MIRROR 0 0 1.5 40', False),
      (-0.008, None, None, False)]
# 3. two mirrors (even number) for comparison
s3 = [(-0.005, -60.0, 'MIRROR 0 0 1.5 40', True),
      (-0.004, None, 'MIRROR 0 0 1.5 40', False)]

for title, surfs, obj_t in [('concave mirror', s1, 150.0),
                            ('Mangin mirror', s2, 200.0),
                            ('two mirrors', s3, 500.0)]:
    # put the image surface in the paraxial focus (own computation)
    if surfs[-1][1] is None:
        probe = surfs[:-1] + [(surfs[-1][0], 0.0) + surfs[-1][2:]]
        _, y_last = m_reference(probe, obj_t, 1.5168)
        # slope after the last surface: trace once more with unit thickness
        probe1 = surfs[:-1] + [(surfs[-1][0], 1.0) + surfs[-1][2:]]
        _, y_next = m_reference(probe1, obj_t, 1.5168)
        u_last = y_next - y_last
        surfs = surfs[:-1] + [(surfs[-1][0], float(-y_last / u_last))
                              + surfs[-1][2:]]
    lens = load(zmx(surfs, obj_t))
    n_glass = 1.5168
    for s in lens.surface_group.surfaces:
        if type(s.material_post).__name__ == 'Material':
            n_glass = float(np.ravel(s.material_post.n(0.5875618))[0])
    m_ref, y_res = m_reference(surfs, obj_t, n_glass)
    m_lib = float(lens.paraxial.magnification())
    ok = abs(m_lib - m_ref) < 1e-6 * max(1.0, abs(m_ref))
    print(f'{title:15s} magnification: library = {m_lib: .6f}   '
          f'expected = {m_ref: .6f}   (image-plane residual {y_res:.1e})   '
          f'{"ok" if ok else "VIOLATED"}')
    failed |= not ok

print('(Gaussian check for the concave mirror: 1/s\' = 1/50 - 1/150 -> '
      's\' = 75, m = -s\'/s = -0.5)')
sys.exit(1 if failed else 0)

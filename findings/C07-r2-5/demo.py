"""C07 / 5 - Optic.scale_system scales a physical aperture once per surface that
carries it: an aperture object shared by two surfaces (the natural way to give
both faces of an element the same clear aperture) is scaled by s**2.

Singlet, both faces carry the same RadialAperture(r_max=6, r_min=1) object,
EPD 10 mm, stop on the first face, object at infinity.  After
scale_system(0.5) the lens is a 1:2 model: clear radius 3 mm, obstruction
radius 0.5 mm, EPD 5 mm.

Reference (no library needed): an on-axis collimated ray with pupil coordinate
Py meets the first face (the stop) at height Py * EPD / 2 and, the lens being
positive, the second face at a smaller height.  So Py = 0.9 (2.25 mm) must
pass (0.5 < 2.25 < 3) and Py = 0.15 (0.375 mm) must be blocked by the central
obstruction (0.375 < 0.5).
"""
import sys
import warnings
import numpy as np
from optiland.optic import Optic
from optiland.materials import IdealMaterial
from optiland.physical_apertures import RadialAperture

warnings.simplefilter('ignore')
S = 0.5


def lens(shared):
    ap1 = RadialAperture(r_max=6.0, r_min=1.0)
    ap2 = ap1 if shared else RadialAperture(r_max=6.0, r_min=1.0)
    o = Optic()
    o.add_surface(index=0, thickness=np.inf)
    o.add_surface(index=1, radius=40.0, conic=-0.7, thickness=6.0,
                  material=IdealMaterial(1.7), is_stop=True, aperture=ap1)
    o.add_surface(index=2, radius=-30.0, thickness=25.0, aperture=ap2)
    o.add_surface(index=3)
    o.set_aperture('EPD', 10.0)
    o.set_field_type('angle')
    o.add_field(0)
    o.add_field(5)
    o.add_wavelength(0.55, is_primary=True)
    return o


PY = np.array([0.9, 0.15])
EXPECTED = np.array([1.0, 0.0])
bad = False
for shared in (False, True):
    o = lens(shared)
    o.scale_system(S)
    a1 = o.surface_group.surfaces[1].aperture
    a2 = o.surface_group.surfaces[2].aperture
    r = o.trace_generic(0.0, 0.0, 0.0, PY, 0.55)
    h1 = o.surface_group.y[1]
    print('%s aperture objects: after scale_system(%g) r_max = %g / %g '
          '(expected 3), r_min = %g / %g (expected 0.5)'
          % ('shared  ' if shared else 'separate', S, a1.r_max, a2.r_max,
             a1.r_min, a2.r_min))
    print('   ray heights on face 1: %s (expected %s)' % (h1, PY * 10 * S / 2))
    print('   transmitted intensity for Py = %s: %s (expected %s)'
          % (PY, r.i, EXPECTED))
    if (abs(a1.r_max - 6 * S) > 1e-12 or abs(a2.r_min - 1 * S) > 1e-12
            or not np.array_equal(r.i, EXPECTED)):
        print('   VIOLATION')
        bad = True
sys.exit(1 if bad else 0)

"""C11 / 7 - FFTMTF.view() raises for every odd grid_size.

FFTPSF pads the pupil to any grid_size ("also when the difference is odd"),
FFTMTF computes the curves, but view() builds a frequency axis that is one
sample shorter than the curves when grid_size is odd.
"""
import sys
import warnings
import numpy as np
warnings.simplefilter('ignore')
import matplotlib
matplotlib.use('Agg')
import matplotlib.pyplot as plt
from optiland import optic
from optiland.mtf import FFTMTF


def make():
    o = optic.Optic()
    o.add_surface(index=0, radius=np.inf, thickness=np.inf)
    o.add_surface(index=1, radius=-200.0, conic=-1.0, thickness=-100,
                  material='mirror', is_stop=True)
    o.add_surface(index=2)
    o.set_aperture(aperture_type='EPD', value=10.0)
    o.set_field_type(field_type='angle')
    o.add_field(y=0)
    o.add_wavelength(value=0.55, is_primary=True)
    return o


bad = False
for n, g in ((32, 128), (32, 129), (33, 129), (64, 255)):
    m = FFTMTF(make(), num_rays=n, grid_size=g)
    t = np.asarray(m.mtf[0][0])
    plt.close('all')
    try:
        m.view(add_reference=True)
        ax = plt.gcf().axes[0]
        f = ax.lines[0].get_xdata()
        print(f'num_rays={n} grid_size={g}: {len(t)} MTF samples (start '
              f'{t[0]:.3f}), view() plotted them against {len(f)} frequencies')
    except Exception as e:
        bad = True
        print(f'num_rays={n} grid_size={g}: {len(t)} MTF samples (start '
              f'{t[0]:.3f}), view() raised {type(e).__name__}: {e}'
              f'   <-- VIOLATED')
if bad:
    print('VIOLATED: the MTF of a valid grid size cannot be reported against '
          'spatial frequency')
    sys.exit(1)
print('ok')
sys.exit(0)

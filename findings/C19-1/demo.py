"""C19 defect 1: a lens with Fresnel (uncoated-surface) coatings cannot be
saved to JSON; its dictionary form contains live material objects."""
import json
import os
import sys
import tempfile
import numpy as np
from optiland.optic import Optic
from optiland.materials import IdealMaterial
from optiland.rays import create_polarization
from optiland.fileio import save_optiland_file, load_optiland_file

N_GLASS = 1.5


def build():
    lens = Optic()
    lens.add_surface(index=0, thickness=np.inf)
    lens.add_surface(index=1, radius=50, thickness=5, is_stop=True,
                     material=IdealMaterial(N_GLASS), coating='fresnel')
    lens.add_surface(index=2, radius=-50, thickness=40, coating='fresnel')
    lens.add_surface(index=3)
    lens.set_aperture('EPD', 10)
    lens.set_field_type('angle')
    lens.add_field(0)
    lens.add_wavelength(0.55, is_primary=True)
    lens.set_polarization(create_polarization('unpolarized'))
    return lens


lens = build()

# independent expectation: axial ray, normal incidence on both faces,
# T = (1 - ((n-1)/(n+1))^2)^2
R = ((N_GLASS - 1) / (N_GLASS + 1))**2
expected_T = (1 - R)**2
rays = lens.trace(0.0, 0.0, 0.55, num_rays=3, distribution='line_y')
orig_T = float(rays.i[1])  # middle ray of the fan = axial ray
print(f'axial transmission, own Fresnel formula : {expected_T:.12f}')
print(f'axial transmission, original lens       : {orig_T:.12f}')
assert abs(orig_T - expected_T) < 1e-9, 'original lens disagrees with formula'

failures = []

# (a) the dictionary form must consist of plain data (json-able)
d = lens.to_dict()
coat = d['surface_group']['surfaces'][1]['coating']
print('dict form of the coating:', {k: type(v).__name__
                                    for k, v in coat.items()})
try:
    json.dumps(d)
except TypeError as e:
    failures.append(f'to_dict() is not JSON-serialisable: {e}')

# (b) save / load round trip
fn = os.path.join(tempfile.mkdtemp(), 'lens.json')
try:
    save_optiland_file(lens, fn)
    reloaded = load_optiland_file(fn)
    r2 = reloaded.trace(0.0, 0.0, 0.55, num_rays=3, distribution='line_y')
    new_T = float(r2.i[1])
    print(f'axial transmission, reloaded lens       : {new_T:.12f}')
    if abs(new_T - expected_T) > 1e-9:
        failures.append(f'reloaded transmission {new_T} != {expected_T}')
except Exception as e:
    failures.append(f'save_optiland_file/load_optiland_file raised '
                    f'{type(e).__name__}: {e}')

if failures:
    print('\nEXPECTED: the lens is saved and the reloaded lens transmits '
          f'{expected_T:.12f} on axis')
    print('OBSERVED:')
    for f in failures:
        print('  -', f)
    sys.exit(1)
print('OK')

"""C09 / 1 - OPD of a paraboloidal mirror at small field angles is rounding noise.

A Newtonian telescope mirror (R = -2000 mm, conic = -1, EPD = 200 mm, stop on
the mirror) is analysed at field angles of 0.01, 0.001 and 0.0001 degrees.
The reported OPD is compared with an independent computation of
(chief path - ray path) / wavelength to the chief-ray reference sphere
(own ray/paraboloid intersection in the cancellation-free form, own
reflection, own reference sphere through the axial point of the exit pupil,
which is the mirror vertex because the stop is the last powered surface).
"""
import sys
import numpy as np
from optiland.optic import Optic
from optiland.wavefront import Wavefront, OPD
from optiland.distribution import create_distribution

R, EPD, ZIMG, WL = -2000.0, 200.0, -1000.0, 0.55


def build(field_deg):
    lens = Optic()
    lens.add_surface(index=0, thickness=np.inf)
    lens.add_surface(index=1, radius=R, conic=-1.0, thickness=ZIMG,
                     material='mirror', is_stop=True)
    lens.add_surface(index=2)
    lens.set_aperture('EPD', EPD)
    lens.set_field_type('angle')
    lens.add_field(0.0)
    lens.add_field(field_deg)
    lens.add_wavelength(WL, is_primary=True)
    return lens


def reference_opd(px, py, field_deg):
    """(chief path - ray path)/wavelength, paths from the plane wavefront
    through the origin to the reference sphere."""
    f = np.radians(field_deg)
    d = np.array([0.0, np.sin(f), np.cos(f)])

    def path(px, py):
        px = np.atleast_1d(np.asarray(px, float))
        py = np.atleast_1d(np.asarray(py, float))
        # entrance pupil = stop = mirror vertex plane z = 0
        P = np.stack([px * EPD / 2, py * EPD / 2, np.zeros_like(px)], axis=1)
        opl = P @ d                      # from the wavefront through O
        # paraboloid z = r^2 / (2R):  A t^2 + B t + C = 0
        A = (d[0]**2 + d[1]**2) / (2 * R)
        B = (P[:, 0] * d[0] + P[:, 1] * d[1]) / R - d[2]
        C = (P[:, 0]**2 + P[:, 1]**2) / (2 * R) - P[:, 2]
        t = 2 * C / (-B + np.sqrt(B * B - 4 * A * C))   # no cancellation
        Q = P + t[:, None] * d
        opl = opl + t
        n = np.stack([-Q[:, 0] / R, -Q[:, 1] / R, np.ones(len(Q))], axis=1)
        n /= np.linalg.norm(n, axis=1)[:, None]
        dr = d - 2 * (n @ d)[:, None] * n
        t2 = (ZIMG - Q[:, 2]) / dr[:, 2]
        return Q + t2[:, None] * dr, dr, opl + t2

    Pc, dc, oc = path(0.0, 0.0)
    centre = Pc[0]
    pupil = np.array([0.0, 0.0, 0.0])    # exit pupil = the mirror (stop)
    radius = np.linalg.norm(centre - pupil)

    def to_sphere(P, dr, opl):
        q = P - centre
        b = np.sum(q * dr, axis=1)
        c = np.sum(q * q, axis=1) - radius**2
        return opl + (-b - np.sqrt(b * b - c))   # back along the ray

    P, dr, o = path(px, py)
    return (to_sphere(Pc, dc, oc) - to_sphere(P, dr, o)) / (WL * 1e-3)


dist = create_distribution('hexapolar')
dist.generate_points(3)
bad = False
for field in (1e-2, 1e-3, 1e-4):
    lens = build(field)
    assert abs(lens.paraxial.XPL() - 1000.0) < 1e-9
    lib = Wavefront(lens, fields=[(0.0, 1.0)], wavelengths=[WL], num_rays=3,
                    distribution=dist).data[0][0][0]
    ref = reference_opd(dist.x, dist.y, field)
    rms_lib = OPD(lens, (0.0, 1.0), WL, num_rings=3).rms()
    rms_ref = np.sqrt(np.mean(ref**2))
    err = np.max(np.abs(lib - ref))
    print(f'field {field:g} deg: max|OPD| library {np.max(np.abs(lib)):.4e} '
          f'expected {np.max(np.abs(ref)):.4e} waves; max deviation '
          f'{err:.3e} waves; RMS library {rms_lib:.4e} expected '
          f'{rms_ref:.4e}')
    if err > 1e-6:
        bad = True
if bad:
    print('VIOLATED: reported OPD differs from (chief path - ray path)/'
          'wavelength by far more than rounding')
    sys.exit(1)
print('property holds')
sys.exit(0)

"""C19 defect 5: loading a lens re-applies its pickups and thereby changes the
prescription that was saved (chained pickups; pickup offset + scale_system)."""
import json
import os
import sys
import tempfile
import numpy as np
from optiland.optic import Optic
from optiland.samples.objectives import CookeTriplet
from optiland.fileio import save_optiland_file, load_optiland_file


def prescription(lens):
    sg = lens.surface_group
    n = lens.n(0.55)
    t = [float(sg.get_thickness(k)[0]) for k in range(sg.num_surfaces - 1)]
    return np.array(sg.radii, dtype=float), np.array(t), np.array(n)


def own_efl(lens):
    """independent y-nu trace from the raw prescription (surfaces 1..N-2)"""
    radii, t, n = prescription(lens)
    y, nu = 1.0, 0.0
    for k in range(1, len(radii) - 1):
        power = (n[k] - n[k - 1]) / radii[k]
        nu = nu - y * power
        y = y + nu / n[k] * t[k]
    return -1.0 / nu


def check(label, lens, failures):
    radii0, t0, n0 = prescription(lens)
    efl0 = own_efl(lens)
    f2_0 = lens.paraxial.f2()
    r = lens.trace(0.0, 1.0, 0.55, num_rays=5, distribution='line_y')
    y_img0 = np.copy(r.y)
    print(f'\n[{label}]')
    print(f'  original : thicknesses {np.round(t0[1:], 4)}')
    print(f'  original : EFL own y-nu trace {efl0:.6f}, paraxial.f2 {f2_0:.6f}')
    assert abs(efl0 - f2_0) < 1e-6

    fn = os.path.join(tempfile.mkdtemp(), 'lens.json')
    save_optiland_file(lens, fn)
    with open(fn) as f:
        on_disk = json.load(f)
    reloaded = load_optiland_file(fn)
    radii1, t1, n1 = prescription(reloaded)
    efl1 = own_efl(reloaded)
    r = reloaded.trace(0.0, 1.0, 0.55, num_rays=5, distribution='line_y')
    print(f'  reloaded : thicknesses {np.round(t1[1:], 4)}')
    print(f'  reloaded : EFL own y-nu trace {efl1:.6f}, '
          f'paraxial.f2 {reloaded.paraxial.f2():.6f}')
    dt = np.max(np.abs(t1[1:] - t0[1:]))
    if dt > 1e-9:
        failures.append(f'{label}: thickness changed on reload by {dt:.6f} mm')
    if abs(efl1 - efl0) > 1e-9 * abs(efl0):
        failures.append(f'{label}: EFL {efl0:.6f} -> {efl1:.6f}')
    dy = np.max(np.abs(r.y - y_img0))
    if dy > 1e-9:
        failures.append(f'{label}: image heights of the ray fan moved by '
                        f'{dy:.6f} mm')
    if json.dumps(reloaded.to_dict(), sort_keys=True) != \
            json.dumps(on_disk, sort_keys=True):
        failures.append(f'{label}: to_dict() of the reloaded lens differs '
                        'from the file it was loaded from')


failures = []

# A. two chained thickness pickups, added target-first; no other edit
lens = CookeTriplet()
lens.pickups.add(2, 'thickness', 4)     # t4 := t2
lens.pickups.add(1, 'thickness', 2)     # t2 := t1   (t4 keeps the old t2)
check('chained pickups', lens, failures)

# B. pickup with an offset, then scale_system (edit listed in the property)
lens = CookeTriplet()
lens.pickups.add(1, 'thickness', 5, scale=1, offset=0.5)
lens.scale_system(2.0)
check('pickup offset + scale_system', lens, failures)

if failures:
    print('\nEXPECTED: reloaded lens has the saved thicknesses / EFL / rays '
          'and the same dictionary form')
    print('OBSERVED:')
    for f in failures:
        print('  -', f)
    sys.exit(1)
print('OK')

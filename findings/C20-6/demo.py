"""C20 defect 6: the model glass built for an unknown glass name does not have
"the file's index and Abbe number": AbbeMaterial(n_d, V_d).n(587.56 nm) != n_d
and its Abbe number (n_d-1)/(n_F-n_C) != V_d, so the paraxial properties of the
loaded lens differ from those computed from the written numbers.

Independent path: n_d is the index AT the d line by definition, so for a lens
evaluated at 0.5875618 um the thick-lens EFL follows from the written numbers
alone.
"""
import os
import tempfile
import numpy as np
from optiland.fileio.zemax_handler import load_zemax_file
from optiland.materials import AbbeMaterial

LD, LF, LC = 0.5875618, 0.4861327, 0.6562725

TEMPLATE = """MODE SEQ
UNIT MM X W X CM MR CPMM
ENPD 10.0
GCAT SCHOTT
FTYP 0 0 1 3 0 0 0 0
XFLN 0.0
YFLN 0.0
WAVM 1 0.4861327 1
WAVM 2 0.5875618 1
WAVM 3 0.6562725 1
PWAV 2
SURF 0
  TYPE STANDARD
  CURV 0.0
  DISZ INFINITY
SURF 1
  STOP
  TYPE STANDARD
  CURV 0.02
  DISZ 5.0
  GLAS ___BLANK 1 0 {nd} {vd} 0 0 0 0 0 0
SURF 2
  TYPE STANDARD
  CURV -0.02
  DISZ 45.0
SURF 3
  TYPE STANDARD
  CURV 0.0
  DISZ 0.0
"""


def thick_lens_efl(n, c1, c2, t):
    return 1 / ((n - 1) * (c1 - c2 + (n - 1) * t * c1 * c2 / n))


worst = 0.0
for nd, vd in [(1.5168, 64.17), (1.80518, 25.43), (1.4875, 70.4),
               (1.95, 18.0), (1.7, 30.0)]:
    fd, path = tempfile.mkstemp(suffix='.zmx')
    os.close(fd)
    with open(path, 'w', encoding='utf-8') as f:
        f.write(TEMPLATE.format(nd=nd, vd=vd))
    lens = load_zemax_file(path)
    os.remove(path)

    mat = lens.surface_group.surfaces[1].material_post
    assert isinstance(mat, AbbeMaterial) and mat.index == nd and mat.abbe == vd
    n_d = float(mat.n(LD))
    v_d = (n_d - 1) / float(mat.n(LF) - mat.n(LC))
    f_exp = thick_lens_efl(nd, 0.02, -0.02, 5.0)
    f_lib = float(lens.paraxial.f2())
    # written dispersion: n_F - n_C = (n_d - 1) / V_d  -> longitudinal colour
    dn_exp = (nd - 1) / vd
    dn_lib = float(mat.n(LF) - mat.n(LC))
    print(f'file n_d={nd:<8} V_d={vd:<6} | model n(d)={n_d:.6f} '
          f'(d={n_d - nd:+.2e})  V={v_d:.3f} | EFL written {f_exp:.5f} '
          f'loaded {f_lib:.5f} (rel {f_lib / f_exp - 1:+.2e}) | '
          f'nF-nC written {dn_exp:.6f} loaded {dn_lib:.6f}')
    worst = max(worst, abs(f_lib / f_exp - 1), abs(n_d - nd))

assert worst < 1e-9, f'model glass does not reproduce the written n_d (worst deviation {worst:.2e})'

"""C07 / 2 - with polarization switched on, tilting a spherical surface about
its own centre of curvature changes the transmitted intensity.

Singlet (n = 1.7, uncoated -> Fresnel coatings), unpolarized light, field
10 deg.  The rear surface (R = -30 mm) is described (a) untilted and (b)
tilted by (rx, ry) about its centre of curvature (vertex decentred
accordingly), which is the same sphere in space.  Ray positions, directions
and path lengths agree to 1e-14, the intensities do not.

Reference: an independent polarization ray trace written here (spheres given
by their centres, Fresnel amplitude coefficients, 3x3 polarization matrices
in GLOBAL coordinates).  It does not know about tilts at all.
"""
import sys
import warnings
import numpy as np
from optiland.optic import Optic
from optiland.materials import IdealMaterial
from optiland.rays import PolarizationState

warnings.simplefilter('ignore')
N_G = 1.7
R1, T1, R2, T2 = 40.0, 6.0, -30.0, 40.0


class Pupil:                       # explicit pupil sample for Optic.trace
    def __init__(self, x, y):
        self.x = np.array(x, float)
        self.y = np.array(y, float)


PUPIL = Pupil([0.0, 0.5, -0.6, 0.3, 0.0], [0.0, 0.7, 0.2, -0.8, 0.95])


def rot(rx, ry):
    cx, sx, cy, sy = np.cos(rx), np.sin(rx), np.cos(ry), np.sin(ry)
    Rx = np.array([[1, 0, 0], [0, cx, -sx], [0, sx, cx]])
    Ry = np.array([[cy, 0, sy], [0, 1, 0], [-sy, 0, cy]])
    return Rx @ Ry      # orientation of a frame with tilts rx, ry (the
    #                     library undoes rx first, then ry, on localizing)


def lens(rx=0.0, ry=0.0, polarized=True):
    g = IdealMaterial(N_G)
    o = Optic()
    o.add_surface(index=0, thickness=np.inf)
    o.add_surface(index=1, radius=np.inf, thickness=5.0, is_stop=True)
    o.add_surface(index=2, radius=R1, thickness=T1, material=g)
    o.add_surface(index=3, radius=R2, thickness=T2)
    o.add_surface(index=4)
    o.set_aperture('EPD', 16.0)
    o.set_field_type('angle')
    o.add_field(0)
    o.add_field(10)
    o.add_wavelength(0.55, is_primary=True)
    # tilt surface 3 about its centre of curvature C = (0, 0, z0 + R)
    s = o.surface_group.surfaces[3]
    z0 = s.geometry.cs.z
    C = np.array([0.0, 0.0, z0 + R2])
    V = C - R2 * (rot(rx, ry) @ np.array([0.0, 0.0, 1.0]))
    s.geometry.cs.x, s.geometry.cs.y, s.geometry.cs.z = map(float, V)
    s.geometry.cs.rx, s.geometry.cs.ry = rx, ry
    if polarized:
        o.surface_group.set_fresnel_coatings()
        o.set_polarization(PolarizationState(is_polarized=False))
    return o


# ---------------- independent reference ---------------------------------
def sphere_hit(p, d, zv, R):
    c = np.array([0.0, 0.0, zv + R])
    oc = p - c
    b = oc @ d
    disc = b * b - (oc @ oc - R * R)
    ts = [-b - np.sqrt(disc), -b + np.sqrt(disc)]
    pts = [p + t * d for t in ts]
    k = int(np.argmin([abs(q[2] - zv) for q in pts]))
    return pts[k], (pts[k] - c) / R


def refract_prt(d, nrm, n1, n2):
    """new direction and 3x3 polarization ray tracing matrix (global)"""
    if nrm @ d < 0:
        nrm = -nrm
    mu = n1 / n2
    ci = nrm @ d
    ct = np.sqrt(1 - mu * mu * (1 - ci * ci))
    d1 = mu * d + (ct - mu * ci) * nrm
    ts = 2 * n1 * ci / (n1 * ci + n2 * ct)
    tp = 2 * n1 * ci / (n2 * ci + n1 * ct)
    s = np.cross(d, nrm)
    if np.linalg.norm(s) < 1e-12:          # normal incidence: ts == tp
        s = np.cross(d, [1.0, 0.0, 0.0])
    s /= np.linalg.norm(s)
    p0, p1 = np.cross(d, s), np.cross(d1, s)
    P = ts * np.outer(s, s) + tp * np.outer(p1, p0) + np.outer(d1, d)
    return d1, P


def reference_intensity(p0, d0):
    p, nrm = sphere_hit(p0, d0, 5.0, R1)
    d1, P1 = refract_prt(d0, nrm, 1.0, N_G)
    p, nrm = sphere_hit(p, d1, 5.0 + T1, R2)
    d2, P2 = refract_prt(d1, nrm, N_G, 1.0)
    P = P2 @ P1
    # two orthogonal unit fields perpendicular to d0, averaged (unpolarized)
    e1 = np.cross(d0, [1.0, 0.0, 0.0])
    e1 /= np.linalg.norm(e1)
    e2 = np.cross(e1, d0)
    return 0.5 * (np.sum(np.abs(P @ e1)**2) + np.sum(np.abs(P @ e2)**2))


def run(o):
    r = o.trace(0.0, 1.0, 0.55, distribution=PUPIL)
    s0 = o.surface_group.surfaces[0]
    start = np.array([s0.x, s0.y, s0.z]).T
    dirs = np.array([s0.L, s0.M, s0.N]).T
    return r, start, dirs


base, start, dirs = run(lens())
ref = np.array([reference_intensity(p, d) for p, d in zip(start, dirs)])
np.set_printoptions(precision=6, suppress=True, linewidth=120)
print('reference intensity (own global PRT):', ref)
print('library, untilted description      :', base.i)
bad = np.abs(base.i - ref).max() > 1e-9

for rx, ry in ((0.0, 0.3), (0.3, 0.0), (0.2, -0.25), (0.05, 0.0)):
    r, _, _ = run(lens(rx, ry))
    geo = max(np.abs(r.x - base.x).max(), np.abs(r.y - base.y).max(),
              np.abs(r.M - base.M).max(), np.abs(r.opd - base.opd).max())
    err = np.abs(r.i - ref).max()
    flag = 'ok' if err < 1e-9 else 'VIOLATION'
    print('rear surface tilted rx=%.2f ry=%.2f about its centre: geometry '
          'differs by %.1e, intensity %s  (max error %.4f, %.1f %%)  %s'
          % (rx, ry, geo, r.i, err, 100 * (np.abs(r.i - ref) / ref).max(),
             flag))
    bad |= err > 1e-9

sys.exit(1 if bad else 0)

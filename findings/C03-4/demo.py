"""C03 defect 4: for angular fields the x field coordinate has the opposite
sign convention to the y field coordinate.  Hy = +h gives a ray travelling
towards +y (M = +sin(theta)), Hx = +h gives a ray travelling towards -x
(L = -sin(theta)).  For a rotationally symmetric lens, exchanging the roles of
x and y in the request (Hx<->Hy, Px<->Py) must exchange x and y of the ray;
that holds for object-height fields but not for angle fields.

Run:  PYTHONPATH=/tmp/hunt/C03 /venv/bin/python demo.py
"""
import sys
import warnings
import numpy as np
from optiland.optic import Optic
from optiland.materials import IdealMaterial
from optiland.samples.objectives import CookeTriplet

warnings.filterwarnings('ignore')
WL = 0.55


def singlet(obj_t, ftype, field):
    o = Optic()
    o.add_surface(index=0, thickness=obj_t)
    o.add_surface(index=1, radius=50.0, thickness=5.0,
                  material=IdealMaterial(n=1.6))
    o.add_surface(index=2, radius=-50.0, thickness=10.0)
    o.add_surface(index=3, is_stop=True, thickness=60.0)
    o.add_surface(index=4)
    o.set_aperture('EPD', 8.0)
    o.set_field_type(ftype)
    o.add_field(y=0.0)
    o.add_field(y=field)
    o.add_wavelength(WL, is_primary=True)
    return o


def record(o, Hx, Hy, Px, Py):
    o.trace_generic(Hx, Hy, Px, Py, WL)
    sg = o.surface_group
    return {k: getattr(sg, k)[:, 0].copy() for k in 'xyzLMN'}


cases = [
    ('CookeTriplet sample, infinite object, angle 20 deg', CookeTriplet(), 20.0),
    ('singlet, finite object 100 mm, angle 10 deg',
     singlet(100.0, 'angle', 10.0), 10.0),
    ('singlet, finite object 100 mm, object height 5 mm (control)',
     singlet(100.0, 'object_height', 5.0), None),
]

h, p, q = 0.7, 0.3, -0.6
fail = 0
for name, o, ang in cases:
    a = record(o, 0.0, h, p, q)       # field along y
    b = record(o, h, 0.0, q, p)       # same request with x and y exchanged
    err = max(np.max(np.abs(a['x'] - b['y'])), np.max(np.abs(a['y'] - b['x'])),
              np.max(np.abs(a['L'] - b['M'])), np.max(np.abs(a['M'] - b['L'])))
    print(name)
    print(f"  request (Hx,Hy,Px,Py)=(0,{h},{p},{q}): launch (x,y)=({a['x'][0]:.5f},"
          f"{a['y'][0]:.5f}) (L,M)=({a['L'][0]:.6f},{a['M'][0]:.6f}) "
          f"image (x,y)=({a['x'][-1]:.5f},{a['y'][-1]:.5f})")
    print(f"  request (Hx,Hy,Px,Py)=({h},0,{q},{p}): launch (x,y)=({b['x'][0]:.5f},"
          f"{b['y'][0]:.5f}) (L,M)=({b['L'][0]:.6f},{b['M'][0]:.6f}) "
          f"image (x,y)=({b['x'][-1]:.5f},{b['y'][-1]:.5f})")
    ok = err < 1e-9
    print(f"  [{'ok  ' if ok else 'FAIL'}] x<->y exchange symmetry, max "
          f'deviation over all surfaces = {err:.6g} (expected 0)')
    if ang is not None:
        cy = record(o, 0.0, 1.0, 0.0, 0.0)
        cx = record(o, 1.0, 0.0, 0.0, 0.0)
        s = np.sin(np.radians(ang))
        okc = abs(cy['M'][0] - s) < 1e-9 and abs(cx['L'][0] - s) < 1e-9
        print(f"  [{'ok  ' if okc else 'FAIL'}] chief ray Hy=+1: M = "
              f"{cy['M'][0]:+.6f};  chief ray Hx=+1: L = {cx['L'][0]:+.6f};  "
              f'expected both {s:+.6f}')
        ok = ok and okc
    fail += not ok

if fail:
    print(f'\n{fail} configuration(s) FAILED -> defect demonstrated')
    sys.exit(1)
print('\nall checks passed')

"""C03 / 1 - objectNA aperture: negative entrance pupil diameter (and mirrored
pupil aiming) when the entrance pupil lies behind the object.

Lens: biconvex singlet (f ~ 50 mm), stop 150 mm behind it, object 50 mm in
front of it.  The stop is imaged by the singlet to a real entrance pupil about
75 mm in front of the lens, i.e. 25 mm *behind* the object plane.
"""
import sys
import warnings
import numpy as np

warnings.simplefilter('ignore')
from optiland import optic  # noqa: E402

WL = 0.5876
NA = 0.05
T_OBJ, R1, T1, R2, T2 = 50.0, 51.68, 4.0, -51.68, 150.0


def build(ap_type, value):
    o = optic.Optic()
    o.add_surface(index=0, thickness=T_OBJ)
    o.add_surface(index=1, radius=R1, thickness=T1, material='N-BK7')
    o.add_surface(index=2, radius=R2, thickness=T2)
    o.add_surface(index=3, thickness=50.0, is_stop=True)
    o.add_surface(index=4)
    o.set_aperture(ap_type, value)
    o.set_field_type('object_height')
    o.add_field(y=0)
    o.add_field(y=2)
    o.add_wavelength(WL, is_primary=True)
    return o


lens = build('objectNA', NA)
n = float(lens.surface_group.surfaces[1].material_post.n(WL))


# ---- independent reference: own y-nu trace, surface 1 vertex at z = 0 -------
def height_at_stop(y, u):
    u = (u - y * (n - 1) / R1) / n          # refraction at surface 1
    y = y + T1 * u
    u = n * u - y * (1 - n) / R2            # refraction at surface 2
    return y + T2 * u                       # height in the stop plane


yA = height_at_stop(0.0, 1.0)
yB = height_at_stop(1.0, 0.0)
EPL_ref = yA / yB                 # object-space ray a + b z hits stop centre
z_obj = -T_OBJ
U = np.arcsin(NA / 1.0)           # NA = n sin U, object in air
EPD_ref = 2 * abs(EPL_ref - z_obj) * np.tan(U)   # a diameter: positive

fail = False
EPL = float(lens.paraxial.EPL())
EPD = float(lens.paraxial.EPD())
FNO = float(lens.paraxial.FNO())
print(f'entrance pupil location : library {EPL:.6f}  reference {EPL_ref:.6f}'
      f'   (object plane at z = {z_obj})')
print(f'entrance pupil diameter : library {EPD:.6f}  reference {EPD_ref:.6f}')
print(f'image space F-number    : library {FNO:.6f}  (must be positive)')
if abs(EPD - EPD_ref) > 1e-6 * EPD_ref:
    print('VIOLATION: paraxial.EPD() is not the pupil diameter')
    fail = True

# ---- the ray (Hy = 0, Px = 0, Py = +1) must lie on the line through the
# object point (0, 0, z_obj) and the pupil point (0, +EPD/2, EPL) -------------
rays = lens.ray_generator.generate_rays(0.0, 0.0, np.array([0.0]),
                                        np.array([1.0]), WL)
x0, y0, z0 = rays.x[0], rays.y[0], rays.z[0]
L, M, N = rays.L[0], rays.M[0], rays.N[0]
t = (EPL_ref - z0) / N
y_aim = y0 + M * t
print(f'Py=+1 ray: start ({x0:.3f},{y0:.3f},{z0:.3f}) cosines '
      f'({L:.5f},{M:.5f},{N:.5f})')
print(f'  height in the entrance pupil plane: observed {y_aim:.6f}  '
      f'expected {+EPD_ref / 2:.6f}')
if abs(y_aim - EPD_ref / 2) > 1e-6:
    print('VIOLATION: ray is not aimed at (Px, Py) x EPD/2')
    fail = True

# same lens described by the equivalent EPD aperture: identical ray expected
lens2 = build('EPD', EPD_ref)
r2 = lens2.ray_generator.generate_rays(0.0, 0.0, np.array([0.0]),
                                       np.array([1.0]), WL)
print(f'  same pupil given as EPD={EPD_ref:.4f}: M = {r2.M[0]:.5f}; '
      f'objectNA: M = {M:.5f}')
if abs(r2.M[0] - M) > 1e-6:
    print('VIOLATION: the two equivalent aperture specifications give '
          'mirror-image rays')
    fail = True

sys.exit(1 if fail else 0)

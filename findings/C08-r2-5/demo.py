"""C08 / 5 - exactly object-space telecentric lens (stop at the rear focal
point) with an 'objectNA' aperture: the paraxial marginal ray, hence every
Seidel term, is NaN.

marginal_ray() computes ua = EPD / (2 z) with EPD = 2 z tan(asin NA) and
z = EPL - z_obj = inf, i.e. inf / inf, although the slope is simply
tan(asin(NA / n0)) and does not depend on the pupil position at all.

Reference: own y-nu trace (marginal ray from the axial object point with slope
tan(asin NA), chief ray through the centre of the stop) + Welford sums.
Run: cd /tmp/hunt2/C08 && PYTHONPATH=/tmp/hunt2/C08 /venv/bin/python demo.py
"""
import sys
import warnings
import numpy as np
from optiland.optic import Optic
from optiland.materials import IdealMaterial

warnings.filterwarnings('ignore')
NA, HOBJ, OBJ_T = 0.05, 5.0, 150.0
# plano-convex lens, f = 100 (R = -50, n = 1.5), flat side first


def prescription(d_stop):
    # (radius, thickness, index after)
    return [(np.inf, 5.0, 1.5), (-50.0, d_stop, 1.0), (np.inf, 100.0, 1.0)]


def build(d_stop):
    o = Optic()
    o.add_surface(index=0, radius=np.inf, thickness=OBJ_T)
    for k, (r, t, n) in enumerate(prescription(d_stop)):
        o.add_surface(index=k + 1, radius=r, thickness=t,
                      material=IdealMaterial(n, 0), is_stop=(k == 2))
    o.add_surface(index=4)
    o.set_aperture('objectNA', NA)
    o.set_field_type('object_height')
    o.add_field(y=0)
    o.add_field(y=HOBJ)
    o.add_wavelength(0.55, is_primary=True)
    o.obj_space_telecentric = True
    return o


def trace(surfs, y, u):
    """returns list of (y, u_in, u_out, c, n_in, n_out) per surface"""
    n_prev, rec = 1.0, []
    for r, t, n in surfs:
        c = 0.0 if np.isinf(r) else 1.0 / r
        u2 = (n_prev * u - y * c * (n - n_prev)) / n
        rec.append((y, u, u2, c, n_prev, n))
        y, u, n_prev = y + u2 * t, u2, n
    return rec


def reference(d_stop):
    surfs = prescription(d_stop)
    u0 = np.tan(np.arcsin(NA))
    marg = trace(surfs, u0 * OBJ_T, u0)
    # chief ray from the object point (height -HOBJ, library convention)
    # through the centre of the stop (surface 3): combine two rays
    r1 = trace(surfs, -HOBJ, 0.0)            # slope 0 at first surface
    r2 = trace(surfs, OBJ_T * 1.0, 1.0)      # from the axial point, slope 1
    s = -r1[2][0] / r2[2][0]
    chief = trace(surfs, -HOBJ + s * OBJ_T, s)
    H = 1.0 * (marg[0][1] * chief[0][0] - chief[0][1] * marg[0][0])
    S = np.zeros(5)
    for (y, u, u2, c, n1, n2), (yb, ub, ub2, _, _, _) in zip(marg, chief):
        A, Ab = n1 * (u + y * c), n1 * (ub + yb * c)
        d_un, d_1n = u2 / n2 - u / n1, 1 / n2 - 1 / n1
        d_1n2 = 1 / n2 ** 2 - 1 / n1 ** 2
        S += [-A * A * y * d_un, -A * Ab * y * d_un, -Ab * Ab * y * d_un,
              -H * H * c * d_1n,
              -Ab * (Ab * Ab * y * d_1n2 + c * yb * (2 * H - A * yb) * d_1n)]
    return -S, s       # library sign; object-space chief slope


fail = False
for label, d in [('control: stop 1 mm behind the focal point', 101.0),
                 ('telecentric: stop at the rear focal point', 100.0)]:
    exp, s = reference(d)
    o = build(d)
    got = o.aberrations.seidels()
    ua = o.paraxial.marginal_ray()[1].ravel()
    ok = np.all(np.isfinite(got)) and np.allclose(got, exp, rtol=1e-7)
    print('%s (object-space chief slope %.3g)' % (label, s))
    print('   expected marginal slope in object space %.8f, library %s'
          % (np.tan(np.arcsin(NA)), ua[0]))
    print('   expected S', exp)
    print('   library  S', got, '' if ok else '<-- VIOLATION')
    fail |= not ok
sys.exit(1 if fail else 0)

"""C19 defect 3: a lens whose last surface is an ImageSurface serialises but
cannot be reconstructed (dict or JSON)."""
import os
import sys
import tempfile
import numpy as np
from optiland.optic import Optic
from optiland.materials import IdealMaterial
from optiland.geometries import Plane
from optiland.coordinate_system import CoordinateSystem
from optiland.physical_apertures import RadialAperture
from optiland.surfaces import ImageSurface
from optiland.fileio import save_optiland_file, load_optiland_file

N, R1, R2, T, BFD = 1.5, 50.0, -50.0, 5.0, 45.0


def build():
    lens = Optic()
    lens.add_surface(index=0, thickness=np.inf)
    lens.add_surface(index=1, radius=R1, thickness=T, is_stop=True,
                     material=IdealMaterial(N))
    lens.add_surface(index=2, radius=R2, thickness=BFD)
    image = ImageSurface(geometry=Plane(CoordinateSystem(z=T + BFD)),
                         material_pre=IdealMaterial(1.0),
                         aperture=RadialAperture(r_max=20.0))
    lens.add_surface(new_surface=image, index=3)
    lens.set_aperture('EPD', 10)
    lens.set_field_type('angle')
    lens.add_field(0)
    lens.add_field(3)
    lens.add_wavelength(0.55, is_primary=True)
    return lens


lens = build()

# independent paraxial check (thick-lens formula) that the original is sane
phi = (N - 1) * (1 / R1 - 1 / R2 + (N - 1) * T / (N * R1 * R2))
print(f'focal length, lensmaker formula: {1 / phi:.9f}')
print(f'focal length, original lens    : {lens.paraxial.f2():.9f}')
assert abs(lens.paraxial.f2() - 1 / phi) < 1e-9

r = lens.trace(0.0, 1.0, 0.55, num_rays=5, distribution='line_y')
ref = np.array([r.x, r.y, r.z, r.L, r.M, r.N, r.opd, r.i])

failures = []
d = lens.to_dict()
print('type tag of last surface in dict:',
      d['surface_group']['surfaces'][-1]['type'])
try:
    clone = Optic.from_dict(d)
    r = clone.trace(0.0, 1.0, 0.55, num_rays=5, distribution='line_y')
    dev = np.max(np.abs(np.array([r.x, r.y, r.z, r.L, r.M, r.N, r.opd, r.i])
                        - ref))
    print('dict round trip: max ray deviation', dev,
          ' f2 =', clone.paraxial.f2())
    if dev > 1e-12 or not isinstance(clone.image_surface, ImageSurface):
        failures.append('dict round trip changed the lens')
except Exception as e:
    failures.append(f'Optic.from_dict(lens.to_dict()) raised '
                    f'{type(e).__name__}: {e}')

fn = os.path.join(tempfile.mkdtemp(), 'lens.json')
try:
    save_optiland_file(lens, fn)
    print('saved to', fn)
    load_optiland_file(fn)
except Exception as e:
    failures.append(f'load_optiland_file raised {type(e).__name__}: {e}')

if failures:
    print(f'\nEXPECTED: reloaded lens with f2 = {1 / phi:.9f}, identical rays '
          'and an ImageSurface as last surface')
    print('OBSERVED:')
    for f in failures:
        print('  -', f)
    sys.exit(1)
print('OK')

"""C15 defect 5: a seeded DistributionSampler does not make a Monte-Carlo run
reproducible.

The seed is pushed into numpy's GLOBAL generator once, at construction time
(np.random.seed(seed)), and sample() draws from the global generator.  The
sampler owns no random state, therefore
  (a) two identical tolerancing set-ups with identically seeded samplers give
      different results as soon as both are constructed before the first one
      is run (or anything else touches np.random in between);
  (b) the recorded perturbation values are not the seed's sequence;
  (c) with several seeded samplers only the LAST seed matters: changing the
      seed of the first sampler changes nothing.
"""
import warnings
import numpy as np
from optiland.samples.objectives import CookeTriplet
from optiland.tolerancing.core import Tolerancing
from optiland.tolerancing.monte_carlo import MonteCarlo
from optiland.tolerancing.perturbation import DistributionSampler

warnings.filterwarnings('ignore')
R1 = 22.01359
N = 4


def build(seed_radius, seed_tilt=None):
    lens = CookeTriplet()
    tol = Tolerancing(lens)
    tol.add_operand('f2', {'optic': lens})
    tol.add_operand('rms_spot_size', dict(optic=lens, surface_number=-1, Hx=0,
                                          Hy=1, num_rays=5, wavelength=0.55,
                                          distribution='hexapolar'))
    tol.add_perturbation('radius',
                         DistributionSampler('normal', seed=seed_radius,
                                             loc=R1, scale=0.1),
                         surface_number=1)
    if seed_tilt is not None:
        tol.add_perturbation('tilt',
                             DistributionSampler('normal', seed=seed_tilt,
                                                 loc=0.0, scale=1e-3),
                             surface_number=3, axis='x')
    return MonteCarlo(tol)


failures = []

# (a) two identical, identically seeded set-ups, both built first, then run
mc_a = build(seed_radius=42)
mc_b = build(seed_radius=42)
mc_a.run(N)
mc_b.run(N)
A = mc_a.get_results().to_numpy(float)
B = mc_b.get_results().to_numpy(float)
print('run A (seed 42):\n', mc_a.get_results().to_string())
print('run B (seed 42):\n', mc_b.get_results().to_string())
dev = np.abs(A - B).max()
print('(a) max |A - B| = %.4g   (expected 0: same lens, same seed)' % dev)
if dev > 1e-12:
    failures.append('(a) identically seeded identical runs differ by %.4g'
                    % dev)

# (b) recorded perturbation values vs. the sequence of the seed
expected = np.random.RandomState(42).normal(loc=R1, scale=0.1, size=N)
print('(b) recorded radii run B :', B[:, 0])
print('    seed-42 sequence      :', expected)
if not np.allclose(B[:, 0], expected, rtol=0, atol=1e-12):
    failures.append('(b) run B does not use the seed-42 sequence')

# (c) first sampler's seed is irrelevant when a second seeded sampler follows
mc_c = build(seed_radius=1, seed_tilt=7)
mc_c.run(N)
mc_d = build(seed_radius=999, seed_tilt=7)
mc_d.run(N)
C = mc_c.get_results().to_numpy(float)
D = mc_d.get_results().to_numpy(float)
print('(c) radii with radius-seed 1   :', C[:, 0])
print('    radii with radius-seed 999 :', D[:, 0])
exp1 = np.random.RandomState(1).normal(loc=R1, scale=0.1, size=N)
print('    seed-1 sequence            :', exp1)
if np.array_equal(C[:, 0], D[:, 0]):
    failures.append('(c) radius samples identical for radius seeds 1 and 999 '
                    '(seed of the first sampler is ignored)')

print()
for f in failures:
    print('FAIL', f)
assert not failures, 'C15 violated: ' + '; '.join(failures)
print('OK')

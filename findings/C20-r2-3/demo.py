"""C20 / 3 - a diverging lens loaded from a .zmx file reports a POSITIVE focal
length; the principal / nodal planes derived from it are off by 2|f'|."""
import io
import os
import sys
import tempfile
import contextlib
import numpy as np
from optiland.fileio import load_zemax_file

C1, T, C2, D = -0.02, 5.0, 0.01, 47.0      # biconcave N-BK7 lens, image 47 mm behind
ZMX = f"""VERS 171115
MODE SEQ
NAME negative singlet
UNIT MM X W X CM MR CPMM
ENPD 10.0
GCAT SCHOTT
FTYP 0 0 2 1 0 0 0 0
XFLN 0 0 0 0 0 0 0 0 0 0 0 0
YFLN 0 5 0 0 0 0 0 0 0 0 0 0
WAVM 1 0.5875618 1
PWAV 1
SURF 0
  TYPE STANDARD
  CURV 0.0
  DISZ INFINITY
SURF 1
  STOP
  TYPE STANDARD
  CURV {C1}
  DISZ {T}
  GLAS N-BK7 0 0 1.5168 64.17 0 0 0 0 0 0
SURF 2
  TYPE STANDARD
  CURV {C2}
  DISZ {D}
SURF 3
  TYPE STANDARD
  CURV 0.0
  DISZ 0
"""

fd, path = tempfile.mkstemp(suffix='.zmx')
os.close(fd)
with open(path, 'w', encoding='utf-8') as f:
    f.write(ZMX)
with contextlib.redirect_stdout(io.StringIO()):
    lens = load_zemax_file(path)
os.remove(path)

# ---- independent reference: y-nu trace of a ray parallel to the axis -------
n = float(np.ravel(lens.surface_group.surfaces[1].material_post.n(0.5875618))[0])
assert abs(n - 1.5168) < 1e-4                 # the written glass
y, u = 1.0, 0.0
u = (1.0 * u - y * C1 * (n - 1.0)) / n        # refraction at surface 1
y2 = y + u * T
u2 = (n * u - y2 * C2 * (1.0 - n)) / 1.0      # refraction at surface 2
f_ref = -1.0 / u2                             # f' = -y1 / u'
F2_ref = -y2 / u2 - D                         # back focal point, from the image surface
P2_ref = F2_ref - f_ref                       # back principal plane, from the image surface
# front side of a lens in air: f = -f', N1 = P1
u = (1.0 * 0.0 - 1.0 * (-C2) * (n - 1.0)) / n # reversed lens: first surface is -C2
yb = 1.0 + u * T
ub = (n * u - yb * (-C1) * (1.0 - n)) / 1.0
F1_ref = yb / ub                              # front focal point from surface 1 (z=0)
P1_ref = F1_ref + f_ref                       # P1 = F1 - f  with  f = -f'
N1_ref = P1_ref                               # same medium on both sides

P = lens.paraxial
rows = [('f2 (EFL)', P.f2(), f_ref),
        ('F2', P.F2(), F2_ref),
        ('P2', P.P2(), P2_ref),
        ('P1', P.P1(), P1_ref),
        ('N1', P.N1(), N1_ref),
        ('N2', P.N2(), P2_ref)]
failed = False
for name, got, ref in rows:
    ok = abs(got - ref) < 1e-6 * max(1.0, abs(ref))
    print(f'{name:9s} library = {got: .6f}   from written numbers = {ref: .6f}'
          f'   {"ok" if ok else "VIOLATED"}')
    failed |= not ok
sys.exit(1 if failed else 0)

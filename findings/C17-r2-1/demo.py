"""C17 / 1 - Optic.trace_generic ignores polarization: Fresnel losses are not
applied, so the unpolarized / polarized intensity is 1.0 instead of the
Fresnel transmittance.

Reference: the chief ray of the axial field meets both faces of a singlet in
air at normal incidence, where for every polarization state
    T = (1 - ((n-1)/(n+1))^2)^2 = (4n/(n+1)^2)^2 .
"""
import sys
import warnings
import numpy as np
from optiland.optic import Optic
from optiland.materials import IdealMaterial
from optiland.rays import create_polarization, PolarizationState

warnings.filterwarnings('ignore')

n = 1.5
lens = Optic()
lens.add_surface(index=0, thickness=np.inf)
lens.add_surface(index=1, thickness=5, radius=50, is_stop=True,
                 material=IdealMaterial(n=n), coating='fresnel')
lens.add_surface(index=2, thickness=80, radius=-50, coating='fresnel')
lens.add_surface(index=3)
lens.set_aperture('EPD', 20)
lens.set_field_type('angle')
lens.add_field(y=0)
lens.add_wavelength(0.55, is_primary=True)

expected = (1 - ((n - 1) / (n + 1))**2)**2      # 0.9216, state independent

states = {name: create_polarization(name)
          for name in ['unpolarized', 'H', 'V', 'L+45', 'L-45', 'RCP', 'LCP']}
states['arbitrary'] = PolarizationState(True, Ex=0.3, Ey=-0.8,
                                        phase_x=0.4, phase_y=2.0)

bad = False
for name, state in states.items():
    lens.set_polarization(state)
    rays = lens.trace_generic(Hx=0.0, Hy=0.0, Px=0.0, Py=0.0, wavelength=0.55)
    got = float(np.atleast_1d(rays.i)[0])
    rec = float(lens.surface_group.surfaces[-1].intensity[0])
    ok = abs(got - expected) < 1e-9 and abs(rec - expected) < 1e-9
    print(f'{name:12s} trace_generic intensity = {got:.6f}  '
          f'image record = {rec:.6f}  expected = {expected:.6f}  '
          f'{"ok" if ok else "VIOLATION"}')
    bad |= not ok

sys.exit(1 if bad else 0)

"""C11 defect 4: GeometricMTF puts blocked (zero intensity) rays in the spot.

"The geometric MTF is the modulus of the Fourier transform of the spot's line
spread": the spot consists of the rays that reach the image. Rays stopped by an
obscuration / physical aperture keep being propagated by optiland with
intensity 0 and must not contribute to the line spread function.
"""
import sys
import numpy as np
from optiland import optic, physical_apertures
from optiland.mtf import GeometricMTF


def obscured_paraboloid(defocus=0.1, hole_radius=6.0):
    """F/5 paraboloid, 20 mm aperture, mirror with a central hole."""
    lens = optic.Optic()
    lens.add_surface(index=0, thickness=np.inf)
    hole = physical_apertures.RadialAperture(r_max=np.inf, r_min=hole_radius)
    lens.add_surface(index=1, radius=-200, conic=-1, thickness=-100 + defocus,
                     material='mirror', is_stop=True, aperture=hole)
    lens.add_surface(index=2)
    lens.set_aperture('EPD', 20)
    lens.set_field_type('angle')
    lens.add_field(y=0)
    lens.add_wavelength(0.55, is_primary=True)
    return lens


lens = obscured_paraboloid()
num_rays = 100
geo = GeometricMTF(lens, fields=[(0, 0)], num_rays=num_rays, num_points=128)

# independent: own trace, own Fourier sum over the rays that arrive
lens.trace(0, 0, 0.55, num_rays, 'uniform')
y = lens.surface_group.y[-1, :].copy()
inten = lens.surface_group.intensity[-1, :].copy()
arrived = inten > 0
print(f'rays traced: {y.size}, blocked by the obscuration: {(~arrived).sum()}')
print(f'spot half-width of arriving rays: {np.abs(y[arrived]).max():.4f} mm '
      f'(min |y| = {np.abs(y[arrived]).min():.4f} mm); blocked rays fill '
      f'|y| < {np.abs(y[~arrived]).max():.4f} mm')

nu = geo.freq
phi = np.arccos(np.clip(nu / geo.max_freq, 0, 1))
diff_limit = 2 / np.pi * (phi - np.cos(phi) * np.sin(phi))


def lsf_mtf(coords, weights):
    return np.array([abs(np.sum(weights * np.exp(2j * np.pi * v * coords)))
                     for v in nu]) / np.sum(weights)


expected = lsf_mtf(y, inten) * diff_limit            # intensity weighted
all_rays = lsf_mtf(y, np.ones_like(y)) * diff_limit  # what the library does
observed = geo.mtf[0][0]

err = np.max(np.abs(observed - expected))
k = np.argmax(np.abs(observed - expected))
print(f'max |GeometricMTF - FT of the arriving spot| = {err:.3f} at '
      f'{nu[k]:.1f} cycles/mm (library {observed[k]:.3f}, expected '
      f'{expected[k]:.3f})')
print(f'max |GeometricMTF - FT of ALL rays incl. blocked| = '
      f'{np.max(np.abs(observed - all_rays)):.3f}')
if err > 0.03:
    print('FAIL: blocked rays are part of the line spread function')
    sys.exit(1)
print('PASS')

"""C02 defect 1: catastrophic cancellation in StandardGeometry.distance for
conics with k*N^2 + 1 -> 0 (paraboloid, nearly axial rays).

A parabolic mirror (k = -1) is traced at very small field angles.  The recorded
intersection point must lie on z = r^2 / (2 R) (the exact sag of a paraboloid)
and must coincide with an independently computed intersection (numerically
stable root of the same quadratic).
"""
import sys
import warnings
import numpy as np
from optiland.optic import Optic

warnings.simplefilter('ignore')

R = -2000.0      # mm, f = 1000 mm Newtonian primary
EPD = 200.0
WL = 0.55


def build(field_deg):
    o = Optic()
    o.add_surface(index=0, radius=np.inf, thickness=np.inf)
    o.add_surface(index=1, radius=R, conic=-1.0, thickness=R / 2,
                  material='mirror', is_stop=True)
    o.add_surface(index=2)
    o.set_aperture('EPD', EPD)
    o.set_field_type('angle')
    o.add_field(y=0)
    o.add_field(y=field_deg)
    o.add_wavelength(WL, is_primary=True)
    return o


def stable_parabola_hit(p0, d):
    """Independent intersection of p0 + t d with z = (x^2+y^2)/(2R)."""
    x, y, z = p0.T
    L, M, N = d.T
    a = L**2 + M**2
    b = 2 * (x * L + y * M) - 2 * R * N
    c = x**2 + y**2 - 2 * R * z
    disc = np.sqrt(b**2 - 4 * a * c)
    q = -0.5 * (b + np.where(b >= 0, 1.0, -1.0) * disc)
    t = c / q            # the root that stays finite when a -> 0
    return p0 + t[:, None] * d, t


worst = 0.0
print(f'{"field [deg]":>12} {"max |z - sag| [mm]":>20} {"max |P_lib - P_indep| [mm]":>28}'
      f' {"max OPD err [waves]":>20}')
for fa in (1.0, 1e-1, 1e-2, 1e-3, 1e-4, 1e-5):
    o = build(fa)
    o.trace(0, 1, WL, num_rays=8, distribution='hexapolar')
    s0, s1 = o.surface_group.surfaces[0], o.surface_group.surfaces[1]
    P = np.stack([s1.x, s1.y, s1.z], 1)           # vertex of surface 1 is the origin
    sag = (P[:, 0]**2 + P[:, 1]**2) / (2 * R)
    on_surface = np.max(np.abs(P[:, 2] - sag))
    p0 = np.stack([s0.x, s0.y, s0.z], 1)
    d0 = np.stack([s0.L, s0.M, s0.N], 1)
    P_ref, t_ref = stable_parabola_hit(p0, d0)
    dp = np.max(np.linalg.norm(P - P_ref, axis=1))
    dopd = np.max(np.abs(s1.opd - t_ref)) / (WL * 1e-3)
    print(f'{fa:12.0e} {on_surface:20.3e} {dp:28.3e} {dopd:20.3e}')
    worst = max(worst, on_surface / abs(R))

print(f'\nworst relative departure from the prescribed paraboloid: {worst:.3e}'
      f' (expected < 1e-12, i.e. rounding level)')
if worst > 1e-9:
    print('FAIL: recorded intersection points do not lie on the prescribed surface')
    sys.exit(1)
print('PASS')

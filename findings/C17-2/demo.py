"""C17 demo 2: JonesLinearDiattenuator is not the rotation of the theta=0 element
(and at theta=0 it is not even diag(t_max, t_min))."""
import sys
import numpy as np
from optiland.jones import JonesLinearDiattenuator
from optiland.rays import RealRays

rays = RealRays(0.0, 0.0, 0.0, 0.0, 0.0, 1.0, 1.0, 0.55)


def rot(t):
    return np.array([[np.cos(t), -np.sin(t)], [np.sin(t), np.cos(t)]])


def lib(t_min, t_max, theta):
    return JonesLinearDiattenuator(t_min, t_max, theta) \
        .calculate_matrix(rays)[0][:2, :2]


worst = 0.0
for t_min, t_max, theta in [(0.0, 1.0, 0.0), (0.2, 1.0, 0.0), (0.2, 1.0, 0.5),
                            (0.3, 0.9, np.pi / 4), (0.5, 0.5, 1.0),
                            (0.0, 1.0, np.pi / 2)]:
    got = lib(t_min, t_max, theta)
    # own formula: R(theta) diag(t_max, t_min) R(-theta)
    exp = rot(theta) @ np.diag([t_max, t_min]) @ rot(-theta)
    # second path through the API: rotate the library's own theta=0 element
    exp_api = rot(theta) @ lib(t_min, t_max, 0.0) @ rot(-theta)
    d1 = np.abs(got - exp).max()
    d2 = np.abs(got - exp_api).max()
    worst = max(worst, d1, d2)
    print(f't_min={t_min} t_max={t_max} theta={theta:.4f}\n  library =\n{got.real}'
          f'\n  R diag(t_max,t_min) R^T =\n{exp}\n  max dev = {d1:.3e}; '
          f'dev from rotated theta=0 library element = {d2:.3e}')

# an ideal polarizer built as a diattenuator (t_min=0, t_max=1) must be idempotent
p = lib(0.0, 1.0, 0.0)
idem = np.abs(p @ p - p).max()
print(f'ideal polarizer (t_min=0,t_max=1,theta=0): |P.P - P| = {idem:.3e} (expected 0)')

if worst > 1e-9 or idem > 1e-9:
    print(f'FAIL: max deviation {worst:.3e}')
    sys.exit(1)
print('OK')

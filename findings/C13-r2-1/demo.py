"""C13 / 1 - SpotDiagram statistics of one wavelength depend on which other
wavelengths are passed in the same call (and raise IndexError for a subset).

Run: cd /tmp/hunt2/C13 && PYTHONPATH=/tmp/hunt2/C13 /venv/bin/python demo.py
"""
import sys
import warnings
import numpy as np
warnings.simplefilter('ignore')
import matplotlib
matplotlib.use('Agg')
from optiland.optic import Optic
from optiland.materials import AbbeMaterial
from optiland.analysis import SpotDiagram

# singlet with a remote front stop: plenty of lateral colour
lens = Optic()
lens.add_surface(index=0, thickness=np.inf)
lens.add_surface(index=1, thickness=20, is_stop=True)
lens.add_surface(index=2, thickness=6, radius=60, material=AbbeMaterial(1.62, 36))
lens.add_surface(index=3, thickness=55, radius=-60)
lens.add_surface(index=4)
lens.set_aperture('EPD', 8)
lens.set_field_type('angle')
lens.add_field(0)
lens.add_field(14)
lens.add_wavelength(0.4861)
lens.add_wavelength(0.5876, is_primary=True)   # primary has index 1
lens.add_wavelength(0.6563)
PRIMARY = 0.5876
FIELD = (0.0, 1.0)


def reference_rms(wavelength):
    """RMS radius of the spot of `wavelength` about the centroid of the
    primary-wavelength spot, from the traced ray coordinates (numpy only)."""
    r = lens.trace(*FIELD, PRIMARY, 6, 'hexapolar')
    cx, cy = np.mean(r.x), np.mean(r.y)
    r = lens.trace(*FIELD, wavelength, 6, 'hexapolar')
    return float(np.sqrt(np.mean((r.x - cx)**2 + (r.y - cy)**2)))


ref_primary = reference_rms(PRIMARY)
ref_red = reference_rms(0.6563)
bad = False

cases = {
    'all wavelengths':            (lens.wavelengths.get_wavelengths(), 1, 2),
    '[primary, red]':             ([PRIMARY, 0.6563], 0, 1),
    '[red, blue, primary]':       ([0.6563, 0.4861, PRIMARY], 2, 0),
    '[primary] only':             ([PRIMARY], 0, None),
}
print(f'reference RMS radius (field 2): primary {ref_primary:.6f} mm, '
      f'red {ref_red:.6f} mm')
for name, (wl, i_prim, i_red) in cases.items():
    try:
        spot = SpotDiagram(lens, fields=[FIELD], wavelengths=wl, num_rings=6)
        rms = spot.rms_spot_radius()[0]
    except Exception as exc:  # noqa
        print(f'{name:24s}: {type(exc).__name__}: {exc}   <-- exception')
        bad = True
        continue
    got_p = float(rms[i_prim])
    msg = f'{name:24s}: primary {got_p:.6f} (expected {ref_primary:.6f})'
    ok = abs(got_p - ref_primary) < 1e-9
    if i_red is not None:
        got_r = float(rms[i_red])
        msg += f', red {got_r:.6f} (expected {ref_red:.6f})'
        ok = ok and abs(got_r - ref_red) < 1e-9
    print(msg + ('' if ok else '   <-- differs'))
    bad = bad or not ok

if bad:
    print('VIOLATED: the spot statistics of a wavelength depend on the other '
          'wavelengths given in the same call')
    sys.exit(1)
print('property holds')
sys.exit(0)

"""C20 / 6 - FNUM / OBNA lines in their second flavour (FNUM v 1 = paraxial
working F/#, OBNA v 1 = object cone angle) are parsed by the reader but the
import then dies with 'Aperture type must be "EPD", "imageFNO", "objectNA"'."""
import io
import os
import sys
import tempfile
import contextlib
import numpy as np
from optiland.fileio import load_zemax_file

C1, T, C2 = 0.02, 5.0, -0.02
N = 1.5168


def zmx(ap_line, obj_t, img_t):
    return f"""VERS 171115
MODE SEQ
NAME singlet
UNIT MM X W X CM MR CPMM
{ap_line}
GCAT SCHOTT
FTYP 0 0 1 1 0 0 0 0
XFLN 0 0 0 0 0 0 0 0 0 0 0 0
YFLN 0 0 0 0 0 0 0 0 0 0 0 0
WAVM 1 0.5875618 1
PWAV 1
SURF 0
  TYPE STANDARD
  CURV 0.0
  DISZ {obj_t}
SURF 1
  STOP
  TYPE STANDARD
  CURV {C1}
  DISZ {T}
  GLAS N-BK7 0 0 1.5168 64.17 0 0 0 0 0 0
SURF 2
  TYPE STANDARD
  CURV {C2}
  DISZ {img_t}
SURF 3
  TYPE STANDARD
  CURV 0.0
  DISZ 0
"""


def load(text, enc):
    fd, path = tempfile.mkstemp(suffix='.zmx')
    os.close(fd)
    with open(path, 'w', encoding=enc) as f:
        f.write(text)
    try:
        with contextlib.redirect_stdout(io.StringIO()):
            return load_zemax_file(path)
    finally:
        os.remove(path)


# thick-lens focal length from the written numbers
p1 = (N - 1) * C1
p2 = (1 - N) * C2
F = 1.0 / (p1 + p2 - p1 * p2 * T / N)

failed = False

# (a) paraxial working F/# 4, object at infinity: working F/# == f/EPD there,
#     so the entrance pupil diameter must be f/4
try:
    lens = load(zmx('FNUM 4.0 1', 'INFINITY', 47.0), 'utf-8')
    epd = float(lens.paraxial.EPD())
    ok = abs(epd - F / 4.0) < 1e-3 * F / 4.0   # glass data vs 1.5168: <1e-4
    print(f'FNUM 4 1 : EPD library = {epd:.5f}   expected f/4 = {F/4.0:.5f}'
          f'   {"ok" if ok else "VIOLATED"}')
    failed |= not ok
except Exception as e:
    print(f'FNUM 4 1 : import raised {e!r}   expected a lens with '
          f'EPD = f/4 = {F/4.0:.5f}   VIOLATED')
    failed = True

# (b) object cone angle 5 deg, object 100 mm in front of the stop (surface 1):
#     NA = sin(5 deg), EPD = 2 * 100 * tan(5 deg)
try:
    lens = load(zmx('OBNA 5.0 1', 100.0, 95.0), 'utf-16')
    epd = float(lens.paraxial.EPD())
    ref = 2 * 100.0 * np.tan(np.radians(5.0))
    ok = abs(epd - ref) < 1e-6 * ref
    print(f'OBNA 5 1 : EPD library = {epd:.5f}   expected = {ref:.5f}'
          f'   {"ok" if ok else "VIOLATED"}')
    failed |= not ok
except Exception as e:
    ref = 2 * 100.0 * np.tan(np.radians(5.0))
    print(f'OBNA 5 1 : import raised {e!r}   expected a lens with '
          f'EPD = {ref:.5f}   VIOLATED')
    failed = True

# control: the first flavours load
lens = load(zmx('FNUM 4.0 0', 'INFINITY', 47.0), 'utf-8')
print(f'FNUM 4 0 : EPD library = {float(lens.paraxial.EPD()):.5f}   '
      f'expected f/4 = {F/4.0:.5f}')

sys.exit(1 if failed else 0)

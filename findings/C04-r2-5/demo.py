"""C04 / 5 - add_surface(index=k) into an existing lens (insertion): the
surface that follows keeps its old front medium (and the vertices are not
re-spaced), so the paraxial data match no prescription.

A singlet is turned into a cemented doublet by inserting a surface at index 2.
Check 1 (exit code): paraxial data must equal a y-nu trace of the prescription
the library itself reports afterwards (radii, positions, optic.n()).
Check 2 (exit code): vertex separations must be the thicknesses that were
given (5 in front of the inserted surface, 3 behind it).
"""
import sys
import numpy as np
from optiland.optic import Optic
from optiland.materials import IdealMaterial

o = Optic()
o.add_surface(index=0, thickness=np.inf)
o.add_surface(index=1, radius=50.0, thickness=5.0,
              material=IdealMaterial(1.5), is_stop=True)
o.add_surface(index=2, radius=-50.0, thickness=95.0)
o.add_surface(index=3)
o.set_aperture('EPD', 10.0)
o.set_field_type('angle')
o.add_field(0.0)
o.add_field(5.0)
o.add_wavelength(0.55, is_primary=True)

# insert the cemented interface: flint element of thickness 3 behind it
o.add_surface(index=2, radius=-40.0, thickness=3.0,
              material=IdealMaterial(1.7))

R = o.surface_group.radii
z = o.surface_group.positions.ravel()
n = o.n()
print('radii     ', R)
print('positions ', z)
print('n (behind)', n)
last = len(R) - 2


def ynu(y, u):
    ys, us = [], []
    for j in range(1, last + 1):
        if j > 1:
            y = y + u * (z[j] - z[j - 1])
        u = (n[j - 1] * u - y * (n[j] - n[j - 1]) / R[j]) / n[j]
        ys.append(y)
        us.append(u)
    ys.append(y + u * (z[last + 1] - z[last]))
    return np.array(ys), np.array(us)


ya_ref, ua_ref = ynu(5.0, 0.0)
yb_ref, ub_ref = ynu(0.0, np.tan(np.deg2rad(5.0)))
f2_ref = -5.0 / ua_ref[-1]

P = o.paraxial
ya, ua = [np.ravel(a) for a in P.marginal_ray()]
yb, ub = [np.ravel(a) for a in P.chief_ray()]
fail = False


def cmp(name, got, exp):
    global fail
    ok = np.allclose(got, exp, rtol=1e-9, atol=1e-9)
    print(f'{name}:\n   library  = {np.asarray(got)}\n   expected = '
          f'{np.asarray(exp)}   {"ok" if ok else "VIOLATION"}')
    fail |= not ok


print('--- check 1: paraxial data vs the prescription the library reports')
cmp('f2', P.f2(), f2_ref)
cmp('marginal ray heights (surface 1..image)', ya[1:], ya_ref)
cmp('marginal ray slopes (after surface 1..last)', ua[1:last + 1], ua_ref)
cmp('chief ray heights (surface 1..image)', yb[1:], yb_ref)
H = np.array([n[j] * (yb[j] * ua[j] - ya[j] * ub[j])
              for j in range(1, last + 1)])
cmp('Lagrange invariant at surfaces 1..last', H, H[0] * np.ones(last))
print('--- check 2: vertex separations')
cmp('separations S1-S2, S2-S3, S3-image', np.diff(z[1:]), [5.0, 3.0, 95.0])

sys.exit(1 if fail else 0)

"""C11 / 3 - one ray that fails to reach the image makes the whole PSF NaN.

Rays that miss a surface / are totally reflected come back from the tracer
with intensity 0 and NaN coordinates and NaN optical path.  They are blocked
rays: their pupil sample must be 0.  FFTPSF multiplies amplitude 0 by
exp(i*2*pi*NaN) = NaN, and a single NaN sample makes every pixel of the FFT
NaN: PSF, Strehl ratio and FFTMTF are all NaN.

Reference: numpy DFT of the pupil built from the same OPD / intensity samples
with blocked samples set to 0.
"""
import sys
import warnings
import numpy as np
warnings.simplefilter('ignore')
from optiland import optic, materials
from optiland.psf import FFTPSF
from optiland.mtf import FFTMTF
from optiland.samples.microscopes import UVReflectingMicroscope


def fast_singlet():
    """fast biconvex singlet: the outer rays are totally reflected at the
    second surface, the inner part of the pupil gets through."""
    o = optic.Optic()
    glass = materials.IdealMaterial(n=1.5)
    o.add_surface(index=0, radius=np.inf, thickness=np.inf)
    o.add_surface(index=1, radius=14.0, thickness=9.0, material=glass,
                  is_stop=True)
    o.add_surface(index=2, radius=-14.0, thickness=10.0)
    o.add_surface(index=3)
    o.set_aperture(aperture_type='EPD', value=19.0)
    o.set_field_type(field_type='angle')
    o.add_field(y=0)
    o.add_wavelength(value=0.55, is_primary=True)
    o.update_paraxial()
    o.image_solve()
    return o


def reference(p, n, g):
    """|DFT|^2 of the sampled pupil, blocked samples = 0, peak of the
    unaberrated pupil = 100."""
    opd, inten = p.data[0][0]
    ok = (inten > 0) & np.isfinite(opd)
    x = np.linspace(-1, 1, n)
    X, Y = np.meshgrid(x, x)
    disc = (X**2 + Y**2) <= 1
    vals = np.zeros(opd.shape, dtype=complex)
    vals[ok] = (inten[ok] / inten[ok].mean()) * np.exp(2j * np.pi * opd[ok])
    P = np.zeros((n, n), dtype=complex)
    P[disc] = vals
    pad = (g - n) // 2
    Pp = np.pad(P, ((pad, g - n - pad), (pad, g - n - pad)))
    psf = np.abs(np.fft.fftshift(np.fft.fft2(Pp)))**2
    return psf / ok.sum()**2 * 100, ok.sum(), (~ok).sum()


bad = False
N, G = 32, 128
cases = [('fast singlet', fast_singlet(), 0.55),
         ('samples.UVReflectingMicroscope', UVReflectingMicroscope(), 0.27)]
for name, o, wl in cases:
    p = FFTPSF(o, (0, 0), wl, num_rays=N, grid_size=G)
    ref, nok, nblocked = reference(p, N, G)
    n_nan_opd = int(np.isnan(p.data[0][0][0]).sum())
    s_lib = p.strehl_ratio()
    s_ref = ref[G // 2, G // 2] / 100
    n_nan = int(np.isnan(p.psf).sum())
    mtf = FFTMTF(o, fields=[(0, 0)], wavelength=wl, num_rays=N, grid_size=G)
    mtf_nan = int(np.isnan(mtf.mtf[0][0]).sum())
    print(f'{name}: {nok} rays arrive, {nblocked} blocked '
          f'({n_nan_opd} of them with NaN path)')
    print(f'   PSF pixels that are NaN: {n_nan} of {p.psf.size} (expected 0)')
    print(f'   Strehl library {s_lib}   reference {s_ref:.5f}')
    print(f'   FFTMTF tangential samples that are NaN: {mtf_nan} of '
          f'{len(mtf.mtf[0][0])} (expected 0)')
    ok = (n_nan == 0 and np.all(p.psf >= 0) and 0 <= s_lib <= 1 + 1e-9
          and np.allclose(p.psf, ref, rtol=1e-6, atol=1e-6) and mtf_nan == 0)
    bad |= not ok
if bad:
    print('VIOLATED: PSF is not a finite non-negative transform of the pupil')
    sys.exit(1)
print('ok')
sys.exit(0)

"""C12 / 6 - YYbar ignores its `wavelength` argument: the diagram is always that of the primary wavelength.

Lens: optiland.samples CookeTriplet (SK16 / F2 / SK16, EPD 10, fields 0/14/20 deg, wavelengths
0.48 / 0.55 (primary) / 0.65).  `YYbar(lens, wavelength=0.48)` must plot the marginal-ray height against
the chief-ray height at every surface for 0.48 um.  Reference: own y-nu trace with the catalogue indices
of 0.48 um (`lens.n(0.48)` is used as index data only).
"""
import sys
import numpy as np
import matplotlib
matplotlib.use('Agg')
import matplotlib.pyplot as plt
from optiland.samples.objectives import CookeTriplet
from optiland.analysis import YYbar

lens = CookeTriplet()
RADII = [22.01359, -435.76044, -22.21328, 20.29192, 79.68360, -18.39533]
THICK = [3.25896, 6.00755, 0.99997, 4.75041, 2.95208, 42.20778]
STOP = 3                       # 0-based: 4th surface
EPD, MAXF = 10.0, 20.0


def ynu(y, u, idx, upto=None):
    """trace from the first vertex; returns heights on surfaces 1..N and on the image"""
    n = 1.0
    ys = []
    for j, (R, t) in enumerate(zip(RADII, THICK)):
        n2 = idx[j + 1]
        ys.append(y)
        u = (n * u - y * (n2 - n) / R) / n2
        n = n2
        y = y + u * t
        if upto is not None and j == upto:
            return ys
    ys.append(y)
    return np.array(ys)


def reference(w):
    idx = np.asarray(lens.n(w), float).ravel()          # index after each surface (0 = object space)
    ya = ynu(EPD / 2, 0.0, idx)                         # marginal ray
    # chief ray: slope tan(max field) in object space, through the centre of the stop at wavelength w
    a = ynu(1.0, 0.0, idx, upto=STOP)[STOP]
    b = ynu(0.0, 1.0, idx, upto=STOP)[STOP]
    u0 = np.tan(np.radians(MAXF))
    yb = ynu(-b * u0 / a, u0, idx)
    return ya, yb


def plotted(w):
    YYbar(lens, wavelength=w).view()
    ax = plt.gcf().axes[0]
    segs = [l for l in ax.lines if len(l.get_xdata()) == 2 and l.get_marker() == '.']
    yb = [segs[0].get_xdata()[0]] + [s.get_xdata()[1] for s in segs]
    ya = [segs[0].get_ydata()[0]] + [s.get_ydata()[1] for s in segs]
    plt.close('all')
    return np.array(ya, float), np.array(yb, float)


np.set_printoptions(precision=5, suppress=True, linewidth=150)
# the reference reproduces the diagram at the primary wavelength
ya_p, yb_p = plotted(0.55)
ra, rb = reference(0.55)
assert np.allclose(ya_p, ra, atol=1e-9) and np.allclose(np.abs(yb_p), np.abs(rb), atol=1e-9), \
    'reference does not reproduce the primary-wavelength diagram'
sign = np.sign(yb_p[-1] * rb[-1])     # sign convention of the plotted chief ray

bad = False
for w in (0.48, 0.65):
    ya, yb = plotted(w)
    ra, rb = reference(w)
    rb = sign * rb
    print(f'wavelength {w} um')
    print('   marginal y  plotted ', ya)
    print('               expected', ra)
    print('   chief    y  plotted ', yb)
    print('               expected', rb)
    print(f'   identical to the 0.55 um diagram: {np.array_equal(ya, ya_p) and np.array_equal(yb, yb_p)};'
          f'  max deviation from {w} um: {max(np.abs(ya - ra).max(), np.abs(yb - rb).max()):.5f} mm')
    if not (np.allclose(ya, ra, atol=1e-7) and np.allclose(yb, rb, atol=1e-7)):
        bad = True
if bad:
    print('VIOLATION: YYbar(wavelength=...) is evaluated at the primary wavelength')
    sys.exit(1)
print('OK')
sys.exit(0)

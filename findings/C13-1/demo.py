"""C13 demo 1: a lens rebuilt from to_dict() shares its aspheric coefficient
list with the original, so editing the copy (or the dictionary) silently
changes the prescription and the ray trace of the ORIGINAL lens.

Run:  PYTHONPATH=/tmp/hunt/C13 /venv/bin/python demo.py
"""
import json
import warnings
import numpy as np

warnings.filterwarnings('ignore')

from optiland.optic import Optic
from optiland.samples.simple import AsphericSinglet


def marginal_y(lens):
    """image height of the on-axis full-aperture ray (mm)"""
    w = lens.primary_wavelength
    return float(lens.trace_generic(0.0, 0.0, 0.0, 1.0, w).y[0])


def frozen(lens):
    """a snapshot of the prescription that cannot alias the lens"""
    return json.dumps(lens.to_dict(), sort_keys=True)


# independent reference: an identical lens that nobody touches
reference = AsphericSinglet()
y_ref = marginal_y(reference)

original = AsphericSinglet()
before = frozen(original)
y_before = marginal_y(original)
assert y_before == y_ref          # same lens, same result

# --- the only calls made: a save/load round trip, then an edit of the COPY
copy = Optic.from_dict(original.to_dict())
copy.set_asphere_coeff(0.0, surface_number=1, aspher_coeff_idx=0)

after = frozen(original)
y_after = marginal_y(original)

c_orig = original.surface_group.surfaces[1].geometry.c
c_copy = copy.surface_group.surfaces[1].geometry.c
print('coefficient list shared between original and copy :',
      c_orig is c_copy)
print('original A4 coefficient  expected -2.248851e-04, observed',
      c_orig[0])
print('original on-axis marginal ray height at the image')
print('   expected (untouched twin lens) : %.15f mm' % y_ref)
print('   observed after editing the copy: %.15f mm' % y_after)
print('   deviation                      : %.3e mm' % (y_after - y_ref))
print('original.to_dict() unchanged      :', before == after)

# second path: merely editing the dictionary returned by to_dict()
third = AsphericSinglet()
d = third.to_dict()
d['surface_group']['surfaces'][1]['geometry']['coefficients'][1] = 0.0
print('editing the dict returned by to_dict() changed the lens:',
      third.surface_group.surfaces[1].geometry.c[1] == 0.0)

assert before == after, \
    'prescription of the original lens was changed by editing a copy of it'
assert y_after == y_ref, \
    'ray trace of the original lens changed (%.3e mm)' % (y_after - y_ref)

"""C10 / 6 - Wavefront / ZernikeOPD of an image-space telecentric lens (exit pupil
at infinity) returns numerical garbage of ~1e5..1e6 waves.

Lens: plano-convex singlet, R = 51.68 mm, n = 1.5168 (f = R/(n-1) = 100 mm,
front principal plane at the curved vertex), aperture stop exactly 100 mm in
front of it -> chief rays leave parallel to the axis, paraxial exit pupil at
(-)infinity (the library gets XPL = -3.6e17 mm from rounding).

Independent reference: exact ray trace written here; reference sphere centred
on the chief-ray image point with the radius R_ref -> infinity, evaluated with
the cancellation-free form  t - R_ref = -u.d + (u.d^2 - |d|^2)/(sqrt(..)+R_ref)
(d = ray point - centre, u = backward ray direction).  As a cross-check the
same reference with a large finite radius (1e6 mm) is printed, and the library
itself for a stop displaced by 0.01 mm (XPL = -1e6 mm).
"""
import sys
import warnings
import numpy as np
from optiland.optic import Optic
from optiland.materials import IdealMaterial
from optiland.wavefront import ZernikeOPD

warnings.filterwarnings('ignore')
N_GLASS, R1, T_LENS, T_IMG, D_STOP = 1.5168, 51.68, 5.0, 96.7, 100.0
EPD, FIELD_DEG, WL = 10.0, 3.0, 0.55


def ref_opd(fy_deg, px, py, r_ref):
    z1 = D_STOP                      # curved vertex; stop (= entrance pupil) z=0
    z2 = D_STOP + T_LENS             # plane rear surface
    z_img = z2 + T_IMG
    d0 = np.array([0.0, np.tan(np.radians(fy_deg)), 1.0])
    d0 /= np.linalg.norm(d0)
    px = np.concatenate([[0.0], px])
    py = np.concatenate([[0.0], py])
    E = np.column_stack([px * EPD / 2, py * EPD / 2, np.zeros_like(px)])
    ref = -50.0 * d0
    P = E - ((E - ref) @ d0)[:, None] * d0      # on one plane wavefront
    d = np.tile(d0, (len(P), 1))
    opl = np.zeros(len(P))
    # spherical front surface
    C = np.array([0.0, 0.0, z1 + R1])
    oc = P - C
    b = np.sum(oc * d, axis=1)
    c = np.sum(oc * oc, axis=1) - R1**2
    t = -b - np.sqrt(b * b - c)
    Q = P + t[:, None] * d
    opl += t
    nrm = (Q - C) / R1
    cosi = np.sum(d * nrm, axis=1)
    nrm = nrm * np.sign(cosi)[:, None]
    cosi = np.abs(cosi)
    mu = 1.0 / N_GLASS
    d = mu * d + (np.sqrt(1 - mu**2 * (1 - cosi**2)) - mu * cosi)[:, None] * nrm
    P = Q
    # plane rear surface
    t = (z2 - P[:, 2]) / d[:, 2]
    P = P + t[:, None] * d
    opl += N_GLASS * t
    s = N_GLASS * d[:, :2]                       # Snell at a plane z = const
    d = np.column_stack([s, np.sqrt(1 - np.sum(s * s, axis=1))])
    t = (z_img - P[:, 2]) / d[:, 2]
    Q = P + t[:, None] * d
    opl += t
    delta = Q - Q[0]
    ub = np.sum(-d * delta, axis=1)
    q = ub**2 - np.sum(delta * delta, axis=1)
    if np.isinf(r_ref):
        t_minus_r = -ub
    else:
        t_minus_r = -ub + q / (np.sqrt(q + r_ref**2) + r_ref)
    total = opl - t_minus_r
    return (total[0] - total[1:]) / (WL * 1e-3)


def make_lens(d_stop):
    o = Optic()
    o.add_surface(index=0, radius=np.inf, thickness=np.inf)
    o.add_surface(index=1, radius=np.inf, thickness=d_stop, is_stop=True)
    o.add_surface(index=2, radius=R1, thickness=T_LENS,
                  material=IdealMaterial(N_GLASS))
    o.add_surface(index=3, radius=np.inf, thickness=T_IMG)
    o.add_surface(index=4)
    o.set_aperture('EPD', EPD)
    o.set_field_type('angle')
    o.add_field(y=0)
    o.add_field(y=FIELD_DEG)
    o.add_wavelength(WL, is_primary=True)
    return o


ok = True
for field in [(0, 0), (0, 1)]:
    lens = make_lens(D_STOP)
    z = ZernikeOPD(lens, field, WL, num_rings=6, zernike_type='fringe',
                   num_terms=37)
    model = z.zernike.poly(z.radius, z.phi)
    ref_inf = ref_opd(FIELD_DEG * field[1], z.x, z.y, np.inf)
    ref_1e6 = ref_opd(FIELD_DEG * field[1], z.x, z.y, 1e6)
    near = ZernikeOPD(make_lens(D_STOP - 0.01), field, WL, num_rings=6,
                      zernike_type='fringe', num_terms=37)
    err = np.max(np.abs(model - ref_inf))
    print(f'field {field}: paraxial XPL = {float(np.ravel(lens.paraxial.XPL())[0]):.4g} mm')
    print(f'  reference OPD, R_ref = inf : PV = {np.ptp(ref_inf):.4f} waves')
    print(f'  reference OPD, R_ref = 1e6 : PV = {np.ptp(ref_1e6):.4f} waves')
    print(f'  library, stop moved 0.01 mm: PV = {np.ptp(near.z):.4f} waves, '
          f'Z4 = {near.coeffs[3]:+.4f}, Z9 = {near.coeffs[8]:+.4f}')
    print(f'  library, telecentric       : PV = {np.ptp(z.z):.4f} waves, '
          f'Z4 = {z.coeffs[3]:+.4f}, Z9 = {z.coeffs[8]:+.4f}, '
          f'max|decomposition - reference| = {err:.3e} waves')
    if not err < 0.05:
        ok = False
        print(f'  FAIL: deviation {err:.3e} waves (expected < 0.05)')
print('PASS' if ok else 'VIOLATED')
sys.exit(0 if ok else 1)

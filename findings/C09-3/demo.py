import sys
import warnings
import numpy as np

warnings.filterwarnings('ignore')

from optiland.optic import Optic
from optiland.materials import IdealMaterial
from optiland.wavefront import Wavefront, OPD
from optiland.distribution import create_distribution

TOL = 1e-6   # waves; the reference reproduces the library to ~1e-9 on
             # configurations that are not affected by the defect


# ---------------------------------------------------------------------------
# Independent reference.  Only the GEOMETRY of the library's real ray trace is
# used (intersection points and direction cosines recorded on each surface).
# Optical paths, the object-space wavefront, the reference sphere and the leg
# from the image surface to the sphere are recomputed from first principles:
#   path = n_obj * (P0 . d0)                      (plane wavefront through the
#                                                  origin, infinite object only)
#        + sum_k n_k * (P_k - P_{k-1}) . d_{k-1}  (signed segment lengths)
#        + n_img * s                              (signed leg image -> sphere)
#   OPD  = (path_chief - path_ray) / wavelength
# ---------------------------------------------------------------------------
def _geometry(optic):
    surfs = optic.surface_group.surfaces
    P = np.stack([np.array([s.x, s.y, s.z]) for s in surfs])
    D = np.stack([np.array([s.L, s.M, s.N]) for s in surfs])
    return P, D


def _path_to_image(optic, wavelength):
    P, D = _geometry(optic)
    surfs = optic.surface_group.surfaces
    path = np.zeros(P.shape[2])
    if optic.object_surface.is_infinite:
        n_obj = surfs[0].material_post.n(wavelength)
        path += n_obj * np.sum(P[0] * D[0], axis=0)
    for k in range(1, len(surfs)):
        n = surfs[k].material_pre.n(wavelength)
        path += n * np.sum((P[k] - P[k - 1]) * D[k - 1], axis=0)
    # direction in which the rays ARRIVE at the image surface (= direction
    # after the last optical surface); whatever is declared behind the image
    # surface is irrelevant
    return path, P[-1], D[-2]


def _leg_to_sphere(optic, wavelength, Pimg, Dimg, C, R, E):
    n_img = optic.image_surface.material_pre.n(wavelength)
    rel = Pimg - C[:, None]
    b = np.sum(rel * Dimg, axis=0)
    c = np.sum(rel * rel, axis=0) - R**2
    root = np.sqrt(b**2 - c)
    s1, s2 = -b - root, -b + root
    d1 = np.linalg.norm(Pimg + s1 * Dimg - E[:, None], axis=0)
    d2 = np.linalg.norm(Pimg + s2 * Dimg - E[:, None], axis=0)
    s = np.where(d1 <= d2, s1, s2)      # the cap that contains the exit pupil
    return n_img * s


def reference_exit_pupil_z(optic):
    """z of the paraxial exit pupil: own y-u trace (primary wavelength) from
    the centre of the stop through the surfaces behind it; the image surface
    itself has no optical effect."""
    surfs = optic.surface_group.surfaces
    w = optic.primary_wavelength
    zpos = [float(np.ravel(p)[0]) for p in optic.surface_group.positions]
    k0 = optic.surface_group.stop_index
    y, u, z = 0.0, 0.1, zpos[k0]
    for k in range(k0 + 1, len(surfs) - 1):
        y += u * (zpos[k] - z)
        z = zpos[k]
        radius = surfs[k].geometry.radius
        if surfs[k].is_reflective:
            u = -u - 2 * y / radius
        else:
            n1 = surfs[k].material_pre.n(w)
            n2 = surfs[k].material_post.n(w)
            u = (n1 * u - y * (n2 - n1) / radius) / n2
    return z - y / u


def reference_opd(optic, field, wavelength, distribution):
    """OPD (waves) of exactly the rays the library traces for `distribution`"""
    Hx, Hy = field
    E = np.array([0.0, 0.0, reference_exit_pupil_z(optic)])

    optic.trace_generic(float(Hx), float(Hy), 0.0, 0.0, wavelength)
    pc, Pc, Dc = _path_to_image(optic, wavelength)
    C = Pc[:, 0].copy()
    R = np.linalg.norm(C - E)
    pc = pc + _leg_to_sphere(optic, wavelength, Pc, Dc, C, R, E)

    optic.trace(Hx, Hy, wavelength, None, distribution)
    pr, Pr, Dr = _path_to_image(optic, wavelength)
    pr = pr + _leg_to_sphere(optic, wavelength, Pr, Dr, C, R, E)
    return (pc[0] - pr) / (wavelength * 1e-3)


def compare(optic, label, num_rays=6, distribution='hexapolar'):
    """max |library - reference| over all fields / wavelengths (waves)"""
    wf = Wavefront(optic, num_rays=num_rays, distribution=distribution)
    worst = 0.0
    scale = 0.0
    for i, f in enumerate(wf.fields):
        for j, w in enumerate(wf.wavelengths):
            ref = reference_opd(optic, f, w, wf.distribution)
            lib = wf.data[i][j][0]
            dev = np.max(np.abs(lib - ref))
            print(f'  {label}: field Hy={f[1]:+.3f} wl={w:.4f}um  '
                  f'max|OPD_ref|={np.max(np.abs(ref)):10.4f}  '
                  f'max|OPD_lib|={np.max(np.abs(lib)):10.4f}  '
                  f'max|lib-ref|={dev:.3e} waves')
            worst = max(worst, dev)
            scale = max(scale, np.max(np.abs(ref)))
    return worst, scale


GLASS = IdealMaterial(n=1.5168)


def lens(field_angles):
    """rotationally symmetric singlet, object at infinity, angular y fields"""
    o = Optic()
    o.add_surface(index=0, thickness=np.inf)
    o.add_surface(index=1, thickness=5, radius=50, material=GLASS,
                  is_stop=True)
    o.add_surface(index=2, thickness=75, radius=-200)
    o.add_surface(index=3)
    o.set_aperture('EPD', 15)
    o.set_field_type('angle')
    for y in field_angles:
        o.add_field(y=y)
    o.add_wavelength(0.55, is_primary=True)
    o.image_solve()
    return o


print('C09 demo 3: y fields that are not topped by a positive maximum')
print('control - fields 0 / +5 / +10 deg (reference must reproduce library):')
pos = lens((0, 5, 10))
ctrl, _ = compare(pos, '0,+5,+10')
print('defect a - fields 0 / -5 / -10 deg (the mirror image of the control):')
neg = lens((0, -5, -10))
dev_a, scale_a = compare(neg, '0,-5,-10')
print('defect b - fields -10 / 0 / +5 deg:')
asym = lens((-10, 0, 5))
dev_b, scale_b = compare(asym, '-10,0,+5')

# second path through the API only: mirror symmetry.  The lens is
# rotationally symmetric, so OPD(field -10 deg, pupil Py) must equal
# OPD(field +10 deg, pupil -Py).  A y fan sampled symmetrically is simply
# reversed.
fan_p = Wavefront(pos, fields=[(0, 1)], wavelengths=[0.55], num_rays=11,
                  distribution='line_y').data[0][0][0]
fan_n = Wavefront(neg, fields=[(0, -1)], wavelengths=[0.55], num_rays=11,
                  distribution='line_y').data[0][0][0]
print('\ny fan at +10 deg (control lens)       :', np.round(fan_p, 3))
print('y fan at -10 deg (0/-5/-10 lens), reversed:',
      np.round(fan_n[::-1], 3))
dev_sym = np.max(np.abs(fan_p - fan_n[::-1]))
print(f'max difference {dev_sym:.3f} waves; expected 0 by symmetry')

from optiland.analysis import RmsWavefrontErrorVsField
rp = RmsWavefrontErrorVsField(pos, num_fields=3, num_rays=6)
rn = RmsWavefrontErrorVsField(neg, num_fields=3, num_rays=6)
print('RMS wavefront error vs field, control lens (Hy = 0, .5, 1)    :',
      np.round(rp._wavefront_error[:, 0], 3))
print('RMS wavefront error vs field, 0/-5/-10 lens (Hy = 0, .5, 1)   :',
      np.round(rn._wavefront_error[:, 0], 3), '(expected: identical)')

print(f'\ncontrol deviation {ctrl:.2e} waves; defect deviations {dev_a:.1f} '
      f'and {dev_b:.1f} waves on OPDs of up to {max(scale_a, scale_b):.1f} '
      f'waves')
assert ctrl < TOL, 'reference does not reproduce the library on the control'
assert dev_sym < TOL, 'OPD of the mirrored field is not the mirrored OPD'
assert dev_a < TOL and dev_b < TOL, (
    'tilt correction takes the field angle from max_y_field (largest signed '
    'y field) while the rays are launched with max_field (largest |field|)')

"""C01 defect 6: a marginal-ray-height solve does not put the marginal ray at
the requested height when the aperture is specified as image-space F/#
(the marginal ray itself depends on the spacing the solve changes); with the
Cooke triplet the solve even moves the surface in the WRONG direction, so
every further update() makes the error larger.

Independent model: own y-nu paraxial trace on the prescription read back from
the public observers, with EPD = f / FNO and f from an own parallel-ray trace.
"""
import numpy as np
from optiland.samples.objectives import CookeTriplet

FNO, IDX, H = 5.0, 5, 4.10


def ynu(z, R, n, y, u, upto):
    """trace (y,u) given in front of surface 1 up to surface `upto`;
    return height on that surface and slope after it"""
    for k in range(1, upto + 1):
        if k > 1:
            y = y + u * (z[k] - z[k - 1])
        u = (n[k - 1] * u - y * (n[k] - n[k - 1]) / R[k]) / n[k]
    return y, u


def marginal_height(lens, idx):
    z = lens.surface_group.positions.ravel()
    R = lens.surface_group.radii
    n = lens.n()
    last = len(z) - 2                       # last refracting surface
    _, u_out = ynu(z, R, n, 1.0, 0.0, last)
    f = -1.0 / u_out                        # effective focal length
    y, _ = ynu(z, R, n, f / FNO / 2, 0.0, idx)
    return y


lens = CookeTriplet()
lens.set_aperture('imageFNO', FNO)
t4_start = float(lens.surface_group.get_thickness(IDX - 1)[0])
print('start: thickness 4 = %.5f, marginal height on surface %d = %.6f '
      '(own trace) / %.6f (library)'
      % (t4_start, IDX, marginal_height(lens, IDX),
         lens.paraxial.marginal_ray()[0][IDX][0]))

# the request is feasible: find the spacing that realises it by bisection
probe = CookeTriplet()
probe.set_aperture('imageFNO', FNO)
lo, hi = t4_start, t4_start + 3.0
for _ in range(80):
    mid = 0.5 * (lo + hi)
    probe.set_thickness(mid, IDX - 1)
    if marginal_height(probe, IDX) > H:
        lo = mid
    else:
        hi = mid
print('own bisection: height %.2f is reached with thickness 4 = %.5f '
      '(height there %.9f)' % (H, mid, marginal_height(probe, IDX)))

lens.solves.add('marginal_ray_height', IDX, H)
errs = []
for it in range(4):
    lens.update()
    y_own = marginal_height(lens, IDX)
    y_lib = lens.paraxial.marginal_ray()[0][IDX][0]
    t4 = float(lens.surface_group.get_thickness(IDX - 1)[0])
    errs.append(y_own - H)
    print('after update() #%d: thickness 4 = %9.5f  height own %.6f  '
          'library %.6f  requested %.2f  error %+.3e'
          % (it + 1, t4, y_own, y_lib, H, y_own - H))

ok = abs(errs[0]) < 1e-9
if not ok:
    print('FAIL: after update() the marginal ray is %.4f mm away from the '
          'requested height (solution exists at thickness %.4f; the solve '
          'is at %.4f after 4 updates and diverges)'
          % (errs[0], mid, t4))
assert ok

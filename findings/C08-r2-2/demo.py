"""C08 / 2 - Seidel terms (and every paraxial quantity) raise ValueError when the
entrance pupil diameter or the object distance is a NumPy scalar that is not a
subclass of the Python float/int (np.float32, np.int64, np.int32 ...).

Reference: own y-nu trace + classical S_I = -sum A^2 y delta(u/n).
Run: cd /tmp/hunt2/C08 && PYTHONPATH=/tmp/hunt2/C08 /venv/bin/python demo.py
"""
import sys
import warnings
import numpy as np
from optiland.optic import Optic
from optiland.materials import IdealMaterial

warnings.filterwarnings('ignore')
R1, R2, T1, T2, NG = 50.0, -50.0, 5.0, 45.0, 1.5


def build(epd, obj_t):
    o = Optic()
    o.add_surface(index=0, radius=np.inf, thickness=obj_t)
    o.add_surface(index=1, radius=R1, thickness=T1,
                  material=IdealMaterial(NG, 0), is_stop=True)
    o.add_surface(index=2, radius=R2, thickness=T2)
    o.add_surface(index=3)
    o.set_aperture('EPD', epd)
    o.set_field_type('angle')
    o.add_field(y=0)
    o.add_field(y=5.0)
    o.add_wavelength(0.55, is_primary=True)
    return o


def S1_reference(epd, obj_t):
    """classical spherical-aberration sum, library sign (S_lib = -S_Welford);
    the stop is at surface 1, so the entrance pupil is at z = 0"""
    epd, obj_t = float(epd), float(obj_t)
    if np.isinf(obj_t):
        y, u = epd / 2, 0.0
    else:
        u = epd / (2 * obj_t)
        y = u * obj_t
    n = [1.0, NG, 1.0]
    c = [1 / R1, 1 / R2]
    t = [T1]
    S = 0.0
    for k in range(2):
        A = n[k] * (u + y * c[k])
        u2 = (n[k] * u - y * c[k] * (n[k + 1] - n[k])) / n[k + 1]
        S += -A * A * y * (u2 / n[k + 1] - u / n[k])
        if k == 0:
            y = y + u2 * t[0]
        u = u2
    return -S


cases = [('EPD=np.float32(10), object at infinity', np.float32(10), np.inf),
         ('EPD=10.0, object distance np.int64(200)', 10.0, np.int64(200)),
         ('EPD=10.0, object distance np.float32(200)', 10.0, np.float32(200)),
         ('EPD=10.0, object distance np.int32(200)', 10.0, np.int32(200))]
fail = False
for label, epd, obj_t in cases:
    exp = S1_reference(epd, obj_t)
    try:
        got = build(epd, obj_t).aberrations.seidels()[0]
        ok = abs(got - exp) <= 1e-9 * abs(exp)
        print('%-45s S_I library %.8f expected %.8f %s'
              % (label, got, exp, '' if ok else '<-- VIOLATION'))
        fail |= not ok
    except Exception as e:   # noqa
        fail = True
        print('%-45s expected S_I = %.8f, library raised %s: %s'
              % (label, exp, type(e).__name__, e))
# control: plain Python numbers work
print('control (python floats): S_I library %.8f expected %.8f'
      % (build(10.0, 200.0).aberrations.seidels()[0], S1_reference(10, 200)))
sys.exit(1 if fail else 0)

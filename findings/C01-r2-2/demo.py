"""C01 / 2 - conic pickup whose source surface is flat raises AttributeError"""
import sys
import warnings
import traceback
import numpy as np
warnings.simplefilter('ignore')
from optiland.optic import Optic
from optiland.materials import IdealMaterial

o = Optic()
o.add_surface(index=0, thickness=np.inf)
o.add_surface(index=1, thickness=5, radius=np.inf,
              material=IdealMaterial(1.5), is_stop=True)     # flat front
o.add_surface(index=2, thickness=50, radius=-30, conic=-0.5)
o.add_surface(index=3)
o.set_aperture('EPD', 10)
o.set_field_type('angle')
o.add_field(0)
o.add_wavelength(0.55, is_primary=True)

SCALE, OFFSET = 2.0, -1.0
src_conic = 0.0            # a flat standard surface given without conic
expected = SCALE * src_conic + OFFSET

# the library itself reports conic 0 for the flat surface and lets it be set
print('surface_group.conic before:', o.surface_group.conic)
try:
    o.pickups.add(1, 'conic', 2, scale=SCALE, offset=OFFSET)
    o.update()
except Exception:
    traceback.print_exc()
    print('VIOLATION: pickups.add(1, "conic", 2) raised; expected conic of '
          f'surface 2 = {SCALE} x {src_conic} + {OFFSET} = {expected}')
    sys.exit(1)

got = o.surface_group.surfaces[2].geometry.k
print('conic of surface 2 after update():', got, 'expected', expected)
sys.exit(0 if got == expected else 1)

"""C04 / 4 - SurfaceGroup.remove_surface() leaves the next surface refracting
out of the medium of the removed surface.

Cemented doublet; the cemented interface (surface 2) is removed, which leaves
a thick singlet of the first glass.  All paraxial data must be those of the
remaining prescription (curvatures, vertex positions, indices behind each
surface as reported by optic.n()).  Reference: independent y-nu trace.
"""
import sys
import numpy as np
from optiland.optic import Optic
from optiland.materials import IdealMaterial

o = Optic()
o.add_surface(index=0, thickness=np.inf)
o.add_surface(index=1, radius=60.0, thickness=6.0,
              material=IdealMaterial(1.5), is_stop=True)
o.add_surface(index=2, radius=-45.0, thickness=3.0,
              material=IdealMaterial(1.7))
o.add_surface(index=3, radius=-120.0, thickness=90.0)
o.add_surface(index=4)
o.set_aperture('EPD', 10.0)
o.set_field_type('angle')
o.add_field(0.0)
o.add_field(5.0)
o.add_wavelength(0.55, is_primary=True)

o.surface_group.remove_surface(2)

# prescription that is left, read back from the public accessors
R = o.surface_group.radii
z = o.surface_group.positions.ravel()
n = o.n()
print('radii     ', R)
print('positions ', z)
print('n (behind)', n)          # [1, 1.5, 1, 1]: a singlet of n = 1.5


def ynu(y, u):
    ys, us = [], []
    for j in (1, 2):
        if j > 1:
            y = y + u * (z[j] - z[j - 1])
        u = (n[j - 1] * u - y * (n[j] - n[j - 1]) / R[j]) / n[j]
        ys.append(y)
        us.append(u)
    ys.append(y + u * (z[3] - z[2]))
    return np.array(ys), np.array(us)


ya_ref, ua_ref = ynu(5.0, 0.0)
yb_ref, ub_ref = ynu(0.0, np.tan(np.deg2rad(5.0)))
f2_ref = -5.0 / ua_ref[-1]

P = o.paraxial
ya, ua = [np.ravel(a) for a in P.marginal_ray()]
yb, ub = [np.ravel(a) for a in P.chief_ray()]
fail = False


def cmp(name, got, exp):
    global fail
    ok = np.allclose(got, exp, rtol=1e-9, atol=1e-9)
    print(f'{name}:\n   library  = {np.asarray(got)}\n   expected = '
          f'{np.asarray(exp)}   {"ok" if ok else "VIOLATION"}')
    fail |= not ok


cmp('f2', P.f2(), f2_ref)
cmp('marginal ray heights (surfaces 1,2,image)', ya[1:], ya_ref)
cmp('marginal ray slopes (after surfaces 1,2)', ua[1:3], ua_ref)
cmp('chief ray heights (surfaces 1,2,image)', yb[1:], yb_ref)
H = np.array([n[j] * (yb[j] * ua[j] - ya[j] * ub[j]) for j in (1, 2)])
cmp('Lagrange invariant at surfaces 1,2', H, H[0] * np.ones(2))

sys.exit(1 if fail else 0)

"""C01 / 5 - add_surface(new_surface=...) without index does not append

Both Optic.add_surface and SurfaceGroup.add_surface document:
  "index (int, optional): The index at which to insert the new surface. If not
   provided, the surface will be appended to the end of the list."
"""
import sys
import warnings
import traceback
import numpy as np
warnings.simplefilter('ignore')
from optiland.optic import Optic
from optiland.materials import IdealMaterial
from optiland.coordinate_system import CoordinateSystem
from optiland.geometries import Plane, StandardGeometry
from optiland.surfaces.standard_surface import Surface

air, glass = IdealMaterial(1.0), IdealMaterial(1.5)
o = Optic()
o.add_surface(index=0, thickness=np.inf)
o.add_surface(index=1, thickness=5, radius=40, material=glass, is_stop=True)

# user-built surfaces, appended in order as documented
s2 = Surface(StandardGeometry(CoordinateSystem(z=5.0), -40.0, 0.0), glass, air)
s3 = Surface(Plane(CoordinateSystem(z=55.0)), air, air, is_stop=True)
try:
    o.add_surface(new_surface=s2)
    o.add_surface(new_surface=s3)
except Exception:
    traceback.print_exc()
    print('VIOLATION: add_surface(new_surface=...) without index raised; '
          'documented behaviour: the surface is appended')
    sys.exit(1)

pos = o.surface_group.positions.ravel()
stops = [k for k, s in enumerate(o.surface_group.surfaces) if s.is_stop]
print('positions', pos, 'expected [-inf 0 5 55]; stops', stops,
      'expected [3]')
ok = (o.surface_group.num_surfaces == 4
      and np.allclose(pos[1:], [0, 5, 55]) and stops == [3]
      and o.surface_group.surfaces[2] is s2)
sys.exit(0 if ok else 1)

"""C01 / 7 - one update() leaves pickups stale when their source is moved by a
solve (or by a pickup registered later)

All dependencies in both lenses point to EARLIER surfaces, so a single pass in
surface order satisfies everything; nothing here needs iteration.  Aperture is
EPD with an infinite object and the stop in front of the solved surface, so
the solve itself is exact in one step (the known "one linear step" item does
not interfere).
"""
import sys
import warnings
import numpy as np
warnings.simplefilter('ignore')
from optiland.optic import Optic
from optiland.materials import IdealMaterial

bad = False

# ---- A: thickness pickup whose source gap is set by a solve ---------------
o = Optic()
o.add_surface(index=0, thickness=np.inf)
o.add_surface(index=1, thickness=5, radius=60, material=IdealMaterial(1.5),
              is_stop=True)
o.add_surface(index=2, thickness=20, radius=-60)
o.add_surface(index=3, thickness=4, material=IdealMaterial(1.5))  # window
o.add_surface(index=4, thickness=20)
o.add_surface(index=5)
o.set_aperture('EPD', 10)
o.set_field_type('angle')
o.add_field(0)
o.add_wavelength(0.55, is_primary=True)
o.solves.add('marginal_ray_height', 3, 3.0)     # sets the gap behind surf 2
o.pickups.add(2, 'thickness', 4, scale=1, offset=0)   # gap 4 := gap 2
o.update()

o.set_radius(80.0, 1)          # an edit, e.g. one optimiser step
o.update()
t = [float(o.surface_group.get_thickness(k)[0]) for k in range(1, 5)]
print('A: gap behind surface 2 (source) =', t[1],
      ' gap behind surface 4 (target) =', t[3])
if abs(t[3] - t[1]) > 1e-9:
    bad = True
    print(f'   VIOLATION: target {t[3]:.6f} != 1 x source {t[1]:.6f} + 0 '
          'after update()')

# ---- B: two radius pickups registered against the surface order ----------
o = Optic()
o.add_surface(index=0, thickness=np.inf)
o.add_surface(index=1, thickness=5, radius=60, material=IdealMaterial(1.5),
              is_stop=True)
o.add_surface(index=2, thickness=5, radius=-60)
o.add_surface(index=3, thickness=5, radius=60, material=IdealMaterial(1.5))
o.add_surface(index=4, thickness=5, radius=-60)
o.add_surface(index=5, thickness=5, radius=60, material=IdealMaterial(1.5))
o.add_surface(index=6, thickness=40, radius=-60)
o.add_surface(index=7)
o.set_aperture('EPD', 10)
o.set_field_type('angle')
o.add_field(0)
o.add_wavelength(0.55, is_primary=True)
o.pickups.add(3, 'radius', 5, scale=1, offset=0)      # R5 := R3
o.pickups.add(1, 'radius', 3, scale=1, offset=0)      # R3 := R1
o.update()
o.set_radius(75.0, 1)
o.update()
R = o.surface_group.radii
print('B: R1 =', R[1], ' R3 =', R[3], ' R5 =', R[5])
if R[5] != R[3]:
    bad = True
    print(f'   VIOLATION: target R5 = {R[5]} != 1 x source R3 = {R[3]} + 0 '
          'after update()')

sys.exit(1 if bad else 0)

"""C12 / 4 - Distortion / GridDistortion collapse to -100 % as soon as the axial chief ray does not
land exactly on y = 0 (e.g. one element decentred by 10 um).

distortion = 100 * (h_real - h_parax) / h_parax, with h the chief-ray image height (measured from the
image point of the axial field) and h_parax its first-order (linear in tan(field)) part on the actual
image surface.  The library takes the ABSOLUTE y of the chief ray at Hy = 1e-10 divided by
tan(1e-10 * field) as the paraxial scale, which is only right when the axial chief ray hits y = 0.

Lens: Cooke triplet (fixed indices), object at infinity, fields 0/14/20 deg, EPD 10; the middle
element (surfaces 3 and 4) is decentred by dy = 0.01 mm.
Reference: independent numpy chief-ray trace with decentred spheres.
"""
import sys
import numpy as np
from optiland import optic
from optiland.materials import IdealMaterial
from optiland.analysis import Distortion, GridDistortion

PRESC = [(22.01359, 3.25896, 1.6204), (-435.76044, 6.00755, 1.0),
         (-22.21328, 0.99997, 1.6200), (20.29192, 4.75041, 1.0),
         (79.68360, 2.95208, 1.6204), (-18.39533, 42.20778, 1.0)]
STOP = 3
MAXF = 20.0
NPTS = 5
Z = np.concatenate([[0.0], np.cumsum([p[1] for p in PRESC])])


def entrance_pupil():
    def to_stop(y, u):
        n, z = 1.0, 0.0
        for j, (R, t, n2) in enumerate(PRESC[:STOP + 1]):
            y = y + u * (Z[j] - z)
            z = Z[j]
            u = (n * u - y * (n2 - n) / R) / n2
            n = n2
        return y
    return to_stop(0.0, 1.0) / to_stop(1.0, 0.0)


EPL = entrance_pupil()       # paraxial, of the centred lens (this is what the library aims at)


def chief_y(field_deg, dec):
    th = np.radians(field_deg)
    d = np.array([0.0, np.sin(th), np.cos(th)])
    p = np.array([0.0, 0.0, EPL]) - 60.0 * d
    n = 1.0
    for j, (R, t, n2) in enumerate(PRESC):
        v = np.array([0.0, dec[j], Z[j]])          # vertex
        c = 1.0 / R
        o = p - v
        b = 2 * c * o.dot(d) - 2 * d[2]
        cc = c * o.dot(o) - 2 * o[2]
        p = p + 2 * cc / (-b + np.sqrt(b * b - 4 * c * cc)) * d
        nrm = (p - (v + np.array([0.0, 0.0, R]))) / abs(R)
        cosi = nrm.dot(d)
        nrm, cosi = nrm * np.sign(cosi), abs(cosi)
        mu = n / n2
        d = mu * d + (np.sqrt(1 - mu**2 * (1 - cosi**2)) - mu * cosi) * nrm
        n = n2
    p = p + (Z[-1] - p[2]) / d[2] * d
    return p[1]


def reference(dec):
    y0 = chief_y(0.0, dec)
    eps = 1e-3                                      # deg, central difference for the first-order scale
    f = (chief_y(eps, dec) - chief_y(-eps, dec)) / (2 * np.tan(np.radians(eps)))
    out = []
    for H in np.linspace(1e-10, 1, NPTS)[1:]:
        hp = f * np.tan(np.radians(H * MAXF))
        out.append(100 * ((chief_y(H * MAXF, dec) - y0) - hp) / hp)
    return np.array(out)


def build(dec):
    lens = optic.Optic()
    lens.add_surface(index=0, radius=np.inf, thickness=np.inf)
    for k, (R, t, n2) in enumerate(PRESC):
        lens.add_surface(index=k + 1, radius=R, thickness=t, material=IdealMaterial(n2),
                         is_stop=(k == STOP), dy=dec[k])
    lens.add_surface(index=len(PRESC) + 1)
    lens.set_aperture('EPD', 10.0)
    lens.set_field_type('angle')
    for f in (0, 14, MAXF):
        lens.add_field(y=f)
    lens.add_wavelength(0.55, is_primary=True)
    return lens


np.set_printoptions(precision=5, suppress=True)
bad = False
for name, dec in [('centred', [0, 0, 0, 0, 0, 0]), ('element 2 decentred by 0.01 mm', [0, 0, 0.01, 0.01, 0, 0])]:
    lens = build(dec)
    lib = Distortion(lens, num_points=NPTS).data[0][1:]
    ref = reference(dec)
    grid = GridDistortion(lens, num_points=5).data['max_distortion']
    print(name)
    print('   Distortion (f-tan) library  %', lib)
    print('                      expected %', ref)
    print(f'   GridDistortion max_distortion = {grid:.5f} %')
    if not np.allclose(lib, ref, atol=2e-4):
        bad = True
if bad:
    print('VIOLATION: the paraxial image-height scale is taken from the absolute chief-ray height '
          'at Hy = 1e-10')
    sys.exit(1)
print('OK')
sys.exit(0)

"""C20 defect 1: the last SURF block of a .zmx file (the image surface) is
never stored, so its curvature / conic are replaced by a default flat surface.

Independent path: a 10-line parser of our own reads CURV/CONI of every SURF
block from the same text; the values are compared with what load_zemax_file
reports in surface_group.radii / surface_group.conic.
"""
import os
import sys
import tempfile
import numpy as np
from optiland.fileio.zemax_handler import load_zemax_file

ZMX = """MODE SEQ
UNIT MM X W X CM MR CPMM
ENPD 10.0
GCAT SCHOTT
FTYP 0 0 2 1 0 0 0 0
XFLN 0.0 0.0
YFLN 0.0 10.0
WAVM 1 0.5875618 1
PWAV 1
SURF 0
  TYPE STANDARD
  CURV 0.0
  DISZ INFINITY
SURF 1
  STOP
  TYPE STANDARD
  CURV 0.02
  DISZ 5.0
  GLAS N-BK7 1 0 1.5168 64.17
SURF 2
  TYPE STANDARD
  CURV -0.02
  DISZ 47.0
SURF 3
  TYPE STANDARD
  CURV -0.0125
  DISZ 0.0
  CONI -0.5
"""


def own_parse(text):
    """Independent reading of the prescription: [(radius, conic), ...]."""
    surfs = []
    for line in text.splitlines():
        tok = line.split()
        if not tok:
            continue
        if tok[0] == 'SURF':
            surfs.append({'radius': np.inf, 'conic': 0.0})
        elif tok[0] == 'CURV':
            c = float(tok[1])
            surfs[-1]['radius'] = np.inf if c == 0 else 1.0 / c
        elif tok[0] == 'CONI':
            surfs[-1]['conic'] = float(tok[1])
    return surfs


ok = True
for enc in ('utf-8', 'utf-16'):
    fd, path = tempfile.mkstemp(suffix='.zmx')
    os.close(fd)
    with open(path, 'w', encoding=enc) as f:
        f.write(ZMX)
    lens = load_zemax_file(path)
    os.remove(path)

    expected = own_parse(ZMX)
    radii = [float(r) for r in lens.surface_group.radii]
    conic = [float(k) for k in lens.surface_group.conic]
    print(f'[{enc}] surfaces in file: {len(expected)}, '
          f'loaded: {lens.surface_group.num_surfaces}')
    print(f'[{enc}] radii    expected {[s["radius"] for s in expected]}')
    print(f'[{enc}] radii    observed {radii}')
    print(f'[{enc}] conics   expected {[s["conic"] for s in expected]}')
    print(f'[{enc}] conics   observed {conic}')
    for i, s in enumerate(expected):
        if radii[i] != s['radius'] or conic[i] != s['conic']:
            ok = False
            print(f'[{enc}] MISMATCH surface {i}: radius {radii[i]} '
                  f'(file {s["radius"]}), conic {conic[i]} '
                  f'(file {s["conic"]})')

    # consequence: chief ray lands on a flat plane, not on the written
    # R = -80 image surface (sag of a k=-0.5 conic at the landing height)
    rays = lens.trace_generic(0., 1., 0., 0., 0.5875618)
    y = float(rays.y[0])
    z_vertex = float(lens.surface_group.positions[-1][0])
    R, k = expected[-1]['radius'], expected[-1]['conic']
    sag = y**2 / (R * (1 + np.sqrt(1 - (1 + k) * y**2 / R**2)))
    print(f'[{enc}] chief ray lands at y={y:.6f}, z-z_vertex='
          f'{float(rays.z[0]) - z_vertex:.6f}; written image surface has '
          f'sag {sag:.6f} there')

assert ok, 'image-surface radius/conic written in the file were not imported'

"""C15 defect 4: polynomial / Chebyshev coefficient perturbations are silently
truncated to integers when the surface was defined with integer literals
(e.g. coefficients=[[0, 0, 0], [0, 0, 0], [0, 0, 0]]).

The results table records the sampled perturbation value (e.g. 2e-3) but the
lens that is evaluated still has coefficient int(2e-3) == 0, so the recorded
operand values are those of the NOMINAL lens, not of the perturbed one.
"""
import warnings
import numpy as np
from optiland import optic
from optiland.tolerancing.core import Tolerancing
from optiland.tolerancing.sensitivity_analysis import SensitivityAnalysis
from optiland.tolerancing.perturbation import RangeSampler

warnings.filterwarnings('ignore')
WL = 0.5875618


def make_lens(surface_type, coefficients):
    kw = dict(norm_x=10, norm_y=10) if surface_type == 'chebyshev' else {}
    lens = optic.Optic()
    lens.add_surface(index=0, radius=np.inf, thickness=np.inf)
    lens.add_surface(index=1, radius=40, thickness=5, material='N-SF11',
                     is_stop=True, surface_type=surface_type,
                     coefficients=coefficients, **kw)
    lens.add_surface(index=2, radius=-200, thickness=40)
    lens.add_surface(index=3)
    lens.set_aperture(aperture_type='EPD', value=10)
    lens.set_field_type(field_type='angle')
    lens.add_field(y=0)
    lens.add_wavelength(value=WL, is_primary=True)
    return lens


def my_rms(lens):
    lens.trace(0, 0, WL, 6, 'hexapolar')
    x = lens.surface_group.x[-1].ravel()
    y = lens.surface_group.y[-1].ravel()
    return float(np.sqrt(np.mean((x - x.mean())**2 + (y - y.mean())**2)))


failures = []
for stype, vtype, amp in (('polynomial', 'polynomial_coeff', 2e-3),
                          ('chebyshev', 'chebyshev_coeff', 2e-2)):
    nominal_coeffs = [[0, 0, 0], [0, 0, 0], [0, 0, 0]]     # integer literals
    lens = make_lens(stype, nominal_coeffs)
    tol = Tolerancing(lens)
    tol.add_operand('rms_spot_size', dict(optic=lens, surface_number=-1, Hx=0,
                                          Hy=0, num_rays=6, wavelength=WL,
                                          distribution='hexapolar'))
    tol.add_perturbation(vtype, RangeSampler(-amp, amp, 3), surface_number=1,
                         coeff_index=(0, 2))
    sa = SensitivityAnalysis(tol)
    sa.run()
    df = sa.get_results()
    print(df.to_string())
    for _, row in df.iterrows():
        v = float(row.perturbation_value)
        # independent: build the perturbed lens from scratch (float coeffs)
        c = np.zeros((3, 3))
        c[0, 2] = v
        exp = my_rms(make_lens(stype, c))
        got = float(row[sa.operand_names[0]])
        rel = abs(got - exp) / exp
        print('  %s c[0,2]=%+.4g : recorded rms %.6f, true perturbed rms %.6f'
              ' (rel. dev %.3g)' % (stype, v, got, exp, rel))
        if rel > 1e-9:
            failures.append('%s c[0,2]=%+.4g recorded %.6f expected %.6f'
                            % (stype, v, got, exp))
    print()

for f in failures:
    print('FAIL', f)
assert not failures, 'C15 violated: ' + '; '.join(failures)
print('OK')

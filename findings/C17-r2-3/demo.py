"""C17 / 3 - with polarization switched on, rays that are lost (miss a surface
or are totally internally reflected) end with intensity NaN instead of 0.

No coatings are involved: the polarization trace must preserve the intensity
of every ray, i.e. give exactly what the scalar trace gives (1 for rays that
get through, 0 for rays that are lost).  Independent reference: a ray of height
h cannot meet a sphere of radius R < h, so its transmitted power is 0.
"""
import sys
import warnings
import numpy as np
from optiland.optic import Optic
from optiland.materials import IdealMaterial
from optiland.rays import create_polarization, PolarizationState
from optiland.samples.microscopes import UVReflectingMicroscope

warnings.filterwarnings('ignore')
np.seterr(all='ignore')
bad = False

# A: ball-like lens, semi-aperture of the beam (10) larger than the radius (9)
lens = Optic()
lens.add_surface(index=0, thickness=np.inf)
lens.add_surface(index=1, thickness=5, radius=9, is_stop=True,
                 material=IdealMaterial(n=1.5))
lens.add_surface(index=2, thickness=20, radius=-9)
lens.add_surface(index=3)
lens.set_aperture('EPD', 20)
lens.set_field_type('angle')
lens.add_field(y=0)
lens.add_wavelength(0.55, is_primary=True)

heights = np.array([-10., 0., 10.])            # Py = -1, 0, 1
expected = np.where(np.abs(heights) < 9, 1.0, 0.0)   # |h| > R: no intersection

states = {'unpolarized': create_polarization('unpolarized'),
          'H': create_polarization('H'),
          'arbitrary': PolarizationState(True, 0.3, -0.8, 0.4, 2.0)}
lens.set_polarization('ignore')
scalar = lens.trace(0, 0, 0.55, num_rays=3, distribution='line_y').i
print('A  scalar trace            :', scalar, ' expected', expected)
bad |= not np.array_equal(scalar, expected)
for name, st in states.items():
    lens.set_polarization(st)
    got = lens.trace(0, 0, 0.55, num_rays=3, distribution='line_y').i
    ok = np.allclose(got, expected, atol=1e-12, equal_nan=False)
    print(f'A  polarized ({name:11s}) :', got, ' expected', expected,
          'ok' if ok else 'VIOLATION')
    bad |= not ok

# B: a lens shipped with the library (central obscuration -> lost rays)
mic = UVReflectingMicroscope()
w = mic.primary_wavelength
mic.set_polarization('ignore')
i0 = mic.trace(0, 1, w, num_rays=6, distribution='hexapolar').i.copy()
mic.set_polarization(create_polarization('unpolarized'))
i1 = mic.trace(0, 1, w, num_rays=6, distribution='hexapolar').i
n_nan = int(np.isnan(i1).sum())
ok = n_nan == 0 and np.allclose(i1, i0, atol=1e-9)
print(f'B  UVReflectingMicroscope: scalar trace has {int((i0 == 0).sum())} dark '
      f'rays and {int(np.isnan(i0).sum())} NaN; polarized trace has {n_nan} NaN '
      f'intensities; mean intensity scalar {i0.mean():.4f} vs polarized '
      f'{i1.mean():.4f}', 'ok' if ok else 'VIOLATION')
bad |= not ok

sys.exit(1 if bad else 0)

"""C20 defect 4: an EVENASPH surface whose PARM 1 (the r^2 coefficient) is
non-zero is imported with the right coefficients, but the paraxial properties
of the loaded lens ignore that term: they are not those "computed from the
written numbers".

Written sag:  z = c r^2 / (1 + sqrt(1-(1+k) c^2 r^2)) + a1 r^2 + a2 r^4 + ...
=> vertex curvature  z''(0) = c + 2 a1.

Independent paths: (a) own y-nu trace with vertex curvature c + 2 a1;
(b) the library's own real-ray trace of a parabasal ray (Py -> 0) through the
same loaded lens.
"""
import os
import tempfile
import numpy as np
from optiland.fileio.zemax_handler import load_zemax_file

C1, A1, T, ND = 0.01, 0.005, 5.0, 1.5168
ZMX = f"""MODE SEQ
UNIT MM X W X CM MR CPMM
ENPD 10.0
GCAT SCHOTT
FTYP 0 0 1 1 0 0 0 0
XFLN 0.0
YFLN 0.0
WAVM 1 0.5875618 1
PWAV 1
SURF 0
  TYPE STANDARD
  CURV 0.0
  DISZ INFINITY
SURF 1
  STOP
  TYPE EVENASPH
  CURV {C1}
  PARM 1 {A1}
  PARM 2 1e-06
  PARM 3 0
  PARM 4 0
  PARM 5 0
  PARM 6 0
  PARM 7 0
  PARM 8 0
  DISZ {T}
  GLAS ___BLANK 1 0 {ND} 64.17
SURF 2
  TYPE STANDARD
  CURV 0.0
  DISZ 45.0
SURF 3
  TYPE STANDARD
  CURV 0.0
  DISZ 0.0
"""

fd, path = tempfile.mkstemp(suffix='.zmx')
os.close(fd)
with open(path, 'w', encoding='utf-8') as f:
    f.write(ZMX)
lens = load_zemax_file(path)
os.remove(path)

geo = lens.surface_group.surfaces[1].geometry
print('imported: radius', geo.radius, 'coefficients', list(geo.c))
assert geo.radius == 1 / C1 and geo.c[0] == A1      # import itself is right

# (a) own paraxial trace from the written numbers
n = float(lens.surface_group.surfaces[1].material_post.n(0.5875618))
c_vertex = C1 + 2 * A1
y, u = 1.0, 0.0
u = (u - y * (n - 1) * c_vertex) / n     # refraction at S1 (n u' = n u - y phi)
y = y + T * u
u = n * u                                 # flat S2 into air
efl_expected = -1.0 / u

# (b) parabasal real ray through the loaded lens
h = 1e-4 * 5.0
rays = lens.trace_generic(0., 0., 0., 1e-4, 0.5875618)
efl_real = -h / float(rays.M[0] / rays.N[0])

f2 = float(lens.paraxial.f2())
print(f'EFL from written numbers (c + 2*a1)   : {efl_expected:.6f} mm')
print(f'EFL from parabasal real ray (library) : {efl_real:.6f} mm')
print(f'lens.paraxial.f2()                    : {f2:.6f} mm')
print(f'relative deviation                    : {f2 / efl_expected - 1:+.3e}')

assert abs(efl_real / efl_expected - 1) < 1e-6
assert abs(f2 / efl_expected - 1) < 1e-6, \
    'paraxial focal length ignores the r^2 even-asphere term written in the file'

"""C04 / 1 - XPD() uses the slope *after* the image surface.

Exit pupil diameter must equal 2*|marginal ray height at the exit pupil|,
where the marginal ray is propagated in the image-space medium (the medium in
front of the image surface).  Checked with an independent y-nu trace.
"""
import sys
import numpy as np
from optiland.optic import Optic
from optiland.materials import IdealMaterial
from optiland.samples.microscopes import Microscope20x, UVReflectingMicroscope


def ynu_xpd(optic):
    """Independent reference: exit pupil location (rel. image) and diameter."""
    w = optic.primary_wavelength
    S = optic.surface_group.surfaces
    R = [s.geometry.radius for s in S]
    z = [float(s.geometry.cs.z) for s in S]
    n, sign = [], 1.0
    for s in S:
        if s.is_reflective:
            sign = -sign
        n.append(sign * float(np.ravel(s.material_post.n(w))[0]))
    stop = [k for k, s in enumerate(S) if s.is_stop][0]
    last = len(S) - 2

    def refract(j, y, u):
        c = 0.0 if np.isinf(R[j]) else 1.0 / R[j]
        return (n[j - 1] * u - y * (n[j] - n[j - 1]) * c) / n[j]

    def unrefract(j, y, u):
        c = 0.0 if np.isinf(R[j]) else 1.0 / R[j]
        return (n[j] * u + y * (n[j] - n[j - 1]) * c) / n[j - 1]

    # entrance pupil: image of the stop centre towards the object
    y, u = 0.0, 1.0
    for j in range(stop - 1, 0, -1):
        y = y - u * (z[j + 1] - z[j])
        u = unrefract(j, y, u)
    epl = 0.0 if stop == 1 else -y / u
    # exit pupil: image of the stop centre towards the image
    y, u = 0.0, 1.0
    for j in range(stop + 1, last + 1):
        y = y + u * (z[j] - z[j - 1])
        u = refract(j, y, u)
    xp_from_last = 0.0 if stop == last else -y / u
    # marginal ray (EPD known from the aperture definition)
    ap = optic.aperture
    assert ap.ap_type in ('EPD', 'imageFNO')
    if ap.ap_type == 'EPD':
        epd = ap.value
    else:
        yy, uu = 1.0, 0.0
        for j in range(1, last + 1):
            if j > 1:
                yy = yy + uu * (z[j] - z[j - 1])
            uu = refract(j, yy, uu)
        epd = abs(-1.0 / uu) / ap.value
    if np.isinf(z[0]):
        y, u = epd / 2, 0.0
    else:
        u = epd / 2 / (epl - z[0])
        y = u * (0.0 - z[0])
    for j in range(1, last + 1):
        if j > 1:
            y = y + u * (z[j] - z[j - 1])
        u = refract(j, y, u)
    return 2 * abs(y + u * xp_from_last)


def singlet_in_water():
    o = Optic()
    o.add_surface(index=0, thickness=np.inf)
    o.add_surface(index=1, radius=40.0, thickness=5.0,
                  material=IdealMaterial(1.6), is_stop=False)
    o.add_surface(index=2, radius=-60.0, thickness=10.0, is_stop=True,
                  material=IdealMaterial(1.0))
    # window; the image lies in water (n = 1.33) behind it
    o.add_surface(index=3, radius=np.inf, thickness=50.0,
                  material=IdealMaterial(1.33))
    o.add_surface(index=4)            # image surface, default arguments
    o.set_aperture('EPD', 10.0)
    o.set_field_type('angle')
    o.add_field(0.0)
    o.add_field(5.0)
    o.add_wavelength(0.55, is_primary=True)
    return o


fail = False
for name, optic in [('singlet, image in water', singlet_in_water()),
                    ('samples.Microscope20x', Microscope20x()),
                    ('samples.UVReflectingMicroscope',
                     UVReflectingMicroscope())]:
    got = optic.paraxial.XPD()
    exp = ynu_xpd(optic)
    ok = abs(got - exp) <= 1e-8 * (1 + abs(exp))
    print(f'{name}: XPD() = {got:.9f}   y-nu reference = {exp:.9f}   '
          f'ratio = {got / exp:.6f}   {"ok" if ok else "VIOLATION"}')
    fail |= not ok

sys.exit(1 if fail else 0)

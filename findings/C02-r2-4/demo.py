"""C02 / 4 - CoordinateSystem describes two different tilted frames: the ray
trace (localize / globalize, position_in_gcs) composes the tilts as
Rx.Ry.Rz, while get_rotation_matrix / get_effective_transform /
get_effective_rotation_euler (used to place the surfaces in the 3D drawing
and to chain reference frames) compose them as Rz.Ry.Rx.

Exits 1 when the two descriptions of the same frame disagree.
"""
import sys
import numpy as np
from optiland.coordinate_system import CoordinateSystem
from optiland.rays import RealRays

np.set_printoptions(precision=6, suppress=True)
fail = False


def frame_from_trace(cs):
    """matrix local->global and origin as the ray trace applies them"""
    M = np.zeros((3, 3))
    for j, e in enumerate(np.eye(3)):
        r = RealRays(0.0, 0.0, 0.0, float(e[0]), float(e[1]), float(e[2]),
                     1.0, 1.0)
        cs.globalize(r)
        M[:, j] = [r.L[0], r.M[0], r.N[0]]
    o = RealRays(0.0, 0.0, 0.0, 0.0, 0.0, 1.0, 1.0, 1.0)
    cs.globalize(o)
    return M, np.array([o.x[0], o.y[0], o.z[0]])


def Rx(a):
    return np.array([[1, 0, 0], [0, np.cos(a), -np.sin(a)],
                     [0, np.sin(a), np.cos(a)]])


def Ry(a):
    return np.array([[np.cos(a), 0, np.sin(a)], [0, 1, 0],
                     [-np.sin(a), 0, np.cos(a)]])


# (a) one surface frame with tilts about x and y (what add_surface(rx=, ry=)
#     creates)
cs = CoordinateSystem(x=1.0, y=2.0, z=30.0, rx=0.3, ry=0.4)
M_trace, o_trace = frame_from_trace(cs)
t_eff, M_eff = cs.get_effective_transform()
print('(a) rx = 0.3, ry = 0.4')
print('frame used by the ray trace (own formula Rx.Ry agrees: %s)'
      % np.allclose(M_trace, Rx(0.3) @ Ry(0.4)))
print(M_trace)
print('get_effective_transform() rotation (equals Ry.Rx: %s)'
      % np.allclose(M_eff, Ry(0.4) @ Rx(0.3)))
print(M_eff)
d = np.abs(M_trace - M_eff).max()
print('max element difference: %.6f' % d)
# surface normal at the vertex, local (0, 0, 1), in global coordinates
print('vertex normal, trace : ', M_trace[:, 2])
print('vertex normal, matrix: ', M_eff[:, 2])
ang = np.degrees(np.arccos(np.clip(M_trace[:, 2] @ M_eff[:, 2], -1, 1)))
print('angle between the two vertex normals: %.3f deg' % ang)
if d > 1e-12:
    fail = True

# (b) chained frames: vertex position
ref = CoordinateSystem(x=0.0, y=0.0, z=10.0, rx=0.3, ry=0.4)
cs2 = CoordinateSystem(x=0.0, y=5.0, z=20.0, reference_cs=ref)
_, o_trace = frame_from_trace(cs2)
t_eff, _ = cs2.get_effective_transform()
print('(b) frame (0, 5, 20) inside a reference frame tilted rx=0.3, ry=0.4')
print('vertex position used by the trace (position_in_gcs):', o_trace,
      np.ravel(cs2.position_in_gcs))
expected = np.array([0, 0, 10.0]) + Rx(0.3) @ Ry(0.4) @ np.array([0, 5, 20.0])
print('own computation  o_ref + Rx.Ry.(0, 5, 20)          :', expected)
print('get_effective_transform() translation             :', t_eff)
d = np.abs(o_trace - t_eff).max()
print('difference: %.4f mm' % d)
if d > 1e-9:
    fail = True

# (c) what the 3D viewer does with it
try:
    import vtk
    from optiland.visualization.utils import transform_3d

    class _S:                      # minimal stand-in for a Surface
        class geometry:
            pass
    _S.geometry.cs = cs
    actor = transform_3d(vtk.vtkActor(), _S)
    m = actor.GetMatrix()
    M_vtk = np.array([[m.GetElement(i, j) for j in range(3)]
                      for i in range(3)])
    print('(c) orientation given to the VTK actor of the surface:')
    print(M_vtk)
    print('    differs from the traced frame by %.6f'
          % np.abs(M_vtk - M_trace).max())
except Exception as e:             # vtk not importable: parts (a), (b) suffice
    print('(c) skipped:', repr(e))

if fail:
    print('VIOLATION: the tilted frame of the surface is not unique')
sys.exit(1 if fail else 0)

"""C03 defect 1: when the paraxial entrance pupil lies in front of the ray
launch plane (infinite object) or in front of the object (finite object) the
generated rays travel BACKWARDS (N < 0, field-angle sign flipped) and never
reach the lens.

Run:  PYTHONPATH=/tmp/hunt/C03 /venv/bin/python demo.py
"""
import sys
import warnings
import numpy as np
from optiland.optic import Optic
from optiland.materials import IdealMaterial

warnings.filterwarnings('ignore')

MAXF = 5.0      # maximum field (deg or mm)
EPD = 10.0


def build(obj_thickness, field_type):
    """Singlet (f ~ 42 mm) with a REAR stop 100 mm behind it.  The stop is
    beyond the back focal point, so its image in object space (the entrance
    pupil) is real and lies ~70 mm in FRONT of the first surface."""
    o = Optic()
    o.add_surface(index=0, thickness=obj_thickness)
    o.add_surface(index=1, radius=50.0, thickness=5.0,
                  material=IdealMaterial(n=1.6))
    o.add_surface(index=2, radius=-50.0, thickness=100.0)
    o.add_surface(index=3, is_stop=True, thickness=50.0)
    o.add_surface(index=4)
    o.set_aperture('EPD', EPD)
    o.set_field_type(field_type)
    o.add_field(y=0.0)
    o.add_field(y=MAXF)
    o.add_wavelength(0.55, is_primary=True)
    return o


def independent_epl(o):
    """Own y-nu trace: image the stop centre backwards into object space."""
    sg = o.surface_group
    s = sg.stop_index
    z = sg.positions.ravel()
    R = sg.radii
    n = o.n()                       # n[k] = index after surface k
    y, u, zc = 0.0, 0.1, z[s]
    for k in range(s - 1, 0, -1):
        y += u * (z[k] - zc)
        zc = z[k]
        power = (n[k] - n[k - 1]) / R[k]
        u = (n[k] * u + y * power) / n[k - 1]
    return zc - y / u


failures = []


def check(name, cond, observed, expected):
    flag = 'ok  ' if cond else 'FAIL'
    print(f'  [{flag}] {name}: observed {observed}, expected {expected}')
    if not cond:
        failures.append(name)


Hy, Py = 1.0, 0.5
for label, obj_t, ftype in [('infinite object / angle field', np.inf, 'angle'),
                            ('finite object 50 mm / object height', 50.0,
                             'object_height'),
                            ('finite object 50 mm / angle field', 50.0,
                             'angle')]:
    o = build(obj_t, ftype)
    epl = independent_epl(o)
    print(f'{label}:  EPL(own trace) = {epl:.4f}  '
          f'EPL(library) = {o.paraxial.EPL():.4f}')
    rays = o.trace_generic(0.0, Hy, 0.0, Py, 0.55)
    sg = o.surface_group
    x0, y0, z0 = sg.x[0, 0], sg.y[0, 0], sg.z[0, 0]
    L0, M0, N0 = sg.L[0, 0], sg.M[0, 0], sg.N[0, 0]
    print(f'  launch record: y0={y0:.5f} z0={z0:.3f} M={M0:.6f} N={N0:.6f}')

    # (a) light must travel towards the lens (+z): N > 0
    check('ray travels towards the lens (N>0)', N0 > 0, f'N={N0:.6f}', 'N>0')

    # (b) the straight line of the ray must pass through the requested pupil
    #     point (0, Py*EPD/2) in the plane z = EPL  (this holds even for the
    #     wrong-way ray, it is the *sense* that is wrong)
    t = (epl - z0) / N0
    yp = y0 + t * M0
    check('line through pupil point', abs(yp - Py * EPD / 2) < 1e-6,
          f'{yp:.6f}', f'{Py * EPD / 2:.6f}')

    # (c) field definition
    if ftype == 'angle' and np.isinf(obj_t):
        exp_M = np.sin(np.radians(Hy * MAXF))
        check('direction = +Hy*max_field to the axis',
              abs(M0 - exp_M) < 1e-9 and N0 > 0,
              f'(M,N)=({M0:.6f},{N0:.6f})',
              f'({exp_M:.6f},{np.cos(np.radians(Hy * MAXF)):.6f})')
    if ftype == 'object_height':
        check('starts at Hy*max_field', abs(y0 - Hy * MAXF) < 1e-9,
              f'{y0:.6f}', f'{Hy * MAXF:.6f}')

    # (d) consequence: ray must reach the first surface and the stop
    y_stop = sg.y[sg.stop_index, 0]
    check('ray reaches the stop (finite height)', np.isfinite(y_stop),
          f'y_stop={y_stop}', 'finite')

if failures:
    print(f'\n{len(failures)} check(s) FAILED -> defect demonstrated')
    sys.exit(1)
print('\nall checks passed')

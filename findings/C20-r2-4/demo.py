"""C20 / 4 - catalogue glasses whose Zemax name sits in the 'reference' column
of the catalogue (IRG22..27, IG2..6, B270, BOROFLOAT33, AF32ECO, D263TECO ...)
are not recognised by the importer and become a model glass; for the infrared
glasses the model glass is evaluated at 8-12 um and returns n = -4000."""
import io
import os
import sys
import tempfile
import contextlib
import numpy as np
from optiland.fileio import load_zemax_file

C1, T, C2, BFD = 0.02, 4.0, 0.012, 50.0


def zmx(name, nd, vd, waves, gcat):
    wl = '\n'.join(f'WAVM {i+1} {w} 1' for i, w in enumerate(waves))
    return f"""VERS 171115
MODE SEQ
NAME singlet
UNIT MM X W X CM MR CPMM
ENPD 20.0
GCAT {gcat}
FTYP 0 0 1 {len(waves)} 0 0 0 0
XFLN 0 0 0 0 0 0 0 0 0 0 0 0
YFLN 0 0 0 0 0 0 0 0 0 0 0 0
{wl}
PWAV 2
SURF 0
  TYPE STANDARD
  CURV 0.0
  DISZ INFINITY
SURF 1
  STOP
  TYPE STANDARD
  CURV {C1}
  DISZ {T}
  GLAS {name} 0 0 {nd} {vd} 0 0 0 0 0 0
SURF 2
  TYPE STANDARD
  CURV {C2}
  DISZ {BFD}
SURF 3
  TYPE STANDARD
  CURV 0.0
  DISZ 0
"""


def n_irg26(w):
    # SCHOTT IRG 26 product flyer (April 2017), Sellmeier, w in um
    return np.sqrt(1 + 3.1934 + 3.5854 * w**2 / (w**2 - 0.1852)
                   + 2.2337 * w**2 / (w**2 - 3398.08))


def efl(n):
    p1 = (n - 1) * C1
    p2 = (1 - n) * C2
    return 1.0 / (p1 + p2 - p1 * p2 * T / n)


def load(text):
    fd, path = tempfile.mkstemp(suffix='.zmx')
    os.close(fd)
    with open(path, 'w', encoding='utf-8') as f:
        f.write(text)
    with contextlib.redirect_stdout(io.StringIO()):
        lens = load_zemax_file(path)
    os.remove(path)
    return lens


failed = False

# --- 1. SCHOTT IRG26 (database/data-nk/glass/schott/infrared/IRG26.yml) ----
lens = load(zmx('IRG26', 2.7781, 100.0, [8.0, 10.0, 12.0], 'INFRARED SCHOTT'))
mat = lens.surface_group.surfaces[1].material_post
print('IRG26 is imported as', type(mat).__name__,
      getattr(mat, 'material_data', {}).get('filename', ''))
for w in (8.0, 10.0, 12.0):
    got = float(np.ravel(mat.n(w))[0])
    ref = float(n_irg26(w))
    ok = abs(got - ref) < 1e-3
    print(f'  n({w:4.1f} um): library = {got: .5f}   SCHOTT IRG26 = {ref:.5f}'
          f'   {"ok" if ok else "VIOLATED"}')
    failed |= not ok
f_lib = float(lens.paraxial.f2())
f_ref = efl(float(n_irg26(10.0)))
ok = abs(f_lib - f_ref) < 1e-3 * abs(f_ref)
print(f'  EFL at 10 um: library = {f_lib:.5f}   expected = {f_ref:.5f}'
      f'   {"ok" if ok else "VIOLATED"}')
failed |= not ok

# --- 2. other catalogue entries that are only reachable through 'reference' --
for name, nd, vd in [('B270', 1.5230, 58.5), ('BOROFLOAT33', 1.47140, 65.41),
                     ('IG6', 2.7775, 100.0), ('D263TECO', 1.5230, 55.0)]:
    lens = load(zmx(name, nd, vd, [0.4861327, 0.5875618, 0.6562725],
                    'SCHOTT'))
    mat = lens.surface_group.surfaces[1].material_post
    kind = type(mat).__name__
    ok = kind == 'Material'        # the glass IS in the bundled catalogue
    print(f'{name:12s} imported as {kind:13s}'
          f'{"ok" if ok else "VIOLATED (catalogue glass expected)"}')
    failed |= not ok

sys.exit(1 if failed else 0)

"""C13 demo 3: a sensitivity analysis of the radius (flatness) of a plane
surface leaves the lens untraceable: every real ray comes back NaN afterwards,
although the analysis "resets the system to its nominal state".

Run:  PYTHONPATH=/tmp/hunt/C13 /venv/bin/python demo.py
"""
import json
import warnings
import numpy as np

warnings.filterwarnings('ignore')

from optiland.samples.simple import Edmund_49_847      # plano-convex singlet
from optiland.tolerancing.core import Tolerancing
from optiland.tolerancing.sensitivity_analysis import SensitivityAnalysis
from optiland.tolerancing.perturbation import RangeSampler


def frozen(lens):
    return json.dumps(lens.to_dict(), sort_keys=True)


def ray(lens):
    w = lens.primary_wavelength
    r = lens.trace_generic(0.0, 0.5, 0.0, 0.5, w)
    return np.array([r.x[0], r.y[0], r.z[0], r.L[0], r.M[0], r.N[0],
                     r.opd[0]])


# independent reference: identical lens, no analysis
reference = Edmund_49_847()
ray_ref = ray(reference)

lens = Edmund_49_847()
before = frozen(lens)
assert np.array_equal(ray(lens), ray_ref)
f2_before = lens.paraxial.f2()

# flatness tolerance of the plane rear surface (surface 2): |R| >= 10 m
tol = Tolerancing(lens)
tol.add_operand('f2', {'optic': lens})
tol.add_perturbation('radius', RangeSampler(-1e4, 1e4, 4), surface_number=2)
sa = SensitivityAnalysis(tol)
sa.run()
print(sa.get_results().to_string())

after = frozen(lens)
ray_after = ray(lens)
g_ref = reference.surface_group.surfaces[2].geometry
g = lens.surface_group.surfaces[2].geometry
print()
print('surface 2 geometry, expected :', type(g_ref).__name__, g_ref.radius)
print('surface 2 geometry, observed :', type(g).__name__, g.radius)
print('paraxial f2 before / after   :', f2_before, lens.paraxial.f2())
print('real ray (x,y,z,L,M,N,opd) at the image')
print('   expected :', ray_ref)
print('   observed :', ray_after)
print('to_dict() unchanged by the analysis :', before == after)

assert np.array_equal(ray_after, ray_ref), \
    'ray trace differs after the tolerance analysis (expected %r, got %r)' \
    % (ray_ref[1], ray_after[1])
assert before == after

"""C13 / 4 - the rays launched for pupil points given as an integer array are
aimed at a truncated entrance pupil / object point: the result for pupil point
(0, 1) depends on the dtype of the array (i.e. on the other points in it).

Run: cd /tmp/hunt2/C13 && PYTHONPATH=/tmp/hunt2/C13 /venv/bin/python demo.py
"""
import sys
import warnings
import numpy as np
warnings.simplefilter('ignore')
from optiland.optic import Optic
from optiland.materials import IdealMaterial


class Pupil:
    """minimal user-defined pupil distribution (has .x and .y)"""
    def __init__(self, x, y):
        self.x, self.y = x, y


def build(finite):
    lens = Optic()
    lens.add_surface(index=0, thickness=60.5 if finite else np.inf)
    lens.add_surface(index=1, thickness=4, radius=40,
                     material=IdealMaterial(1.6, 0.0))
    lens.add_surface(index=2, thickness=7.3, radius=-40)
    lens.add_surface(index=3, thickness=70, is_stop=True)
    lens.add_surface(index=4)
    lens.set_aperture('EPD', 9)
    if finite:
        lens.set_field_type('object_height')
        lens.add_field(0)
        lens.add_field(4.5)
    else:
        lens.set_field_type('angle')
        lens.add_field(0)
        lens.add_field(7)
    lens.add_wavelength(0.55, is_primary=True)
    return lens


def own_launch(lens, finite, Hy, Px, Py):
    """independent launch direction: from the object point to the point
    (Px, Py) * EPD / 2 of the entrance pupil plane (own formulas)"""
    EPL, EPD = lens.paraxial.EPL(), lens.paraxial.EPD()
    x1, y1, z1 = Px * EPD / 2, Py * EPD / 2, EPL
    if finite:
        x0, y0, z0 = 0.0, Hy * 4.5, -60.5
        d = np.array([x1 - x0, y1 - y0, z1 - z0])
    else:
        t = np.radians(7.0 * Hy)
        d = np.array([0.0, np.sin(t), np.cos(t)])
    return d / np.linalg.norm(d)


bad = False
for finite in (False, True):
    lens = build(finite)
    print(f"{'finite' if finite else 'infinite'} object: EPL = "
          f'{lens.paraxial.EPL():.4f}, EPD = {lens.paraxial.EPD():.4f}')
    pts_x = [0, 1, -1, 0, 0]
    pts_y = [0, 0, 0, 1, -1]
    res = {}
    for label, dtype in (('float pupil array', float),
                         ('integer pupil array', int)):
        pupil = Pupil(np.array(pts_x, dtype=dtype), np.array(pts_y, dtype=dtype))
        lens.trace(0.0, 1.0, 0.55, None, pupil)
        sg = lens.surface_group
        k = 3   # pupil point (0, 1)
        launch = np.array([sg.L[0, k], sg.M[0, k], sg.N[0, k]])
        start = np.array([sg.x[0, k], sg.y[0, k], sg.z[0, k]])
        y_img = sg.y[-1, k]
        ref = own_launch(lens, finite, 1.0, 0.0, 1.0)
        err = np.max(np.abs(launch - ref))
        res[label] = y_img
        ok = err < 1e-12
        print(f'  {label:20s}: start {np.round(start, 4)}, launch (L,M,N) '
              f'{np.round(launch, 6)}, expected {np.round(ref, 6)}, '
              f'y(image) {y_img:.6f}' + ('' if ok else '   <-- differs'))
        bad = bad or not ok
    d = abs(res['float pupil array'] - res['integer pupil array'])
    print(f'  image height of the same ray differs by {d:.3e} mm')
    bad = bad or d > 1e-9

if bad:
    print('VIOLATED: the ray for pupil point (0, 1) depends on the dtype of '
          'the pupil array it is traced in')
    sys.exit(1)
print('property holds')
sys.exit(0)

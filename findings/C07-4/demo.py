"""C07 / tilt clause.

Tilting a spherical surface about its own centre of curvature (rx = theta,
dy = R sin(theta), vertex shifted by R(1 - cos(theta)) along z) describes the
identical sphere, so nothing downstream may change.

Checks
 1. the two descriptions really are the same physical system: the same explicit
    RealRays pushed through surface_group.trace() give identical results;
 2. optic.paraxial.f2() / EPL() must be identical (and equal to an own y-nu
    value);
 3. rays from optic.trace_generic must be identical.
"""
import sys
import warnings
import numpy as np
from optiland.optic import Optic
from optiland.materials import IdealMaterial
from optiland.rays import RealRays

warnings.simplefilter('ignore')

R = [np.inf, 40.0, -60.0, np.inf, 80.0, -45.0, np.inf]
T = [np.inf, 5.0, 6.0, 7.0, 4.0, 60.0, 0.0]
N = [1.0, 1.6, 1.0, 1.0, 1.5, 1.0, 1.0]
STOP = 3
WL = 0.55


def build(theta=0.0, k=None):
    t = list(T)
    kw = [dict() for _ in R]
    if k is not None:
        dz = R[k] * (1 - np.cos(theta))
        t[k - 1] += dz
        t[k] -= dz
        kw[k] = dict(rx=theta, dy=R[k] * np.sin(theta))
    o = Optic()
    for i in range(len(R)):
        mat = 'air' if N[i] == 1.0 else IdealMaterial(N[i])
        o.add_surface(index=i, radius=R[i], thickness=t[i], material=mat,
                      is_stop=(i == STOP), **kw[i])
    o.set_aperture('EPD', 8.0)
    o.set_field_type('angle')
    o.add_field(0.0)
    o.add_field(5.0)
    o.add_wavelength(WL, is_primary=True)
    return o


def centre_of_curvature(o, k):
    """own formula: vertex + Rx(rx) (0,0,R)"""
    cs = o.surface_group.surfaces[k].geometry.cs
    r = o.surface_group.surfaces[k].geometry.radius
    return np.array([cs.x, cs.y - r * np.sin(cs.rx), cs.z + r * np.cos(cs.rx)])


def own_f2_epl():
    y, u = 1.0, 0.0
    for k in range(1, len(R) - 1):
        u = (N[k - 1] * u - y * (N[k] - N[k - 1]) / R[k]) / N[k]
        if k < len(R) - 2:
            y += T[k] * u
    f2 = -1.0 / u
    y, u, n = 0.0, 0.1, N[STOP - 1]
    for k in range(STOP - 1, 0, -1):
        y += T[k] * u
        u = (n * u + y / R[k] * (N[k - 1] - n)) / N[k - 1]
        n = N[k - 1]
    return f2, y / u


def push_explicit(o):
    rays = RealRays(x=np.array([0.5, -1.0]), y=np.array([2.0, -1.5]),
                    z=np.array([-10.0, -10.0]),
                    L=np.array([0.01, 0.0]), M=np.array([0.05, 0.08]),
                    N=np.sqrt(1 - np.array([0.01, 0.0])**2
                              - np.array([0.05, 0.08])**2),
                    intensity=np.ones(2), wavelength=np.full(2, WL))
    o.surface_group.trace(rays)
    return np.concatenate([rays.x, rays.y, rays.z, rays.L, rays.M, rays.N,
                           rays.opd])


def observe(o):
    r = o.trace_generic(0.0, 1.0, 0.3, 0.7, WL)
    return np.array([r.x[0], r.y[0], r.z[0], r.L[0], r.M[0], r.N[0], r.opd[0]])


f2_own, epl_own = own_f2_epl()
base = build()
print(f'own y-nu     : f2 = {f2_own:.9f}  EPL = {epl_own:.9f}')
print(f'untilted lens: f2 = {base.paraxial.f2():.9f}  EPL = '
      f'{base.paraxial.EPL():.9f}')
print('               trace_generic image ray', observe(base))

failures = []
for k, theta in ((2, 0.01), (2, 0.1), (4, 0.01), (4, 0.3)):
    tilted = build(theta, k)
    same_sphere = np.allclose(centre_of_curvature(tilted, k),
                              centre_of_curvature(base, k), atol=1e-12)
    d_explicit = np.abs(push_explicit(tilted) - push_explicit(base)).max()
    f2, epl = tilted.paraxial.f2(), tilted.paraxial.EPL()
    d_rays = np.abs(observe(tilted) - observe(base)).max()
    print(f'surface {k} tilted by {theta} rad about its centre of curvature '
          f'(same sphere: {same_sphere}; identical explicit rays differ by '
          f'{d_explicit:.1e})')
    print(f'    f2 = {f2:.9f} (expected {f2_own:.9f})   EPL = {epl:.9f} '
          f'(expected {epl_own:.9f})   max |d ray| from trace_generic = '
          f'{d_rays:.3e} (expected 0)')
    assert same_sphere and d_explicit < 1e-10
    if abs(f2 - f2_own) > 1e-9 * abs(f2_own):
        failures.append(f'f2 changed (surface {k}, theta {theta})')
    if abs(epl - epl_own) > 1e-9 * abs(epl_own):
        failures.append(f'EPL changed (surface {k}, theta {theta})')
    if d_rays > 1e-9:
        failures.append(f'trace_generic rays changed (surface {k}, '
                        f'theta {theta})')

print('violations:', failures)
assert not failures, 'tilt about the centre of curvature changed results'
sys.exit(0)

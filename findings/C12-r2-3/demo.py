"""C12 / 3 - PupilAberration compares vignetted real rays with un-vignetted paraxial rays.

Pupil aberration = (paraxial - real) intersection height on the stop surface, in % of the on-axis
paraxial stop radius.  For a field with vignetting factors the real ray of normalised pupil
coordinate Py is launched towards Py*(1-vy)*EPD/2 of the entrance pupil, but the paraxial reference
is traced for Py*EPD/2: the two rays are not the same ray, and the vignetting factor itself shows
up as "aberration" (about vy*Py*100 %).

Lens: Cooke triplet, fixed indices, object at infinity, fields 0/14/20 deg with vy = 0/0.2/0.4.
Reference: independent numpy real trace and y-nu paraxial trace of the SAME ray (same object
direction, same aim point in the entrance pupil).
"""
import sys
import numpy as np
from optiland import optic
from optiland.materials import IdealMaterial
from optiland.analysis import PupilAberration

PRESC = [(22.01359, 3.25896, 1.6204), (-435.76044, 6.00755, 1.0),
         (-22.21328, 0.99997, 1.6200), (20.29192, 4.75041, 1.0),
         (79.68360, 2.95208, 1.6204), (-18.39533, 42.20778, 1.0)]
STOP = 3
EPD = 10.0
FIELDS = [(0.0, 0.0, 0.0), (14.0, 0.1, 0.2), (20.0, 0.2, 0.4)]     # angle, vx, vy
MAXF = 20.0
NPTS = 11
Z = np.concatenate([[0.0], np.cumsum([p[1] for p in PRESC])])


def paraxial_to_stop(y, u, z):
    n = 1.0
    for j, (R, t, n2) in enumerate(PRESC[:STOP + 1]):
        y = y + u * (Z[j] - z)
        z = Z[j]
        u = (n * u - y * (n2 - n) / R) / n2
        n = n2
    return y


EPL = paraxial_to_stop(0.0, 1.0, 0.0) / paraxial_to_stop(1.0, 0.0, 0.0)
D_STOP = paraxial_to_stop(EPD / 2, 0.0, 0.0)      # on-axis paraxial stop radius


def real_to_stop(y_aim, field_deg):
    """meridional real ray aimed at height y_aim in the entrance pupil plane"""
    th = np.radians(field_deg)
    d = np.array([0.0, np.sin(th), np.cos(th)])
    p = np.array([0.0, y_aim, EPL]) - 60.0 * d
    n = 1.0
    for j, (R, t, n2) in enumerate(PRESC[:STOP + 1]):
        c = 1.0 / R
        o = p - np.array([0.0, 0.0, Z[j]])
        b = 2 * c * o.dot(d) - 2 * d[2]
        cc = c * o.dot(o) - 2 * o[2]
        p = p + 2 * cc / (-b + np.sqrt(b * b - 4 * c * cc)) * d
        if j == STOP:
            return p[1]
        nrm = (p - np.array([0.0, 0.0, Z[j] + R])) / abs(R)
        cosi = nrm.dot(d)
        nrm, cosi = nrm * np.sign(cosi), abs(cosi)
        mu = n / n2
        d = mu * d + (np.sqrt(1 - mu**2 * (1 - cosi**2)) - mu * cosi) * nrm
        n = n2


def reference(field_deg, vy):
    out = []
    for Py in np.linspace(-1, 1, NPTS):
        y_aim = Py * (1 - vy) * EPD / 2
        u = np.tan(np.radians(field_deg))
        y_par = paraxial_to_stop(y_aim - u * (EPL - (-1.0)), u, -1.0)
        out.append(100 * (y_par - real_to_stop(y_aim, field_deg)) / D_STOP)
    return np.array(out)


lens = optic.Optic()
lens.add_surface(index=0, radius=np.inf, thickness=np.inf)
for k, (R, t, n2) in enumerate(PRESC):
    lens.add_surface(index=k + 1, radius=R, thickness=t, material=IdealMaterial(n2),
                     is_stop=(k == STOP))
lens.add_surface(index=len(PRESC) + 1)
lens.set_aperture('EPD', EPD)
lens.set_field_type('angle')
for f, vx, vy in FIELDS:
    lens.add_field(y=f, vx=vx, vy=vy)
lens.add_wavelength(0.55, is_primary=True)

pa = PupilAberration(lens, num_points=NPTS)
np.set_printoptions(precision=3, suppress=True, linewidth=160)
bad = False
for (f, vx, vy), field in zip(FIELDS, lens.fields.get_field_coords()):
    lib = pa.data[f'{field}'][f'{lens.primary_wavelength}']['y']
    ref = reference(f, vy)
    print(f'field {f:4.1f} deg (vy={vy}):')
    print('   library  %', lib)
    print('   expected %', ref)
    if not np.allclose(lib, ref, atol=1e-6):
        bad = True
        print(f'   largest deviation {np.max(np.abs(lib - ref)):.3f} % of the stop radius '
              f'(vy*100 = {vy * 100:.0f} %)')
if bad:
    print('VIOLATION: the paraxial reference ray ignores the vignetting factors applied to '
          'the real ray')
    sys.exit(1)
print('OK')
sys.exit(0)

"""C04 defect 4: the paraxial trace ignores the r^2 term of an even asphere.

EvenAsphere sag:  z = c r^2 / (1 + sqrt(1-(1+k) c^2 r^2)) + C1 r^2 + C2 r^4 ...
so the vertex curvature is  c + 2*C1.  Surface._trace_paraxial() uses
1/geometry.radius only.  The bundled AsphericSinglet sample has
C1 = -2.248851e-4 on an R = 20 surface, so all its paraxial data (f2, F2, ...)
disagree with matrix optics built from the true vertex curvature, and with
the limit of real rays near the axis.

Run:  PYTHONPATH=/tmp/hunt/C04 /venv/bin/python demo.py
"""
import warnings
import numpy as np
from optiland.samples.simple import AsphericSinglet

warnings.simplefilter('ignore')

o = AsphericSinglet()
px = o.paraxial
w = o.primary_wavelength
s1 = o.surface_group.surfaces[1]
R, C1 = s1.geometry.radius, s1.geometry.c[0]
n = float(s1.material_post.n(w))
pos = o.surface_group.positions.ravel()
t1, t2 = pos[2] - pos[1], pos[3] - pos[2]

# vertex curvature straight from the sag function (numerical 2nd derivative)
h = 1e-3
c_vertex = 2 * float(s1.geometry.sag(0.0, h)) / h**2
print('surface 1: R = %g (c = %.6f), C1 = %g -> vertex curvature from sag() '
      '= %.6f (c + 2*C1 = %.6f)' % (R, 1 / R, C1, c_vertex, 1 / R + 2 * C1))


def abcd_f(c1):
    """singlet: curved front (curvature c1), flat back, on (y, n u)"""
    phi1 = (n - 1.0) * c1
    M = np.array([[1, 0], [0, 1.0]]) @ np.array([[1, t1 / n], [0, 1.0]]) \
        @ np.array([[1, 0], [-phi1, 1.0]])
    A, B, C, D = M.ravel()
    return -1.0 / C, -A / C - t2      # f', F2 relative to the image plane


f_true, F2_true = abcd_f(1 / R + 2 * C1)
f_rad, F2_rad = abcd_f(1 / R)

# independent path through the API: real rays ever closer to the axis
real = []
for Py in (1e-2, 1e-3, 1e-4):
    o.trace_generic(0.0, 0.0, 0.0, Py, w)
    sg = o.surface_group
    slope = sg.M[-1, 0] / sg.N[-1, 0]
    real.append((Py, -sg.y[1, 0] / slope, -sg.y[-1, 0] / slope))

print('f2 : library %.9f | ABCD with c+2*C1 %.9f | ABCD with 1/R only %.9f'
      % (px.f2(), f_true, f_rad))
print('F2 : library %.9f | ABCD with c+2*C1 %.9f | ABCD with 1/R only %.9f'
      % (px.F2(), F2_true, F2_rad))
for Py, f, F2 in real:
    print('   real ray Py=%-6g  f = %.9f   F2 = %.9f' % (Py, f, F2))

assert abs(px.f2() - f_true) < 1e-7 * f_true, \
    'f2 %.6f differs from matrix optics %.6f (real-ray limit %.6f)' \
    % (px.f2(), f_true, real[-1][1])
assert abs(px.F2() - F2_true) < 1e-6

"""C03 defect 2: a field vignetting factor v is applied two or three times.
The pupil is compressed by (1-v)^3 in Optic.trace(<named distribution>), by
(1-v)^2 in Optic.trace(<Distribution instance>) and Optic.trace_generic, where
the documented meaning of a vignetting factor is a compression by (1-v).  The
same request therefore gives three different rays along three API paths.

Run:  PYTHONPATH=/tmp/hunt/C03 /venv/bin/python demo.py
"""
import sys
import warnings
import numpy as np
from optiland.samples.objectives import CookeTriplet
from optiland.distribution import RingDistribution

warnings.filterwarnings('ignore')

V = 0.5     # vignetting factor given to every field  -> pupil scale 1-V = 0.5
WL = 0.55

lens = CookeTriplet()              # infinite object, angle fields, EPD = 10
for f in lens.fields.fields:
    f.vx = V
    f.vy = V
sg = lens.surface_group
EPD = lens.paraxial.EPD()
EPL = lens.paraxial.EPL()
vx, vy = lens.fields.get_vig_factor(0.0, 1.0)
assert abs(vx - V) < 1e-12 and abs(vy - V) < 1e-12


def aim_point():
    """Own propagation of the launch record (object-surface record) to the
    entrance pupil plane, in units of the pupil semi-diameter."""
    t = (EPL - sg.z[0]) / sg.N[0]
    return ((sg.x[0] + t * sg.L[0]) / (EPD / 2),
            (sg.y[0] + t * sg.M[0]) / (EPD / 2))


# unit-radius ring of 4 points: (1,0) (0,1) (-1,0) (0,-1)
ring = RingDistribution()
ring.generate_points(4)
ref = np.hypot(ring.x, ring.y)
assert np.allclose(ref, 1.0)

results = {}
lens.trace(0.0, 1.0, WL, num_rays=4, distribution='ring')
results["trace(distribution='ring')"] = np.hypot(*aim_point())
lens.trace(0.0, 1.0, WL, num_rays=4, distribution=ring)
results['trace(distribution=RingDistribution instance)'] = \
    np.hypot(*aim_point())
lens.trace_generic(0.0, 1.0, ring.x.copy(), ring.y.copy(), WL)
results['trace_generic(Px, Py on unit ring)'] = np.hypot(*aim_point())

expected = 1.0 - V
print(f'vignetting factor v = {V}: requested pupil radius 1 must be aimed at '
      f'normalised pupil radius 1-v = {expected}')
bad = 0
for name, r in results.items():
    ok = np.allclose(r, expected, rtol=1e-9)
    bad += not ok
    print(f"  [{'ok  ' if ok else 'FAIL'}] {name}: observed radius "
          f'{np.round(r, 6)}  expected {expected}  '
          f'(= (1-v)^{np.log(r[0]) / np.log(expected):.0f})')

vals = [r[0] for r in results.values()]
consistent = np.allclose(vals, vals[0])
print(f"  [{'ok  ' if consistent else 'FAIL'}] the three API paths agree: "
      f'{np.round(vals, 6)}')

if bad or not consistent:
    print('\ndefect demonstrated')
    sys.exit(1)
print('\nall checks passed')

"""C17 demo 1: polarization matrices are accumulated in the LOCAL frame of each
surface, so any tilted surface (rx/ry/rz != 0) corrupts the polarization trace.

Part A (uncoated lens, clause "the propagated field stays transverse to the ray"):
    singlet whose front surface is tilted by 0.2 rad (control: same lens, no tilt),
    20 deg x-field, arbitrary transverse input fields; E_out = rays.p @ E_in.
Part B (Fresnel-coated tilted plane-parallel plate, 30 deg):
    the p-polarised single-pass transmission must be Tp^2 = (1-Rp)^2 from the
    textbook Fresnel equations (own formula), the s-polarised one Ts^2.
"""
import sys
import numpy as np
from optiland.optic import Optic
from optiland.materials import IdealMaterial
from optiland.rays import create_polarization
from optiland.distribution import create_distribution

failures = []

# ---------------------------------------------------------------- part A
def tilted_singlet(tilt):
    lens = Optic()
    lens.add_surface(index=0, thickness=np.inf)
    lens.add_surface(index=1, radius=50, thickness=5,
                     material=IdealMaterial(n=1.5), is_stop=True, rx=tilt)
    lens.add_surface(index=2, radius=-50, thickness=45)
    lens.add_surface(index=3)
    lens.set_aperture('EPD', 10)
    lens.set_field_type('angle')
    lens.add_field(y=0)
    lens.add_field(y=20)
    lens.add_wavelength(0.55, is_primary=True)
    return lens


for tilt in (0.0, 0.2):
    lens = tilted_singlet(tilt)
    lens.set_polarization(create_polarization('H'))
    rays = lens.trace(1, 0, 0.55, num_rays=6, distribution='hexapolar')
    # launch directions of the very same rays (second path through the API)
    dist = create_distribution('hexapolar')
    dist.generate_points(6)
    r0 = lens.ray_generator.generate_rays(1, 0, dist.x, dist.y, 0.55)
    k_in = np.array([r0.L, r0.M, r0.N]).T
    k_out = np.array([rays.L, rays.M, rays.N]).T
    worst_k, worst_i = 0.0, 0.0
    # two independent input fields, built here, both transverse to k_in
    for a in (np.array([0.0, 1.0, 0.0]), np.array([0.0, 0.0, 1.0])):
        e0 = a - (k_in @ a)[:, None] * k_in
        e0 /= np.linalg.norm(e0, axis=1)[:, None]
        e1 = np.einsum('nij,nj->ni', rays.p, e0)      # propagated field
        worst_k = max(worst_k, np.abs(np.sum(e1 * k_out, axis=1)).max())
        worst_i = max(worst_i,
                      np.abs(np.sum(np.abs(e1)**2, axis=1) - 1).max())
    print(f'[A] uncoated singlet, front surface rx={tilt}: max|E.k| = '
          f'{worst_k:.3e} (expected 0), max|I-1| = {worst_i:.1e}')
    if tilt == 0.0:
        assert worst_k < 1e-12, 'control (untilted) should be clean'
    elif worst_k > 1e-9:
        failures.append(f'A: tilted uncoated lens, field not transverse, '
                        f'max|E.k|={worst_k:.3e}')

# ---------------------------------------------------------------- part B
n = 1.5
tilt = np.radians(30.0)
plate = Optic()
plate.add_surface(index=0, thickness=np.inf)
plate.add_surface(index=1, thickness=10, is_stop=True)
plate.add_surface(index=2, thickness=3, material=IdealMaterial(n=n), rx=tilt)
plate.add_surface(index=3, thickness=20, rx=tilt)
plate.add_surface(index=4)
plate.set_aperture('EPD', 1.0)
plate.set_field_type('angle')
plate.add_field(y=0)
plate.add_wavelength(0.55, is_primary=True)
plate.surface_group.surfaces[2].set_fresnel_coating()
plate.surface_group.surfaces[3].set_fresnel_coating()

ci = np.cos(tilt)
ct = np.sqrt(1 - (np.sin(tilt) / n)**2)
Rs = ((ci - n * ct) / (ci + n * ct))**2
Rp = ((n * ci - ct) / (n * ci + ct))**2
# plate tilted about x: plane of incidence is y-z, so H (=x) is s, V (=y) is p
expected = {'H': (1 - Rs)**2, 'V': (1 - Rp)**2}
expected['unpolarized'] = 0.5 * (expected['H'] + expected['V'])
for name, exp in expected.items():
    plate.set_polarization(create_polarization(name))
    rays = plate.trace(0, 0, 0.55, num_rays=1, distribution='hexapolar')
    got = float(rays.i[0])
    print(f'[B] Fresnel plate tilted 30 deg, {name}: library I = {got:.9f}, '
          f'Fresnel formula = {exp:.9f}, diff = {got - exp:+.3e}')
    if abs(got - exp) > 1e-9:
        failures.append(f'B/{name}: I={got:.9f} expected {exp:.9f}')

if failures:
    print('FAIL:')
    for f in failures:
        print('  ', f)
    sys.exit(1)
print('OK')

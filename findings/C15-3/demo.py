"""C15 defect 3: a radius perturbation on a flat surface is not undone by reset().

Optic.set_radius turns a Plane into StandardGeometry(radius=value); resetting to
the nominal value (inf) leaves StandardGeometry(radius=inf) behind, whose
ray/surface intersection evaluates inf - inf = NaN.  Every real-ray operand of
the "restored" lens is NaN, so
  (a) the lens is not back at nominal after run()/reset(), and
  (b) in a one-at-a-time run all trials of the FOLLOWING perturbations are NaN
      although the same perturbation on a fresh nominal lens is perfectly fine.
"""
import warnings
import numpy as np
from optiland import optic
from optiland.tolerancing.core import Tolerancing
from optiland.tolerancing.sensitivity_analysis import SensitivityAnalysis
from optiland.tolerancing.perturbation import RangeSampler

warnings.filterwarnings('ignore')


def make_lens(t1=7.0):
    """Plano-convex singlet (Edmund 49-847), built from scratch."""
    lens = optic.Optic()
    lens.add_surface(index=0, radius=np.inf, thickness=np.inf)
    lens.add_surface(index=1, thickness=t1, radius=19.93, is_stop=True,
                     material='N-SF11')
    lens.add_surface(index=2, thickness=21.48)          # flat rear surface
    lens.add_surface(index=3)
    lens.set_aperture(aperture_type='EPD', value=25.4)
    lens.set_field_type(field_type='angle')
    lens.add_field(y=0)
    lens.add_field(y=10)
    lens.add_wavelength(value=0.5875618, is_primary=True)
    return lens


def my_operands(lens):
    lens.trace(0, 0, 0.5875618, 5, 'hexapolar')
    x = lens.surface_group.x[-1].ravel()
    y = lens.surface_group.y[-1].ravel()
    rms = float(np.sqrt(np.mean((x - x.mean())**2 + (y - y.mean())**2)))
    lens.trace_generic(0, 1, 0, 0, 0.5875618)
    return np.array([rms, float(lens.surface_group.y[-1, 0])])


lens = make_lens()
nominal = my_operands(make_lens())
tol = Tolerancing(lens)
tol.add_operand('rms_spot_size', dict(optic=lens, surface_number=-1, Hx=0,
                                      Hy=0, num_rays=5, wavelength=0.5875618,
                                      distribution='hexapolar'))
tol.add_operand('real_y_intercept', dict(optic=lens, surface_number=-1, Hx=0,
                                         Hy=1, Px=0, Py=0,
                                         wavelength=0.5875618))
# flatness tolerance of the plano side: |R| >= 2 m, then centre thickness
tol.add_perturbation('radius', RangeSampler(-2000., 2000., 2),
                     surface_number=2)
tol.add_perturbation('thickness', RangeSampler(6.9, 7.1, 3), surface_number=1)

sa = SensitivityAnalysis(tol)
sa.run()
df = sa.get_results()
print(df.to_string())
cols = sa.operand_names

failures = []
print('\n(b) thickness trials vs. fresh lens built with that thickness')
for _, row in df[df.perturbation_type.str.startswith('Thickness')].iterrows():
    exp = my_operands(make_lens(t1=row.perturbation_value))
    got = row[cols].to_numpy(float)
    print('    t1 = %.3f recorded %s expected %s' %
          (row.perturbation_value, got, exp))
    if not np.allclose(got, exp, rtol=1e-9, atol=0, equal_nan=False):
        failures.append('(b) thickness trial t1=%.3f recorded %s, expected %s'
                        % (row.perturbation_value, got, exp))

tol.reset()
after = my_operands(lens)
geo = type(lens.surface_group.surfaces[2].geometry).__name__
print('\n(a) after run()+reset(): surface 2 geometry = %s, radius = %s' %
      (geo, lens.surface_group.radii[2]))
print('    operands after :', after)
print('    operands nominal:', nominal)
if not np.allclose(after, nominal, rtol=1e-9, atol=0):
    failures.append('(a) operands of the restored lens are %s, nominal %s'
                    % (after, nominal))

print()
for f in failures:
    print('FAIL', f)
assert not failures, 'C15 violated: ' + '; '.join(failures)
print('OK')

"""C09 / 4 - OPDFan.view() overwrites the stored OPD fan with NaN.

After the fan has been displayed once, `fan.data` no longer holds the OPD of
the documented pupil samples: every sample whose ray was stopped by a physical
aperture has been replaced by NaN in the stored arrays.
"""
import sys
import copy
import numpy as np
import matplotlib
matplotlib.use('Agg')
from optiland.optic import Optic
from optiland.materials import IdealMaterial
from optiland.wavefront import OPDFan
from optiland.physical_apertures import RadialAperture

lens = Optic()
lens.add_surface(index=0, thickness=np.inf)
lens.add_surface(index=1, radius=50, thickness=5, material=IdealMaterial(1.5),
                 is_stop=True)
lens.add_surface(index=2, radius=-60, thickness=90,
                 aperture=RadialAperture(r_max=4.0))   # clips the beam edge
lens.add_surface(index=3)
lens.set_aperture('EPD', 10)
lens.set_field_type('angle')
lens.add_field(0.0)
lens.add_field(5.0)
lens.add_wavelength(0.55, is_primary=True)

fan = OPDFan(lens, num_rays=11)
before = copy.deepcopy(fan.data)
fan.view()
bad = False
for i in range(len(before)):
    for j in range(len(before[i])):
        b, a = before[i][j][0], fan.data[i][j][0]
        if not np.array_equal(a, b):
            bad = True
            k = np.flatnonzero(~(a == b))
            print(f'field {i} wavelength {j}: stored OPD changed by view() at '
                  f'samples {k.tolist()}: before {b[k]}, after {a[k]}')
if bad:
    print('VIOLATED: the stored OPD fan is not the OPD of its pupil samples '
          'any more (state corrupted by a display call)')
    sys.exit(1)
print('property holds')
sys.exit(0)

"""C16 / 2 - rays are extinguished at a surface that coincides with the
previous one (zero thickness), although no aperture, coating or absorbing
medium is present."""
import sys
import warnings
import numpy as np

warnings.filterwarnings('ignore')
from optiland.optic import Optic
from optiland.materials import IdealMaterial

WL = 0.55


def finish(o):
    o.set_aperture('EPD', 10)
    o.set_field_type('angle')
    o.add_field(0)
    o.add_field(7)
    o.add_wavelength(WL, is_primary=True)
    return o


def contact_doublet(gap):
    """crown + flint with equal inner radii and an air gap `gap` between."""
    o = Optic()
    o.add_surface(index=0, thickness=np.inf)
    o.add_surface(index=1, radius=60, thickness=4, is_stop=True,
                  material=IdealMaterial(1.5))
    o.add_surface(index=2, radius=-40, thickness=gap)            # air
    o.add_surface(index=3, radius=-40, thickness=2,
                  material=IdealMaterial(1.62))
    o.add_surface(index=4, radius=-200, thickness=80)
    o.add_surface(index=5)
    return finish(o)


def tilted_plate_with_stop(gap):
    """stop lying on the front face of a tilted plane plate."""
    o = Optic()
    o.add_surface(index=0, thickness=np.inf)
    o.add_surface(index=1, thickness=gap, is_stop=True, rx=0.1)
    o.add_surface(index=2, thickness=3, rx=0.1,
                  material=IdealMaterial(1.5))
    o.add_surface(index=3, radius=-30, thickness=58)
    o.add_surface(index=4)
    return finish(o)


bad = False
for name, make in [('contact doublet, R = -40 / -40', contact_doublet),
                   ('stop on tilted plate face', tilted_plate_with_stop)]:
    for gap in (1e-6, 0.0):
        o = make(gap)
        for Hy in (0.0, 1.0):
            rays = o.trace(0.0, Hy, WL, num_rays=6, distribution='hexapolar')
            inten = o.surface_group.intensity
            n = inten.shape[1]
            # no aperture, no coating, k = 0 everywhere, every ray height is
            # far below |R|: the statement allows nothing but intensity 1
            lost = [int(np.sum(row != 1.0)) for row in inten]
            ok = not any(lost)
            print(f'{name:32s} gap={gap:g} Hy={Hy:g}: rays with intensity '
                  f'!= 1 per surface {lost} of {n}; expected all 0'
                  f'  -> {"ok" if ok else "VIOLATED"}')
            if not ok:
                k = int(np.argmax(np.array(lost) > 0))
                j = int(np.argmax(inten[k] != 1.0))
                print(f'    e.g. ray {j}: intensity along the path '
                      f'{inten[:, j]}, expected all 1.0; height on surface '
                      f'{k - 1}: {np.hypot(o.surface_group.x[k-1, j], o.surface_group.y[k-1, j]):.3f} mm')
            bad |= not ok

sys.exit(1 if bad else 0)

"""C07 / 3 - a decentred surface makes the focal length (and everything derived
from it) depend on the absolute size of "1 lens unit": scaling the whole
prescription by s does not scale f, EPD or the real rays by s.

Singlet R1 = +40, 6 mm of n = 1.7, R2 = -30, image 30 mm behind; the rear
surface is decentred by dy = 0.5 mm (no tilt).  Aperture: image-space F/4.
Every length of the prescription (radii, thicknesses, decentre) is multiplied
by s, by hand and with Optic.scale_system.

Reference: own y-nu trace.  The focal length is a derivative (-dy_in/du_out);
a lateral shift of a spherical refracting surface adds a constant deviation
to every ray but does not change that derivative, so f is that of the
centred lens, 25.3858 mm * s.
"""
import sys
import warnings
import numpy as np
from optiland.optic import Optic
from optiland.materials import IdealMaterial

warnings.simplefilter('ignore')
N_G, R1, T1, R2, T2, DY, FNO = 1.7, 40.0, 6.0, -30.0, 30.0, 0.5, 4.0


def lens(s=1.0, dy=DY):
    o = Optic()
    o.add_surface(index=0, thickness=np.inf)
    o.add_surface(index=1, radius=R1 * s, thickness=T1 * s,
                  material=IdealMaterial(N_G), is_stop=True)
    o.add_surface(index=2, radius=R2 * s, thickness=T2 * s, dy=dy * s)
    o.add_surface(index=3)
    o.set_aperture('imageFNO', FNO)
    o.set_field_type('angle')
    o.add_field(0)
    o.add_field(5)
    o.add_wavelength(0.55, is_primary=True)
    return o


def ynu_focal_length(s, dy):
    """own paraxial trace of two rays; f = -(y_a - y_b) / (u_a' - u_b')"""
    out = []
    for y in (1.0 * s, 0.0):
        u = 0.0
        # surface 1 (centred)
        u = (1.0 * u - y * (N_G - 1.0) / (R1 * s)) / N_G
        y = y + u * T1 * s
        # surface 2, axis shifted to y = dy * s
        u = (N_G * u - (y - dy * s) * (1.0 - N_G) / (R2 * s)) / 1.0
        out.append(u)
    return -(1.0 * s - 0.0) / (out[0] - out[1])


bad = False
f1_ref = ynu_focal_length(1.0, DY)
print('own y-nu trace: f = %.6f mm (decentred), %.6f mm (centred)'
      % (f1_ref, ynu_focal_length(1.0, 0.0)))
print('%8s %14s %14s %14s %16s %16s' % ('s', 'f2 expected', 'f2 library',
                                       'f2 scale_system', 'x@S1 expected',
                                       'x@S1 library'))
for s in (0.01, 0.1, 1.0, 3.0, 10.0, 100.0):
    f_ref = ynu_focal_length(s, DY)          # = s * f1_ref
    o = lens(s)
    f_lib = float(o.paraxial.f2())
    o2 = lens(1.0)
    o2.scale_system(s)
    f_ss = float(o2.paraxial.f2())
    # sagittal marginal real ray, on axis: it is launched at x = EPD/2 =
    # f/(2 F#) and hits the first surface at that height (collimated input)
    o.trace_generic(0.0, 0.0, 1.0, 0.0, 0.55)
    x_lib = float(o.surface_group.x[1, 0])
    x_ref = f_ref / (2 * FNO)
    ok = (abs(f_lib - f_ref) < 1e-9 * abs(f_ref)
          and abs(f_ss - f_ref) < 1e-9 * abs(f_ref)
          and abs(x_lib - x_ref) < 1e-9 * abs(x_ref))
    print('%8g %14.6f %14.6f %14.6f %16.6f %16.6f   %s'
          % (s, f_ref, f_lib, f_ss, x_ref, x_lib,
             'ok' if ok else 'VIOLATION'))
    bad |= not ok
print('library f2/s should be constant (%.6f); see the column above divided '
      'by s' % f1_ref)
sys.exit(1 if bad else 0)

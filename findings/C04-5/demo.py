"""C04 defect 5: Paraxial.trace(Hy, Py, w) launches the wrong rays.

Paraxial.trace() is the public "field / pupil coordinate" entry to the
paraxial trace.  By linearity trace(Hy=0, Py=1) must reproduce
marginal_ray() and trace(Hy=1, Py=0) must reproduce chief_ray().  It does for
some configurations, but

 (a) object at infinity and entrance pupil at the first surface (EPL == 0,
     e.g. the stop on surface 1 - the most common layout): every ray is NaN,
     because the launch plane coincides with the entrance pupil and the launch
     slope is formed as 0/0;
 (b) finite object distance with field_type == 'angle': the marginal ray is
     launched parallel to the axis from height EPD/2 AT THE OBJECT PLANE and
     the chief ray leaves the object from height tan(field) (not
     tan(field) * distance), so neither agrees with marginal_ray() /
     chief_ray() nor with an independent ABCD trace.

Run:  PYTHONPATH=/tmp/hunt/C04 /venv/bin/python demo.py
"""
import numpy as np
from optiland.optic import Optic
from optiland.materials import IdealMaterial

R1, R2, T, N, BFD, EPD, FLD, W = 50.0, -50.0, 5.0, 1.5, 45.0, 10.0, 5.0, 0.55


def build(obj_t, stop):
    o = Optic()
    o.add_surface(index=0, thickness=obj_t)
    o.add_surface(index=1, radius=R1, thickness=T, material=IdealMaterial(N),
                  is_stop=(stop == 1))
    o.add_surface(index=2, radius=R2, thickness=BFD, is_stop=(stop == 2))
    o.add_surface(index=3)
    o.set_aperture('EPD', EPD)
    o.set_field_type('angle')
    o.add_field(y=0)
    o.add_field(y=FLD)
    o.add_wavelength(W, is_primary=True)
    return o


def own_trace(y1, u0):
    """independent y-nu trace; returns heights at surf 1, 2, image"""
    nu = u0 - y1 * (N - 1) / R1
    y2 = y1 + T * nu / N
    nu2 = nu - y2 * (1 - N) / R2
    return np.array([y1, y2, y2 + BFD * nu2])


def via_trace(o, Hy, Py):
    o.paraxial.trace(Hy, Py, W)
    return o.surface_group.y.ravel().copy(), o.surface_group.u.ravel().copy()


fails = []


def compare(label, got, exp):
    ok = np.allclose(got, exp, rtol=1e-9, atol=1e-12)
    print('  %-34s %s' % (label, 'ok' if ok else 'MISMATCH'))
    print('      trace()      :', np.array2string(got, precision=6))
    print('      expected     :', np.array2string(exp, precision=6))
    if not ok:
        fails.append(label)


# ---- control: object at infinity, stop on surface 2 -> works -----------
o = build(np.inf, stop=2)
ya, ua = o.paraxial.marginal_ray()
y, u = via_trace(o, 0.0, 1.0)
print('control: infinite object, stop on surface 2 (EPL = %.4f)'
      % o.paraxial.EPL())
compare('marginal y (surf 1..img)', y[1:], ya.ravel()[1:])

# ---- (a) object at infinity, stop on surface 1 --------------------------
o = build(np.inf, stop=1)
print('(a) infinite object, stop on surface 1 (EPL = %.4f)' % o.paraxial.EPL())
ya, ua = o.paraxial.marginal_ray()
yb, ub = o.paraxial.chief_ray()
y, u = via_trace(o, 0.0, 1.0)
compare('marginal y vs marginal_ray()', y[1:], ya.ravel()[1:])
compare('marginal y vs own ABCD', y[1:], own_trace(EPD / 2, 0.0))
y, u = via_trace(o, 1.0, 0.0)
compare('chief y vs chief_ray()', y[1:], yb.ravel()[1:])
compare('chief y vs own ABCD', y[1:],
        own_trace(0.0, np.tan(np.deg2rad(FLD))))

# ---- (b) finite object, angle fields ------------------------------------
S = 200.0
o = build(S, stop=2)
epl = o.paraxial.EPL()
print('(b) object at %g, field_type "angle", stop on surface 2 (EPL = %.4f)'
      % (S, epl))
ya, ua = o.paraxial.marginal_ray()
yb, ub = o.paraxial.chief_ray()
y, u = via_trace(o, 0.0, 1.0)
print('      marginal ray at the object plane: y0 = %.4f, u0 = %.6f '
      '(should be y0 = 0, u0 = %.6f)' % (y[0], u[0], EPD / 2 / (S + epl)))
compare('marginal y vs marginal_ray()', y[1:], ya.ravel()[1:])
u_m = EPD / 2 / (S + epl)
compare('marginal y vs own ABCD', y[1:], own_trace(S * u_m, u_m))
y, u = via_trace(o, 1.0, 0.0)
compare('chief y vs chief_ray()', y[1:], yb.ravel()[1:])
u_c = np.tan(np.deg2rad(FLD))
compare('chief y vs own ABCD', y[1:], own_trace(-epl * u_c, u_c))

assert not fails, 'Paraxial.trace disagrees: %s' % fails

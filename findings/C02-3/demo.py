"""C02 defect 3: the "Newton-Raphson" intersection of sag-defined surfaces is a
fixed-point iteration that diverges (or stalls) for steep rays on steep
surfaces; after max_iter it silently returns a finite point that is NOT on the
surface.

A steep even asphere (slope ~1.2 at the rim) is traced at a 40 deg field.  The
rays of the lower pupil half travel towards +y while the surface rises towards
-y: incidence angle only ~10 deg, a perfectly benign refraction.
The independent reference is a bracketing root finder (brentq) applied to
f(t) = z(t) - geometry.sag(x(t), y(t)), i.e. the library's own sag.
"""
import sys
import warnings
import numpy as np
from scipy.optimize import brentq
from optiland.optic import Optic
from optiland.materials import IdealMaterial

warnings.simplefilter('ignore')
WL = 0.55

o = Optic()
o.add_surface(index=0, radius=np.inf, thickness=np.inf)
o.add_surface(index=1, surface_type='even_asphere', radius=10.0, conic=-1.0,
              coefficients=[0.0, 2e-4], thickness=8,
              material=IdealMaterial(n=1.5), is_stop=True)
o.add_surface(index=2, radius=np.inf, thickness=10)
o.add_surface(index=3)
o.set_aperture('EPD', 24)
o.set_field_type('angle')
o.add_field(y=0)
o.add_field(y=40)
o.add_wavelength(WL, is_primary=True)

Py = np.linspace(-1.0, 0.0, 11)
o.trace_generic(0.0, 1.0, np.zeros_like(Py), Py, WL)
s0, s1 = o.surface_group.surfaces[0], o.surface_group.surfaces[1]
g = s1.geometry


def first_hit(p0, d):
    f = lambda t: (p0[2] + t * d[2]) - float(g.sag(np.array([p0[0] + t * d[0]]),
                                                   np.array([p0[1] + t * d[1]]))[0])
    ts = np.linspace(0, 80, 8001)
    fs = np.array([f(t) for t in ts])
    j = np.where(np.sign(fs[:-1]) * np.sign(fs[1:]) < 0)[0][0]
    t = brentq(f, ts[j], ts[j + 1], xtol=1e-14, rtol=1e-15)
    return p0 + t * d


print(f'{"Py":>5} {"library (y, z)":>26} {"independent (y, z)":>26} {"|dP| mm":>10}'
      f' {"z-sag(lib)":>11} {"slope*tan":>9}')
worst = 0.0
for i in range(Py.size):
    p0 = np.array([s0.x[i], s0.y[i], s0.z[i]])
    d = np.array([s0.L[i], s0.M[i], s0.N[i]])
    ref = first_hit(p0, d)
    lib = np.array([s1.x[i], s1.y[i], s1.z[i]])
    off = lib[2] - float(g.sag(np.array([lib[0]]), np.array([lib[1]]))[0])
    r = abs(ref[1])
    rate = (r / 10.0 + 8e-4 * r**3) * abs(d[1] / d[2])
    err = np.linalg.norm(lib - ref)
    worst = max(worst, err)
    print(f'{Py[i]:5.1f} ({lib[1]:11.6f},{lib[2]:11.6f}) ({ref[1]:11.6f},{ref[2]:11.6f})'
          f' {err:10.2e} {off:11.2e} {rate:9.3f}')

print(f'\nworst distance between recorded and true intersection: {worst:.3e} mm'
      f' (solver tolerance of this surface: {g.tol:g} mm)')
if worst > 10 * g.tol:
    print('FAIL: finite intersection points that do not lie on the prescribed asphere')
    sys.exit(1)
print('PASS')

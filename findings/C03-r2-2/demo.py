"""C03 / 2 - Paraxial.trace(Hy, Py, wl) launches the ray from the object point
-Hy x max_field (finite object, object-height fields) instead of +Hy x max_field.
"""
import sys
import warnings
import numpy as np

warnings.simplefilter('ignore')
from optiland import optic  # noqa: E402

WL = 0.5876
T_OBJ, R1, T1, R2, T2, T3 = 100.0, 50.0, 5.0, -80.0, 20.0, 60.0
Y_MAX = 0.2      # small object, so the real ray is paraxial too

o = optic.Optic()
o.add_surface(index=0, thickness=T_OBJ)
o.add_surface(index=1, radius=R1, thickness=T1, material='N-BK7')
o.add_surface(index=2, radius=R2, thickness=T2, is_stop=True)
o.add_surface(index=3, thickness=T3)
o.add_surface(index=4)
o.set_aperture('EPD', 1.0)
o.set_field_type('object_height')
o.add_field(y=0)
o.add_field(y=Y_MAX)
o.add_wavelength(WL, is_primary=True)
n = float(o.surface_group.surfaces[1].material_post.n(WL))


# ---- independent y-nu trace (object -> image) --------------------------------
def ynu(y, u):
    ys = [y]
    y = y + T_OBJ * u
    ys.append(y)
    u = (u - y * (n - 1) / R1) / n
    y = y + T1 * u
    ys.append(y)
    u = n * u - y * (1 - n) / R2
    y = y + T2 * u
    ys.append(y)
    y = y + T3 * u
    ys.append(y)
    return np.array(ys)


# entrance pupil: image of the stop (surface 2) through surface 1
def to_stop(y, u):
    u = (u - y * (n - 1) / R1) / n
    return y + T1 * u


EPL = to_stop(0.0, 1.0) / to_stop(1.0, 0.0)   # relative to surface 1 (z = 0)
Hy, Py = 1.0, 0.5
y_obj = Hy * Y_MAX                    # statement: start at height Hy x max field
y_pupil = Py * 1.0 / 2
u0 = (y_pupil - y_obj) / (EPL + T_OBJ)
ref = ynu(y_obj, u0)

o.paraxial.trace(Hy, Py, WL)
lib = o.surface_group.y.ravel().copy()

print('surface heights of the paraxial ray Hy=+1, Py=+0.5')
print('  library   :', np.array2string(lib, precision=6))
print('  reference :', np.array2string(ref, precision=6))

fail = False
if abs(lib[0] - y_obj) > 1e-9:
    print(f'VIOLATION: ray starts at object height {lib[0]:+.6f}, expected '
          f'Hy x max_field = {y_obj:+.6f}')
    fail = True
if abs(lib[-1] - ref[-1]) > 1e-9:
    print(f'VIOLATION: paraxial image height {lib[-1]:+.6f}, expected '
          f'{ref[-1]:+.6f}')
    fail = True

# for information: the real ray requested with the same (Hy, Py)
o.trace_generic(0.0, Hy, 0.0, Py, WL)
print('  real ray  :', np.array2string(o.surface_group.y.ravel(), precision=6),
      '(library real trace, same Hy, Py)')
sys.exit(1 if fail else 0)

"""C19 defect 4: EvenAsphere.to_dict hands out its live coefficient container.
 (a) the dictionary is not a snapshot: it (and any lens rebuilt from it)
     shares the coefficient list with the original lens;
 (b) numpy coefficients make the lens unsaveable."""
import copy
import json
import os
import sys
import tempfile
import numpy as np
from optiland.optic import Optic
from optiland.materials import IdealMaterial
from optiland.fileio import save_optiland_file, load_optiland_file

N, R1, T, BFD = 1.5, 40.0, 6.0, 70.0
COEFFS = [2.0e-5, -3.0e-8, 1.0e-10]


def build(coeffs):
    lens = Optic()
    lens.add_surface(index=0, thickness=np.inf)
    lens.add_surface(index=1, surface_type='even_asphere', radius=R1,
                     conic=-0.5, coefficients=coeffs, thickness=T,
                     is_stop=True, material=IdealMaterial(N))
    lens.add_surface(index=2, thickness=BFD)
    lens.add_surface(index=3)
    lens.set_aperture('EPD', 20)
    lens.set_field_type('angle')
    lens.add_field(0)
    lens.add_wavelength(0.55, is_primary=True)
    return lens


def own_marginal_height(coeffs, h=10.0):
    """Independent exact trace of the ray (y=h, parallel to the axis) through
    asphere + plane back face to the image plane; returns image height."""
    k = -0.5

    def sag(y):
        z = y**2 / (R1 * (1 + np.sqrt(1 - (1 + k) * y**2 / R1**2)))
        return z + sum(c * y**(2 * (i + 1)) for i, c in enumerate(coeffs))

    def dsag(y):
        s = y / (R1 * np.sqrt(1 - (1 + k) * y**2 / R1**2))
        return s + sum(2 * (i + 1) * c * y**(2 * i + 1)
                       for i, c in enumerate(coeffs))
    z1 = sag(h)
    theta_n = np.arctan(dsag(h))          # normal angle w.r.t. axis
    theta_r = np.arcsin(np.sin(theta_n) / N)
    slope = -np.tan(theta_n - theta_r)    # ray slope in glass
    y2 = h + slope * (T - z1)             # plane back face at z = T
    ang = np.arcsin(N * np.sin(np.arctan(slope)))
    return y2 + np.tan(ang) * BFD


def image_height(lens):
    r = lens.trace_generic(0.0, 0.0, 0.0, 1.0, 0.55)
    return float(r.y[0])


failures = []

# ---------------- (a) the dictionary is not a snapshot -------------------
lens = build(list(COEFFS))
y_formula = own_marginal_height(COEFFS)
y_before = image_height(lens)
print(f'marginal ray image height, own trace : {y_formula:.9f}')
print(f'marginal ray image height, lens      : {y_before:.9f}')
assert abs(y_before - y_formula) < 1e-6

saved = lens.to_dict()                      # "save"
saved_text = json.dumps(saved, sort_keys=True)
lens.set_asphere_coeff(0.0, 1, 0)           # keep working on the lens
lens.set_asphere_coeff(0.0, 1, 1)
if json.dumps(saved, sort_keys=True) != saved_text:
    failures.append('the dictionary returned by to_dict() changed when the '
                    'lens was edited afterwards: coefficients now '
                    f"{saved['surface_group']['surfaces'][1]['geometry']['coefficients']}"
                    f' (saved {COEFFS})')
restored = Optic.from_dict(saved)           # "load the saved state"
y_restored = image_height(restored)
print(f'image height of lens restored from the saved dict: {y_restored:.9f}')
if abs(y_restored - y_formula) > 1e-9:
    failures.append(f'lens restored from saved dict has image height '
                    f'{y_restored:.9f}, expected {y_formula:.9f} '
                    f'(deviation {abs(y_restored - y_formula):.3e})')

# editing a reloaded copy must not touch the original
lens = build(list(COEFFS))
clone = Optic.from_dict(lens.to_dict())
clone.set_asphere_coeff(5.0e-5, 1, 0)
y_after = image_height(lens)
print(f'original lens after editing its from_dict clone  : {y_after:.9f}')
if abs(y_after - y_formula) > 1e-9:
    failures.append('editing the reloaded copy changed the original lens: '
                    f'image height {y_after:.9f}, expected {y_formula:.9f}')

# ---------------- (b) numpy coefficients cannot be saved -----------------
lens = build(np.array(COEFFS))
assert abs(image_height(lens) - y_formula) < 1e-6
fn = os.path.join(tempfile.mkdtemp(), 'lens.json')
try:
    save_optiland_file(lens, fn)
    y_json = image_height(load_optiland_file(fn))
    if abs(y_json - y_formula) > 1e-9:
        failures.append(f'json reload image height {y_json}')
except Exception as e:
    failures.append('lens with numpy asphere coefficients: save/load raised '
                    f'{type(e).__name__}: {e}')

if failures:
    print(f'\nEXPECTED: every reload gives image height {y_formula:.9f}; '
          'dict is an independent snapshot; numpy coefficients saveable')
    print('OBSERVED:')
    for f in failures:
        print('  -', f)
    sys.exit(1)
print('OK')

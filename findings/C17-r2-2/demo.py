"""C17 / 2 - Fresnel transmission through the polarization trace is |t|^2, not
the power transmittance T = (n2 cos(theta_t) / (n1 cos(theta_i))) |t|^2:
R + T != 1 and a bare singlet "transmits" more than 100 %.

Two checks against independent formulas:
 A. one flat air -> glass interface, detector inside the glass, normal
    incidence:  T = 1 - ((n-1)/(n+1))^2.
 B. biconvex singlet in air, 10 deg field, pupil filled: an own vector ray
    trace (sphere intersection, Snell, s/p decomposition, T_s = 1 - r_s^2,
    T_p = 1 - r_p^2) gives the power carried by each ray; it can never exceed 1.
"""
import sys
import warnings
import numpy as np
from optiland.optic import Optic
from optiland.materials import IdealMaterial
from optiland.rays import create_polarization, PolarizationState

warnings.filterwarnings('ignore')
bad = False

# ---------------------------------------------------------------- check A
for n in (1.5, 2.0, 4.0):
    o = Optic()
    o.add_surface(index=0, thickness=np.inf)
    o.add_surface(index=1, thickness=10, is_stop=True,
                  material=IdealMaterial(n=n), coating='fresnel')
    o.add_surface(index=2, material=IdealMaterial(n=n))   # detector in glass
    o.set_aperture('EPD', 5)
    o.set_field_type('angle')
    o.add_field(y=0)
    o.add_wavelength(0.55, is_primary=True)
    o.set_polarization(create_polarization('unpolarized'))
    got = float(o.trace(0, 0, 0.55, num_rays=1, distribution='line_y').i[0])
    R = ((n - 1) / (n + 1))**2
    ok = abs(got - (1 - R)) < 1e-9
    print(f'A  n={n}: transmitted intensity {got:.6f}   expected T = 1 - R = '
          f'{1 - R:.6f}   (R + got = {R + got:.6f})  '
          f'{"ok" if ok else "VIOLATION"}')
    bad |= not ok


# ---------------------------------------------------------------- check B
def hit(o, d, zv, R):
    c = np.array([0., 0., zv + R])
    oc = o - c
    b = oc @ d
    sq = np.sqrt(b * b - (oc @ oc - R * R))
    pts = [o + t * d for t in (-b - sq, -b + sq)]
    p = min(pts, key=lambda q: abs(q[2] - zv))
    return p, (p - c) / R


def reference_power(o, d, E, surfaces):
    for zv, R, n1, n2 in surfaces:
        p, nrm = hit(o, d, zv, R)
        if d @ nrm < 0:
            nrm = -nrm
        ci = d @ nrm
        u = n1 / n2
        ct = np.sqrt(1 - u * u * (1 - ci * ci))
        d1 = u * d + (ct - u * ci) * nrm
        s = np.cross(d, nrm)
        if np.linalg.norm(s) < 1e-14:
            s = np.cross(d, [1., 0., 0.])
        s /= np.linalg.norm(s)
        p0, p1 = np.cross(d, s), np.cross(d1, s)
        rs = (n1 * ci - n2 * ct) / (n1 * ci + n2 * ct)
        rp = (n2 * ci - n1 * ct) / (n2 * ci + n1 * ct)
        E = np.sqrt(1 - rs**2) * (E @ s) * s + np.sqrt(1 - rp**2) * (E @ p0) * p1
        o, d = p, d1
    return float(np.sum(np.abs(E)**2))


def launch(d, st):
    p = np.cross(d, [1., 0., 0.])
    p /= np.linalg.norm(p)
    s = np.cross(p, d)
    return st.Ex * np.exp(1j * st.phase_x) * s + st.Ey * np.exp(1j * st.phase_y) * p


n = 1.5
lens = Optic()
lens.add_surface(index=0, thickness=np.inf)
lens.add_surface(index=1, thickness=5, radius=50, is_stop=True,
                 material=IdealMaterial(n=n), coating='fresnel')
lens.add_surface(index=2, thickness=80, radius=-50, coating='fresnel')
lens.add_surface(index=3)
lens.set_aperture('EPD', 20)
lens.set_field_type('angle')
lens.add_field(y=0)
lens.add_field(y=10)
lens.add_wavelength(0.55, is_primary=True)
surfaces = [(0., 50., 1., n), (5., -50., n, 1.)]

states = {k: create_polarization(k) for k in ('H', 'V', 'RCP')}
states['arbitrary'] = PolarizationState(True, Ex=0.3, Ey=-0.8,
                                        phase_x=0.4, phase_y=2.0)
for name, st in states.items():
    lens.set_polarization(st)
    rays = lens.trace(0, 1, 0.55, num_rays=3, distribution='hexapolar')
    obj = lens.surface_group.surfaces[0]          # launch points / directions
    ref = np.array([
        reference_power(np.array([x, y, z]), np.array([L, M, N]),
                        launch(np.array([L, M, N]), st), surfaces)
        for x, y, z, L, M, N in zip(obj.x, obj.y, obj.z, obj.L, obj.M, obj.N)])
    dev = np.abs(rays.i - ref).max()
    ok = dev < 1e-9 and rays.i.max() <= 1 + 1e-12
    print(f'B  state {name:9s}: library intensity range '
          f'[{rays.i.min():.4f}, {rays.i.max():.4f}]   reference range '
          f'[{ref.min():.4f}, {ref.max():.4f}]   max |dev| = {dev:.4f}  '
          f'{"ok" if ok else "VIOLATION"}')
    bad |= not ok

sys.exit(1 if bad else 0)

"""C10 / 4 - ZernikeFit raises TypeError when the sample coordinates are given
as plain Python lists / tuples, although the arguments are documented as
"array-like" (z may be a list, x and y may not).

Data: z = 0.3 + 0.5*x + 0.7*(2*(x^2+y^2) - 1) on 60 well-spread points of the
unit disk, i.e. exactly 0.3*Z1 + 0.5*Z2 + 0.0*Z3 + 0.7*Z4 in the Fringe family
(Z1 = 1, Z2 = r cos(phi), Z4 = 2 r^2 - 1).  Fitting the first 4 Fringe terms
must return [0.3, 0.5, 0.0, 0.7] whatever container holds the numbers.
"""
import sys
import numpy as np
from optiland.zernike import ZernikeFit

rng = np.random.default_rng(3)
r = np.sqrt(rng.uniform(size=60))
t = rng.uniform(0, 2 * np.pi, size=60)
x = r * np.cos(t)
y = r * np.sin(t)
z = 0.3 + 0.5 * x + 0.7 * (2 * (x**2 + y**2) - 1)
expected = np.array([0.3, 0.5, 0.0, 0.7])

ok = True
forms = {
    'numpy arrays (control)': (x, y, z),
    'x, y arrays, z list': (x, y, list(z)),
    'python lists': (x.tolist(), y.tolist(), z.tolist()),
    'python tuples': (tuple(x.tolist()), tuple(y.tolist()),
                      tuple(z.tolist())),
}
for name, (xx, yy, zz) in forms.items():
    for ztype in ('fringe',):
        try:
            fit = ZernikeFit(xx, yy, zz, zernike_type=ztype, num_terms=4)
            got = np.asarray(fit.coeffs, dtype=float)
            err = np.max(np.abs(got - expected))
            status = 'ok' if err < 1e-9 else 'WRONG'
            print(f'{name:28s}: coeffs={np.round(got, 6)} '
                  f'expected={expected} max err={err:.1e} {status}')
            if err >= 1e-9:
                ok = False
        except Exception as exc:   # noqa
            print(f'{name:28s}: raised {type(exc).__name__}: {exc}   '
                  f'(expected coefficients {expected})')
            ok = False
print('PASS' if ok else 'VIOLATED')
sys.exit(0 if ok else 1)

"""C08 / 1 - longitudinal terms (SC, AC, PC, LchC) are divided by the marginal
slope AFTER the image surface, not by the slope in image space.

The image surface added with ``add_surface(index=N)`` gets material_post='air'.
When the last medium of the lens is not air (immersed image, solid lens, eye
model ...) the paraxial record of the image surface holds the slope refracted
into that fictitious air, u_air = n_img * u_img.  aberrations.py divides the
transverse terms by this slope, so every longitudinal term is too small by the
factor n_img.

Reference: own y-nu trace + real-ray axis crossing (small aperture).
Run: cd /tmp/hunt2/C08 && PYTHONPATH=/tmp/hunt2/C08 /venv/bin/python demo.py
"""
import sys
import warnings
import numpy as np
from optiland.optic import Optic
from optiland.materials import IdealMaterial

warnings.filterwarnings('ignore')

N_IMG = 1.336   # vitreous-like image medium


def build():
    """Reduced-eye-like lens: two refracting surfaces, image in n=1.336"""
    o = Optic()
    o.add_surface(index=0, radius=np.inf, thickness=np.inf)
    o.add_surface(index=1, radius=7.8, thickness=3.6,
                  material=IdealMaterial(1.376, 0), is_stop=True)
    o.add_surface(index=2, radius=10.0, thickness=4.0,
                  material=IdealMaterial(1.42, 0))
    o.add_surface(index=3, radius=-6.0, thickness=17.0,
                  material=IdealMaterial(N_IMG, 0))
    o.add_surface(index=4)            # image surface, default material
    o.set_aperture('EPD', 0.4)        # small aperture
    o.set_field_type('angle')
    o.add_field(y=0)
    o.add_field(y=5)
    o.add_wavelength(0.55, is_primary=True)
    o.image_solve()                   # image plane at the paraxial focus
    return o


def ynu(o):
    """independent y-nu marginal trace; returns slope in image space"""
    s = o.surface_group.surfaces
    z = [x.geometry.cs.z for x in s]
    n = [float(x.material_post.n(0.55)) for x in s]
    y, u = o.aperture.value / 2, 0.0
    for k in range(1, len(s) - 1):
        if k > 1:
            y = y + u * (z[k] - z[k - 1])
        c = 0.0 if np.isinf(s[k].geometry.radius) else 1 / s[k].geometry.radius
        u = (n[k - 1] * u - y * c * (n[k] - n[k - 1])) / n[k]
    return u   # slope with which the marginal ray arrives at the image


o = build()
u_img = ynu(o)
out = o.aberrations.third_order()
TSC, SC, CC, TCC, TAC, AC, TPC, PC, DC, TAchC, LchC, TchC, S = out
fail = False
print('marginal slope in image space (own y-nu trace): %.8f' % u_img)
print('slope the library divides by (ua[-1])         : %.8f'
      % o.paraxial.marginal_ray()[1][-1, 0])
for name, T, L in [('SC', TSC, SC), ('AC', TAC, AC), ('PC', TPC, PC)]:
    got = float(np.sum(np.ravel(np.array(L, dtype=float))))
    exp = float(-np.sum(T) / u_img)
    ok = abs(got - exp) <= 1e-6 * abs(exp)
    fail |= not ok
    print('%s sum: library %.8f   expected -sum(T)/u_img %.8f   ratio %.5f %s'
          % (name, got, exp, got / exp, '' if ok else '<-- VIOLATION'))

# real rays: axis crossing of the marginal ray, measured from the paraxial
# image plane, inside the image medium (ray state before the image surface)
o.trace_generic(0., 0., 0., 1.0, 0.55)
sg = o.surface_group
y, zz, M, Nn = sg.y[-2, 0], sg.z[-2, 0], sg.M[-2, 0], sg.N[-2, 0]
z_cross = zz - y * Nn / M
LA_real = z_cross - sg.positions[-1, 0]
got = float(np.sum(np.ravel(np.array(SC, dtype=float))))
print('real marginal-ray longitudinal error %.8f ; library sum(SC) %.8f ;'
      ' ratio %.4f (expected -> 1, observed ~ 1/n_img = %.4f)'
      % (LA_real, got, got / LA_real, 1 / N_IMG))
if abs(got / LA_real - 1) > 0.02:
    fail = True

sys.exit(1 if fail else 0)

"""C13 / 3 - RealRays.reflect / RealRays.refract overwrite the surface-normal
arrays passed in by the caller.

Run: cd /tmp/hunt2/C13 && PYTHONPATH=/tmp/hunt2/C13 /venv/bin/python demo.py
"""
import sys
import numpy as np
from optiland.rays import RealRays

bad = False


def check(label, method, N_dir):
    global bad
    # three rays travelling along +z (N_dir=+1) or -z (N_dir=-1)
    z = np.zeros(3)
    rays = RealRays(z, z, z, z, z, N_dir * np.ones(3), np.ones(3),
                    np.full(3, 0.55))
    # unit normals of a tilted facet, as a caller would keep them for re-use
    nx = np.array([0.0, 0.0, 0.0])
    ny = np.array([0.6, 0.6, 0.6])
    nz = np.array([-0.8, -0.8, -0.8])
    before = (nx.copy(), ny.copy(), nz.copy())
    if method == 'reflect':
        rays.reflect(nx, ny, nz)
        # independent reference: r = d - 2 (d.n) n, invariant to the sign of n
        d = np.array([0.0, 0.0, N_dir])
        n = np.array([0.0, 0.6, -0.8])
        r = d - 2 * np.dot(d, n) * n
        assert np.allclose([rays.L[0], rays.M[0], rays.N[0]], r)
    else:
        rays.refract(nx, ny, nz, 1.0, 1.5)
    same = all(np.array_equal(a, b) for a, b in zip((nx, ny, nz), before))
    print(f'{label:34s}: ny {before[1]} -> {ny},  nz {before[2]} -> {nz}'
          + ('' if same else '   <-- caller arrays changed'))
    bad = bad or not same


check('reflect, ray along -z (aligned)', 'reflect', -1)
check('reflect, ray along +z', 'reflect', +1)
check('refract, ray along +z', 'refract', +1)

# grazing ray (d.n == 0): the normals are wiped out altogether
z = np.zeros(1)
rays = RealRays(z, z, z, np.ones(1), z, z, np.ones(1), np.full(1, 0.55))
nx, ny, nz = np.array([0.0]), np.array([0.6]), np.array([-0.8])
rays.reflect(nx, ny, nz)
print(f'reflect, grazing ray              : normal (0, 0.6, -0.8) -> '
      f'({nx[0]}, {ny[0]}, {nz[0]})')
bad = bad or not (ny[0] == 0.6 and nz[0] == -0.8)

if bad:
    print('VIOLATED: arrays passed in by the caller are modified')
    sys.exit(1)
print('property holds')
sys.exit(0)

"""C02 / 2 - Newton-Raphson geometries (even asphere, xy polynomial,
Chebyshev) propagate by |t|: when the aspheric surface lies (slightly) behind
the point where the ray starts, the ray is moved FORWARD by the same amount
and the recorded point is finite but off the surface.

Exits 1 when a finite, live ray is recorded off the prescribed surface.
"""
import sys
import warnings
import numpy as np

warnings.simplefilter('ignore')
from optiland import optic, materials

fail = False

# ---------------------------------------------------------------- part 1
# Schmidt corrector plate with the aperture stop placed on it (stop surface,
# thickness 0, then the aspheric face).  Mirror radius 200, n = 1.5,
# semi-aperture 25:  z = a1 r^2 + a2 r^4
a2 = 1.0 / (4 * 0.5 * 200.0**3)
a1 = -1.5 * 25.0**2 * a2
lens = optic.Optic()
lens.add_surface(index=0, radius=np.inf, thickness=np.inf)
lens.add_surface(index=1, radius=np.inf, thickness=0.0, is_stop=True)
lens.add_surface(index=2, surface_type='even_asphere', radius=np.inf,
                 coefficients=[a1, a2], thickness=4.0,
                 material=materials.IdealMaterial(n=1.5))
lens.add_surface(index=3, radius=np.inf, thickness=100.0)
lens.add_surface(index=4)
lens.set_aperture(aperture_type='EPD', value=50.0)
lens.set_field_type(field_type='angle')
lens.add_field(y=0.0)
lens.add_wavelength(value=0.55, is_primary=True)

Py = np.array([0.0, 0.25, 0.5, 0.7, 0.9, 1.0])
lens.trace_generic(0.0, 0.0, np.zeros_like(Py), Py, 0.55)
s = lens.surface_group.surfaces[2]
r2 = s.x**2 + s.y**2
z_exp = a1 * r2 + a2 * r2**2          # axis-parallel rays: z = sag(x, y)
print('part 1: Schmidt plate z = a1 r^2 + a2 r^4, a1 = %.4e, a2 = %.4e, '
      'stop at thickness 0 in front' % (a1, a2))
print('   ray height y     :', np.round(s.y, 4))
print('   expected z (sag) :', np.round(z_exp, 6))
print('   recorded z       :', np.round(s.z - s.geometry.cs.z, 6))
res = (s.z - s.geometry.cs.z) - z_exp
print('   z - sag          :', np.round(res, 6))
# independent optical path from the stop plane to the plate: n = 1, length
# |sag| but travelled backwards -> the geometric position is what matters
bad = np.isfinite(s.z) & (s.intensity > 0) & ~(np.abs(res) < 1e-6)
if bad.any():
    print('   VIOLATION: %d of %d finite live rays are off the aspheric '
          'surface, max |z - sag| = %.6f mm' % (bad.sum(), bad.size,
                                                np.abs(res[bad]).max()))
    fail = True

# ---------------------------------------------------------------- part 2
# xy-polynomial freeform on a flat base with the stop on it, finite oblique
# field: z = 0.01 y + 1e-4 y^2 + 2e-4 x^2 (negative for -100 < y < 0)
c = np.zeros((3, 3))
c[0, 1] = 0.01
c[0, 2] = 1e-4
c[2, 0] = 2e-4
lens = optic.Optic()
lens.add_surface(index=0, radius=np.inf, thickness=np.inf)
lens.add_surface(index=1, radius=np.inf, thickness=0.0, is_stop=True)
lens.add_surface(index=2, surface_type='polynomial', radius=np.inf,
                 coefficients=c, thickness=5.0,
                 material=materials.IdealMaterial(n=1.6))
lens.add_surface(index=3, radius=-60.0, thickness=80.0)
lens.add_surface(index=4)
lens.set_aperture(aperture_type='EPD', value=20.0)
lens.set_field_type(field_type='angle')
lens.add_field(y=0.0)
lens.add_field(y=10.0)
lens.add_wavelength(value=0.55, is_primary=True)
Px = np.array([0.0, 0.5, -0.5, 0.0, 0.0, 0.7])
Py = np.array([0.0, 0.0, 0.0, 0.8, -0.8, -0.7])
lens.trace_generic(np.zeros(6), np.ones(6), Px, Py, 0.55)
s1 = lens.surface_group.surfaces[1]
s = lens.surface_group.surfaces[2]


def sag2(x, y):
    return 0.01 * y + 1e-4 * y**2 + 2e-4 * x**2


res = s.z - sag2(s.x, s.y)
# signed distance along the incoming ray from the stop to the recorded point
step = (s.x - s1.x) * s1.L + (s.y - s1.y) * s1.M + (s.z - s1.z) * s1.N
# own signed solution (bisection on the ray parameter)
t_true = []
for j in range(Px.size):
    def f(t):
        return (s1.z[j] + t * s1.N[j]) - sag2(s1.x[j] + t * s1.L[j],
                                              s1.y[j] + t * s1.M[j])
    lo, hi = -2.0, 2.0
    for _ in range(200):
        mid = 0.5 * (lo + hi)
        if f(lo) * f(mid) <= 0:
            hi = mid
        else:
            lo = mid
    t_true.append(0.5 * (lo + hi))
t_true = np.array(t_true)
print('part 2: freeform z = 0.01 y + 1e-4 y^2 + 2e-4 x^2 with the stop on '
      'it, field 10 deg')
print('   (x, y) on the stop                 :',
      np.round(np.c_[s1.x, s1.y], 3).tolist())
print('   true signed distance stop -> surf  :', np.round(t_true, 6))
print('   distance stepped by the library    :', np.round(step, 6))
print('   recorded z - sag                   :', np.round(res, 6))
bad = np.isfinite(s.z) & (s.intensity > 0) & ~(np.abs(res) < 1e-6)
if bad.any():
    print('   VIOLATION: %d of %d finite live rays off the surface (the '
          'library stepped +|t| where the intersection is at -|t|), max '
          '|z - sag| = %.6f mm' % (bad.sum(), bad.size,
                                   np.abs(res[bad]).max()))
    fail = True

sys.exit(1 if fail else 0)

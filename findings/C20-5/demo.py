"""C20 defect 5: CONI written on a STANDARD surface with CURV 0 is dropped
(the surface becomes a Plane that has no conic), so surface_group.conic does not
reproduce the file, and the value is lost for good when the radius is edited
afterwards (typical workflow: flat starting point with k = -1, then set/optimise
the radius -> the paraboloid comes out as a sphere).

Independent path: own parser for CONI; after the edit, the sag of the written
conic  z = c r^2 / (1 + sqrt(1 - (1+k) c^2 r^2))  vs. geometry.sag().
"""
import os
import tempfile
import numpy as np
from optiland.fileio.zemax_handler import load_zemax_file

ZMX = """MODE SEQ
UNIT MM X W X CM MR CPMM
ENPD 20.0
GCAT SCHOTT
FTYP 0 0 1 1 0 0 0 0
XFLN 0.0
YFLN 0.0
WAVM 1 0.55 1
PWAV 1
SURF 0
  TYPE STANDARD
  CURV 0.0
  DISZ INFINITY
SURF 1
  STOP
  TYPE STANDARD
  CURV 0.0
  DISZ 5.0
  GLAS N-BK7 1 0 1.5168 64.17
  CONI -1.0
SURF 2
  TYPE STANDARD
  CURV -0.02
  DISZ 90.0
  CONI -2.5
SURF 3
  TYPE STANDARD
  CURV 0.0
  DISZ 0.0
"""

written = []
for line in ZMX.splitlines():
    tok = line.split()
    if tok and tok[0] == 'SURF':
        written.append(0.0)
    elif tok and tok[0] == 'CONI':
        written[-1] = float(tok[1])

fd, path = tempfile.mkstemp(suffix='.zmx')
os.close(fd)
with open(path, 'w', encoding='utf-8') as f:
    f.write(ZMX)
lens = load_zemax_file(path)
os.remove(path)

loaded = [float(k) for k in lens.surface_group.conic]
print('conic constants written :', written)
print('conic constants loaded  :', loaded)

# edit history: give the flat k=-1 surface a radius of 40 mm
lens.set_radius(40.0, 1)
k_after = float(lens.surface_group.conic[1])
r = 15.0
c, k = 1 / 40.0, written[1]
sag_expected = c * r**2 / (1 + np.sqrt(1 - (1 + k) * c**2 * r**2))
sag_observed = float(lens.surface_group.surfaces[1].geometry.sag(0.0, r))
print(f'after set_radius(40, 1): conic = {k_after} (file: {k}); '
      f'sag(r=15) = {sag_observed:.6f}, written paraboloid: {sag_expected:.6f}')

assert loaded == written, \
    f'conic of the zero-curvature surface lost: {loaded} != {written}'
assert abs(sag_observed - sag_expected) < 1e-9

"""C13 / 2 - the same ray gets a different intensity from trace_generic than
from trace when polarization is on (Fresnel losses are dropped).

Run: cd /tmp/hunt2/C13 && PYTHONPATH=/tmp/hunt2/C13 /venv/bin/python demo.py
"""
import sys
import warnings
import numpy as np
warnings.simplefilter('ignore')
from optiland.optic import Optic
from optiland.materials import IdealMaterial
from optiland.rays import create_polarization


class OnePoint:
    """pupil 'distribution' holding the single point (0, 0)"""
    x = np.array([0.0])
    y = np.array([0.0])


def build(n_glass):
    lens = Optic()
    lens.add_surface(index=0, thickness=np.inf)
    lens.add_surface(index=1, thickness=5, radius=50, is_stop=True,
                     material=IdealMaterial(n_glass, 0.0))
    lens.add_surface(index=2, thickness=45, radius=-50)
    lens.add_surface(index=3)
    lens.set_aperture('EPD', 10)
    lens.set_field_type('angle')
    lens.add_field(0)
    lens.add_field(5)
    lens.add_wavelength(0.55, is_primary=True)
    lens.surface_group.set_fresnel_coatings()   # uncoated glass
    return lens


bad = False
for n_glass in (1.5, 1.8):
    # independent reference: axial ray, normal incidence on both surfaces,
    # T = (4 n / (n + 1)^2)^2, the same for every polarization
    T_ref = (4 * n_glass / (n_glass + 1)**2)**2
    for pol in ('unpolarized', 'H', 'V'):
        lens = build(n_glass)
        lens.set_polarization(create_polarization(pol))
        i_trace = float(lens.trace(0.0, 0.0, 0.55, None, OnePoint()).i[0])
        rec_trace = float(lens.surface_group.intensity[-1, 0])
        i_generic = float(lens.trace_generic(0.0, 0.0, 0.0, 0.0, 0.55).i[0])
        rec_generic = float(lens.surface_group.intensity[-1, 0])
        ok = (abs(i_trace - T_ref) < 1e-9 and abs(i_generic - T_ref) < 1e-9
              and abs(rec_generic - T_ref) < 1e-9)
        print(f'n={n_glass} {pol:11s}: expected T={T_ref:.6f}  '
              f'trace -> {i_trace:.6f} (record {rec_trace:.6f})  '
              f'trace_generic -> {i_generic:.6f} (record {rec_generic:.6f})'
              + ('' if ok else '   <-- differs'))
        bad = bad or not ok

if bad:
    print('VIOLATED: the axial ray (H=0, P=0) of the same unchanged lens has a '
          'different intensity depending on the tracing call that carries it')
    sys.exit(1)
print('property holds')
sys.exit(0)

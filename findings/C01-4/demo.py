"""C01 defect 4: set_asphere_coeff() on one surface also changes another
surface (and the caller's list) when both were created from the same
`coefficients` list.

Independent model: a deep-copied record of what was given to add_surface(),
updated only for the surface that is edited, plus the closed-form even-asphere
sag  z = conic_sag(r) + sum_i c_i r^(2(i+1)).
"""
import copy
import numpy as np
from optiland.optic import Optic
from optiland.materials import IdealMaterial

coeffs = [1.0e-6, -2.0e-9]             # same departure on both faces
given = {1: copy.deepcopy(coeffs), 2: copy.deepcopy(coeffs)}   # own record

lens = Optic()
lens.add_surface(index=0, thickness=np.inf)
lens.add_surface(index=1, surface_type='even_asphere', radius=60, conic=-0.5,
                 thickness=6, material=IdealMaterial(1.5), is_stop=True,
                 coefficients=coeffs)
lens.add_surface(index=2, surface_type='even_asphere', radius=-60, conic=-0.5,
                 thickness=55, coefficients=coeffs)
lens.add_surface(index=3)
lens.set_aperture('EPD', 20)
lens.set_field_type('angle')
lens.add_field(0)
lens.add_wavelength(0.55, is_primary=True)


def sag_formula(R, k, c, r):
    z = r**2 / (R * (1 + np.sqrt(1 - (1 + k) * r**2 / R**2)))
    return z + sum(ci * r**(2 * (i + 1)) for i, ci in enumerate(c))


r = 10.0
s2 = lens.surface_group.surfaces[2]
sag2_before = float(s2.geometry.sag(0.0, r))
assert abs(sag2_before - sag_formula(-60, -0.5, given[2], r)) < 1e-12

# ---- the edit: ONLY surface 1, coefficient 0 ----
lens.set_asphere_coeff(5.0e-5, 1, 0)
given[1][0] = 5.0e-5

c1 = list(lens.surface_group.surfaces[1].geometry.c)
c2 = list(lens.surface_group.surfaces[2].geometry.c)
sag2_after = float(s2.geometry.sag(0.0, r))
print('surface 1 coefficients: observed', c1, ' expected', given[1])
print('surface 2 coefficients: observed', c2, ' expected', given[2])
print('caller-owned list     : observed', coeffs, ' expected',
      [1.0e-6, -2.0e-9])
print('surface 2 sag at r=10 : before %.9f  after %.9f  formula %.9f'
      % (sag2_before, sag2_after, sag_formula(-60, -0.5, given[2], r)))

ok = (c1 == given[1]) and (c2 == given[2]) and \
    abs(sag2_after - sag2_before) < 1e-12
if not ok:
    print('FAIL: editing coefficient 0 of surface 1 changed surface 2 '
          '(sag change %.3e mm at r = 10 mm)' % (sag2_after - sag2_before))
assert ok

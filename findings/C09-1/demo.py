import sys
import warnings
import numpy as np

warnings.filterwarnings('ignore')

from optiland.optic import Optic
from optiland.materials import IdealMaterial
from optiland.wavefront import Wavefront, OPD
from optiland.distribution import create_distribution

TOL = 1e-6   # waves; the reference reproduces the library to ~1e-9 on
             # configurations that are not affected by the defect


# ---------------------------------------------------------------------------
# Independent reference.  Only the GEOMETRY of the library's real ray trace is
# used (intersection points and direction cosines recorded on each surface).
# Optical paths, the object-space wavefront, the reference sphere and the leg
# from the image surface to the sphere are recomputed from first principles:
#   path = n_obj * (P0 . d0)                      (plane wavefront through the
#                                                  origin, infinite object only)
#        + sum_k n_k * (P_k - P_{k-1}) . d_{k-1}  (signed segment lengths)
#        + n_img * s                              (signed leg image -> sphere)
#   OPD  = (path_chief - path_ray) / wavelength
# ---------------------------------------------------------------------------
def _geometry(optic):
    surfs = optic.surface_group.surfaces
    P = np.stack([np.array([s.x, s.y, s.z]) for s in surfs])
    D = np.stack([np.array([s.L, s.M, s.N]) for s in surfs])
    return P, D


def _path_to_image(optic, wavelength):
    P, D = _geometry(optic)
    surfs = optic.surface_group.surfaces
    path = np.zeros(P.shape[2])
    if optic.object_surface.is_infinite:
        n_obj = surfs[0].material_post.n(wavelength)
        path += n_obj * np.sum(P[0] * D[0], axis=0)
    for k in range(1, len(surfs)):
        n = surfs[k].material_pre.n(wavelength)
        path += n * np.sum((P[k] - P[k - 1]) * D[k - 1], axis=0)
    # direction in which the rays ARRIVE at the image surface (= direction
    # after the last optical surface); whatever is declared behind the image
    # surface is irrelevant
    return path, P[-1], D[-2]


def _leg_to_sphere(optic, wavelength, Pimg, Dimg, C, R, E):
    n_img = optic.image_surface.material_pre.n(wavelength)
    rel = Pimg - C[:, None]
    b = np.sum(rel * Dimg, axis=0)
    c = np.sum(rel * rel, axis=0) - R**2
    root = np.sqrt(b**2 - c)
    s1, s2 = -b - root, -b + root
    d1 = np.linalg.norm(Pimg + s1 * Dimg - E[:, None], axis=0)
    d2 = np.linalg.norm(Pimg + s2 * Dimg - E[:, None], axis=0)
    s = np.where(d1 <= d2, s1, s2)      # the cap that contains the exit pupil
    return n_img * s


def reference_exit_pupil_z(optic):
    """z of the paraxial exit pupil: own y-u trace (primary wavelength) from
    the centre of the stop through the surfaces behind it; the image surface
    itself has no optical effect."""
    surfs = optic.surface_group.surfaces
    w = optic.primary_wavelength
    zpos = [float(np.ravel(p)[0]) for p in optic.surface_group.positions]
    k0 = optic.surface_group.stop_index
    y, u, z = 0.0, 0.1, zpos[k0]
    for k in range(k0 + 1, len(surfs) - 1):
        y += u * (zpos[k] - z)
        z = zpos[k]
        radius = surfs[k].geometry.radius
        if surfs[k].is_reflective:
            u = -u - 2 * y / radius
        else:
            n1 = surfs[k].material_pre.n(w)
            n2 = surfs[k].material_post.n(w)
            u = (n1 * u - y * (n2 - n1) / radius) / n2
    return z - y / u


def reference_opd(optic, field, wavelength, distribution):
    """OPD (waves) of exactly the rays the library traces for `distribution`"""
    Hx, Hy = field
    E = np.array([0.0, 0.0, reference_exit_pupil_z(optic)])

    optic.trace_generic(float(Hx), float(Hy), 0.0, 0.0, wavelength)
    pc, Pc, Dc = _path_to_image(optic, wavelength)
    C = Pc[:, 0].copy()
    R = np.linalg.norm(C - E)
    pc = pc + _leg_to_sphere(optic, wavelength, Pc, Dc, C, R, E)

    optic.trace(Hx, Hy, wavelength, None, distribution)
    pr, Pr, Dr = _path_to_image(optic, wavelength)
    pr = pr + _leg_to_sphere(optic, wavelength, Pr, Dr, C, R, E)
    return (pc[0] - pr) / (wavelength * 1e-3)


def compare(optic, label, num_rays=6, distribution='hexapolar'):
    """max |library - reference| over all fields / wavelengths (waves)"""
    wf = Wavefront(optic, num_rays=num_rays, distribution=distribution)
    worst = 0.0
    scale = 0.0
    for i, f in enumerate(wf.fields):
        for j, w in enumerate(wf.wavelengths):
            ref = reference_opd(optic, f, w, wf.distribution)
            lib = wf.data[i][j][0]
            dev = np.max(np.abs(lib - ref))
            print(f'  {label}: field Hy={f[1]:+.3f} wl={w:.4f}um  '
                  f'max|OPD_ref|={np.max(np.abs(ref)):10.4f}  '
                  f'max|OPD_lib|={np.max(np.abs(lib)):10.4f}  '
                  f'max|lib-ref|={dev:.3e} waves')
            worst = max(worst, dev)
            scale = max(scale, np.max(np.abs(ref)))
    return worst, scale


GLASS = IdealMaterial(n=1.5168)


def singlet(image_medium):
    o = Optic()
    o.add_surface(index=0, thickness=np.inf)
    o.add_surface(index=1, thickness=5, radius=50, material=GLASS,
                  is_stop=True)
    o.add_surface(index=2, thickness=60, radius=-200, material=image_medium)
    # the image surface carries the same medium, so nothing refracts there
    o.add_surface(index=3, material=image_medium)
    o.set_aperture('EPD', 15)
    o.set_field_type('angle')
    o.add_field(y=0)
    o.add_field(y=5)
    o.add_field(y=10)
    o.add_wavelength(0.55, is_primary=True)
    o.image_solve()          # image surface at the paraxial focus
    return o


print('C09 demo 1: image space that is not air')
print('control - singlet, image in air (reference must reproduce library):')
ctrl, _ = compare(singlet('air'), 'air  ')
print('defect  - same singlet, medium behind the lens n = 1.33:')
water = singlet(IdealMaterial(n=1.33))
dev, scale = compare(water, 'water')

# RMS wavefront error through OPD(...).rms()
opd = OPD(water, (0, 1), 0.55, num_rings=6)
ref = reference_opd(water, (0, 1), 0.55, opd.distribution)
rms_ref = np.sqrt(np.mean(ref**2))
print(f'OPD((0,1)).rms(): library {opd.rms():.4f} waves, '
      f'expected {rms_ref:.4f} waves')

# the OPD-difference operand on the same samples
from optiland.optimization.operand.ray import RayOperand
op_lib = RayOperand.OPD_difference(water, 0, 1, 6, 0.55,
                                   distribution='hexapolar')
op_ref = np.mean(np.abs(ref - np.mean(ref)))
print(f'RayOperand.OPD_difference(Hy=1, hexapolar): library {op_lib:.4f}, '
      f'expected {op_ref:.4f} waves')

print(f'\ncontrol deviation {ctrl:.2e} waves; defect deviation {dev:.2f} '
      f'waves on OPDs of up to {scale:.1f} waves')
assert ctrl < TOL, 'reference does not reproduce the library on the control'
assert dev < TOL, ('OPD is not the optical path difference to the reference '
                   'sphere when the image space is not air: the leg image '
                   '-> sphere is not multiplied by the image-space index')
assert abs(opd.rms() - rms_ref) < TOL
assert abs(op_lib - op_ref) < TOL

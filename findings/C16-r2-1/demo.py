"""C16 / 1 - with a polarization state set, rays stopped by an aperture that
later fail to reach a surface come out with intensity NaN instead of 0."""
import sys
import warnings
import numpy as np

warnings.filterwarnings('ignore')
from optiland.optic import Optic
from optiland.materials import IdealMaterial
from optiland.coatings import SimpleCoating
from optiland.physical_apertures import RadialAperture
from optiland.rays import PolarizationState

N_GLASS, K_GLASS, WL = 1.5, 1e-5, 0.55
R1, R2, T1, T2 = 12.0, -12.0, 8.0, 10.0
R_AP, T_1, T_2, EPD = 6.0, 0.9, 0.8, 22.0


def build(polarization):
    o = Optic()
    o.add_surface(index=0, thickness=np.inf)
    o.add_surface(index=1, radius=R1, thickness=T1, is_stop=True,
                  material=IdealMaterial(N_GLASS, K_GLASS),
                  aperture=RadialAperture(R_AP),
                  coating=SimpleCoating(T_1, 1 - T_1))
    o.add_surface(index=2, radius=R2, thickness=T2,
                  coating=SimpleCoating(T_2, 1 - T_2))
    o.add_surface(index=3)
    o.set_aperture('EPD', EPD)
    o.set_field_type('angle')
    o.add_field(0)
    o.add_wavelength(WL, is_primary=True)
    if polarization is not None:
        o.set_polarization(polarization)
    return o


def reference(y0):
    """Own meridional trace of a ray parallel to the axis at height y0:
    intensity at the image following the statement of the property."""
    if abs(y0) > R_AP:            # lands outside the aperture of surface 1
        return 0.0
    # surface 1 (sphere, vertex z=0, centre z=R1)
    z1 = R1 - np.sqrt(R1**2 - y0**2)
    nrm = np.array([y0, z1 - R1]) / R1          # (y, z), points to -z
    d = np.array([0.0, 1.0])
    c = -nrm @ d
    u = 1 / N_GLASS
    d1 = u * d + (u * c - np.sqrt(1 - u**2 * (1 - c**2))) * nrm
    # surface 2 (sphere, vertex z=T1, centre z=T1+R2)
    zc = T1 + R2
    p = np.array([y0, z1])
    oc = p - np.array([0.0, zc])
    b = oc @ d1
    disc = b**2 - (oc @ oc - R2**2)
    t = -b + np.sqrt(disc)                      # far side of the sphere
    return T_1 * np.exp(-4 * np.pi * K_GLASS * t * 1e3 / WL) * T_2


Py = np.linspace(-1, 1, 12)
y0 = Py * EPD / 2
expected = np.array([reference(y) for y in y0])

bad = False
for name, pol in [('ignore', None),
                  ('unpolarized', PolarizationState(is_polarized=False)),
                  ('linear x', PolarizationState(True, 1, 0, 0, 0))]:
    o = build(pol)
    rays = o.trace(0.0, 0.0, WL, num_rays=12, distribution='line_y')
    got_rays = rays.i
    got_img = o.surface_group.intensity[-1]
    ok = (np.allclose(got_rays, expected, atol=1e-9, equal_nan=False) and
          np.allclose(got_img, expected, atol=1e-9, equal_nan=False))
    print(f'polarization = {name}')
    print('  launch heights      :', np.round(y0, 2))
    print('  expected at image   :', np.round(expected, 5))
    print('  library rays.i      :', np.round(got_rays, 5))
    print('  library image surf. :', np.round(got_img, 5))
    print('  ->', 'ok' if ok else 'VIOLATED')
    bad |= not ok

sys.exit(1 if bad else 0)

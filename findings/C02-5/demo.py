"""C02 defect 5: real ray trace aborts (ValueError) for catalogue media that have
a dispersion formula but no tabulated extinction coefficient (CaF2 Daimon-20,
fused silica Malitson, sapphire Malitson, ...).  The bundled sample
TelescopeObjective48Inch cannot be traced at all.

Independent reference: a 40-line sequential sphere tracer (own intersection,
own vector Snell law) that only uses surface radii / vertex positions and
material.n(w) - which the library evaluates without any problem.
"""
import sys
import warnings
import numpy as np
from optiland.optic import Optic
from optiland.materials import Material
from optiland.samples.objectives import TelescopeObjective48Inch

warnings.simplefilter('ignore')
fails = []


def my_trace(optic, rays0, w):
    """rays0: (P, D) arrays (n,3) at the start.  Spherical / plane, centred surfaces only."""
    P, D = rays0
    opd = np.zeros(len(P))
    for s in optic.surface_group.surfaces[1:]:
        R = s.geometry.radius
        zv = float(np.ravel(s.geometry.cs.z)[0])
        p = P - np.array([0, 0, zv])
        if np.isinf(R):
            t = -p[:, 2] / D[:, 2]
            nrm = np.tile([0.0, 0.0, 1.0], (len(P), 1))
        else:
            b = 2 * (np.sum(p * D, 1) - R * D[:, 2])
            c = np.sum(p * p, 1) - 2 * R * p[:, 2]
            q = -0.5 * (b + np.where(b >= 0, 1, -1) * np.sqrt(b * b - 4 * c))
            ts = np.stack([q, c / q], 1)
            zz = p[:, 2:3] + ts * D[:, 2:3]
            t = ts[np.arange(len(P)), np.argmin(np.abs(zz), 1)]
            hit = p + t[:, None] * D
            nrm = (hit - np.array([0, 0, R])) / R
        n1 = float(s.material_pre.n(w))
        n2 = float(s.material_post.n(w))
        P = P + t[:, None] * D
        opd = opd + n1 * t
        cosi = np.sum(D * nrm, 1)
        nrm = nrm * np.sign(cosi)[:, None]
        cosi = np.abs(cosi)
        mu = n1 / n2
        D = mu * D + (np.sqrt(1 - mu**2 * (1 - cosi**2)) - mu * cosi)[:, None] * nrm
    return P, D, opd


# ---------------------------------------------------------------- bundled sample
lens = TelescopeObjective48Inch()
w = lens.primary_wavelength
rays = lens.ray_generator.generate_rays(0.0, 1.0, np.zeros(5), np.linspace(-1, 1, 5), w)
start = (np.stack([rays.x, rays.y, rays.z], 1), np.stack([rays.L, rays.M, rays.N], 1))
P_ref, D_ref, opd_ref = my_trace(lens, start, w)
print('TelescopeObjective48Inch, Hy=1, independent trace: image y =', np.round(P_ref[:, 1], 5))
try:
    lens.trace_generic(0.0, 1.0, np.zeros(5), np.linspace(-1, 1, 5), w)
    img = lens.surface_group.surfaces[-1]
    dev = np.max(np.abs(img.y - P_ref[:, 1]))
    print('library image y =', np.round(img.y, 5), ' max deviation', dev)
    if not dev < 1e-9:
        fails.append('48-inch sample deviates')
except Exception as e:      # noqa
    print('library trace raised:', repr(e))
    fails.append('TelescopeObjective48Inch cannot be traced: ' + repr(e))

# ---------------------------------------------------------------- generic singlets
for name, ref in (('N-BK7', 'schott'),   # control: has k data, validates the reference tracer
                  ('CAF2', 'Daimon-20'), ('SiO2', 'Malitson'), ('Al2O3', 'Malitson-o')):
    o = Optic()
    o.add_surface(index=0, radius=np.inf, thickness=np.inf)
    o.add_surface(index=1, radius=60, thickness=5, material=(name, ref), is_stop=True)
    o.add_surface(index=2, radius=-60, thickness=55)
    o.add_surface(index=3)
    o.set_aperture('EPD', 10)
    o.set_field_type('angle')
    o.add_field(y=0)
    o.add_field(y=3)
    o.add_wavelength(0.55, is_primary=True)
    n = float(o.surface_group.surfaces[1].material_post.n(0.55))
    r = o.ray_generator.generate_rays(0.0, 1.0, np.zeros(3), np.array([-1.0, 0.0, 1.0]), 0.55)
    P_ref, _, _ = my_trace(o, (np.stack([r.x, r.y, r.z], 1), np.stack([r.L, r.M, r.N], 1)), 0.55)
    try:
        o.trace_generic(0.0, 1.0, np.zeros(3), np.array([-1.0, 0.0, 1.0]), 0.55)
        dev = np.max(np.abs(o.surface_group.surfaces[-1].y - P_ref[:, 1]))
        print(f'{name}/{ref}: n(0.55)={n:.6f}, library agrees with reference to {dev:.1e}')
    except Exception as e:      # noqa
        print(f'{name}/{ref}: n(0.55)={n:.6f}, reference image y = {np.round(P_ref[:, 1], 5)}, '
              f'library raised {e!r}')
        fails.append(f'{name}/{ref}')

print()
if fails:
    print('FAIL: valid prescriptions with catalogue media could not be traced:', *fails, sep='\n   ')
    sys.exit(1)
print('PASS')

"""C14 demo 3: a pickup that reads a quantity set by a solve is applied BEFORE
the solve (Optic.update runs pickups, then solves, once).  The objective the
optimisers see therefore depends on the previously evaluated point, the returned
objective cannot be reproduced on the returned lens, the pickup is not satisfied
on return and undo() does not restore the lens.

Lens: symmetric relay.  The gap in front of the intermediate image (surface 3)
is set by a marginal-ray-height solve (height 0 at surface 3), the gap behind
it is a thickness pickup of the gap in front of it; a second solve keeps the
image surface at the paraxial focus.

Run:  PYTHONPATH=/tmp/hunt/C14 /venv/bin/python demo.py
"""
import warnings
import numpy as np
from optiland import optic, optimization

warnings.simplefilter('ignore')


def relay():
    lens = optic.Optic()
    lens.add_surface(index=0, thickness=np.inf)
    lens.add_surface(index=1, thickness=4, radius=60, material='SK16',
                     is_stop=True)
    lens.add_surface(index=2, thickness=95, radius=-60)   # gap set by solve
    lens.add_surface(index=3, thickness=95)               # gap = pickup of T2
    lens.add_surface(index=4, thickness=4, radius=60, material='SK16')
    lens.add_surface(index=5, thickness=20, radius=-60)
    lens.add_surface(index=6, thickness=4, radius=50, material='SK16')
    lens.add_surface(index=7, thickness=80, radius=-50)
    lens.add_surface(index=8)
    lens.set_aperture('EPD', 10)
    lens.set_field_type('angle')
    lens.add_field(0)
    lens.add_field(1.0)
    lens.add_wavelength(0.55, is_primary=True)
    lens.solves.add('marginal_ray_height', 3, 0.0)
    lens.pickups.add(2, 'thickness', 3)
    lens.solves.add('marginal_ray_height', 8, 0.0)   # paraxial image plane
    for _ in range(3):          # make sure the start lens is self-consistent
        lens.update()
    return lens


FIELDS = [(0.0, 0.0), (0.0, 1.0)]


def my_merit(lens):
    """own formula: sum of squared RMS spot radii from my own traces"""
    tot = 0.0
    for Hx, Hy in FIELDS:
        r = lens.trace(Hx, Hy, 0.55, 3, 'hexapolar')
        x, y = np.array(r.x), np.array(r.y)
        tot += np.mean((x - x.mean()) ** 2 + (y - y.mean()) ** 2)
    return tot


def gaps(lens):
    z = [s.geometry.cs.z for s in lens.surface_group.surfaces]
    return z[3] - z[2], z[4] - z[3]


def marginal_height_at_3(lens):
    ya, _ = lens.paraxial.marginal_ray()
    return float(np.ravel(ya)[3])


failures = []
runs = [
    (optimization.OptimizerGeneric, dict(disp=False, maxiter=10)),
    (optimization.LeastSquares, dict(maxiter=10)),
    (optimization.DualAnnealing, dict(maxiter=3, disp=False)),
    (optimization.DifferentialEvolution, dict(maxiter=2, disp=False, workers=1)),
]
for Opt, kw in runs:
    np.random.seed(0)
    lens = relay()
    t2, t3 = gaps(lens)
    assert abs(t2 - t3) < 1e-9 and abs(marginal_height_at_3(lens)) < 1e-9
    z_before = np.array([s.geometry.cs.z for s in lens.surface_group.surfaces[1:]])

    problem = optimization.OptimizationProblem()
    for Hx, Hy in FIELDS:
        problem.add_operand('rms_spot_size', target=0, weight=1, input_data=dict(
            optic=lens, surface_number=-1, Hx=Hx, Hy=Hy, num_rays=3,
            wavelength=0.55, distribution='hexapolar'))
    problem.add_variable(lens, 'radius', surface_number=1, min_val=40, max_val=80)
    problem.add_variable(lens, 'radius', surface_number=7, min_val=-80, max_val=-30)
    f_start = my_merit(lens)
    assert abs(f_start - problem.sum_squared()) < 1e-9 * f_start

    opt = Opt(problem)
    res = opt.optimize(**kw)
    f_ret = float(np.ravel(res.fun)[0])
    f_now = my_merit(lens)
    t2, t3 = gaps(lens)
    print(f'{Opt.__name__}: start {f_start:.6g}; returned objective {f_ret:.6g}; '
          f'merit re-evaluated on the returned lens {f_now:.6g}')
    print(f'    gap before image T2 = {t2:.6f}, picked-up gap T3 = {t3:.6f} '
          f'(expected equal); marginal height at surf 3 = '
          f'{marginal_height_at_3(lens):.2e}')
    if abs(f_now - f_ret) > 1e-9 * max(f_ret, 1e-30):
        failures.append(f'{Opt.__name__}: returned objective {f_ret:.6g} but the '
                        f'returned lens evaluates to {f_now:.6g}')
    if abs(t2 - t3) > 1e-9:
        failures.append(f'{Opt.__name__}: pickup not satisfied on return: '
                        f'T3 - T2 = {t3 - t2:.3e} mm')
    opt.undo()
    z_after = np.array([s.geometry.cs.z for s in lens.surface_group.surfaces[1:]])
    dz = np.max(np.abs(z_after - z_before))
    print(f'    after undo(): max |z - z_before| = {dz:.6f} mm (expected 0), '
          f'merit {my_merit(lens):.6g} (expected {f_start:.6g})')
    if dz > 1e-9:
        failures.append(f'{Opt.__name__}: undo() left vertex positions off by '
                        f'{dz:.6f} mm')

print()
for f in failures:
    print('VIOLATION:', f)
assert not failures, f'{len(failures)} violation(s) of C14'
print('no violation')

"""C01 / 3 - conic constant given for a flat standard surface is dropped

Typical start of a design: surfaces are entered flat with the conic they are
meant to have (e.g. a parabolic mirror, k = -1) and the radius is set /
optimised afterwards.  The sag of the resulting surface is checked against the
conic sag formula evaluated here.
"""
import sys
import warnings
import numpy as np
warnings.simplefilter('ignore')
from optiland.optic import Optic

K = -1.0
R = -200.0

o = Optic()
o.add_surface(index=0, thickness=np.inf)
o.add_surface(index=1, thickness=-100, radius=np.inf, conic=K,
              material='mirror', is_stop=True)
o.add_surface(index=2)
o.set_aperture('EPD', 40)
o.set_field_type('angle')
o.add_field(0)
o.add_wavelength(0.55, is_primary=True)

bad = False
c_build = o.surface_group.conic[1]
print('conic of surface 1 after add_surface(conic=-1):', c_build,
      'expected', K)
bad |= c_build != K

o.set_radius(R, 1)           # must change the radius only
c_after = o.surface_group.conic[1]
print('conic of surface 1 after set_radius(-200):', c_after, 'expected', K)
bad |= c_after != K

r = 20.0
sag_lib = float(o.surface_group.surfaces[1].geometry.sag(0.0, r))
sag_ref = r**2 / (R * (1 + np.sqrt(1 - (1 + K) * r**2 / R**2)))
print(f'sag at r = {r}: library {sag_lib:.9f}  conic formula {sag_ref:.9f}')
bad |= abs(sag_lib - sag_ref) > 1e-12

# on-axis spot of the "parabola": must be a point
rays = o.trace(0.0, 0.0, 0.55, num_rays=5, distribution='line_y')
spot = float(np.max(np.abs(rays.y)))
print('largest ray height at the focus of the k=-1 mirror:', spot,
      '(parabola: 0)')
bad |= spot > 1e-9

if bad:
    print('VIOLATION: the conic given for the flat surface was discarded')
    sys.exit(1)
print('OK')
sys.exit(0)

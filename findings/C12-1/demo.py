"""C12 / defect 1: analyses given an explicit wavelength list look the primary
wavelength up in the LENS's wavelength table instead of in their own list.

  (a) SpotDiagram.centroid() indexes self.data[field][optic.wavelengths.primary_index]
      although self.data is ordered like the explicit `wavelengths` argument.
  (b) RayFan._generate_data() reads data[field][str(optic.primary_wavelength)]
      although only the explicit wavelengths were traced.

Run:  PYTHONPATH=/tmp/hunt/C12 /venv/bin/python demo.py
"""
import sys
import numpy as np
from optiland.samples.objectives import CookeTriplet
from optiland.analysis import SpotDiagram, RayFan, RmsSpotSizeVsField

failures = []


def check(name, ok, observed, expected):
    print(f'[{"ok" if ok else "FAIL"}] {name}\n       observed: {observed}\n'
          f'       expected: {expected}')
    if not ok:
        failures.append(name)


def independent_spot(lens, field, wavelengths, num_rings, distribution):
    """centroid on the lens's primary wavelength, rms radii about it,
    from rays traced here."""
    Hx, Hy = field
    rays = lens.trace(Hx, Hy, lens.primary_wavelength, num_rings, distribution)
    cx, cy = np.mean(rays.x), np.mean(rays.y)
    rms = []
    for w in wavelengths:
        rays = lens.trace(Hx, Hy, w, num_rings, distribution)
        rms.append(np.sqrt(np.mean((rays.x - cx)**2 + (rays.y - cy)**2)))
    return (cx, cy), rms


lens = CookeTriplet()
print('lens wavelengths', lens.wavelengths.get_wavelengths(),
      'primary index', lens.wavelengths.primary_index,
      'primary', lens.primary_wavelength)

# ---- (a1) primary wavelength present in the list, but at another position --
wl = [0.55, 0.65]          # primary (0.55) is entry 0 of THIS list
spot = SpotDiagram(lens, wavelengths=wl, num_rings=6, distribution='hexapolar')
field = spot.fields[-1]    # (0, 1)
(cx, cy), rms = independent_spot(lens, field, wl, 6, 'hexapolar')
got_c = spot.centroid()[-1]
got_rms = spot.rms_spot_radius()[-1]
check('SpotDiagram.centroid(), wavelengths=[0.55, 0.65], field (0,1)',
      np.allclose(got_c, (cx, cy), rtol=1e-9, atol=1e-12),
      tuple(float(v) for v in got_c), (float(cx), float(cy)))
check('SpotDiagram.rms_spot_radius(), wavelengths=[0.55, 0.65], field (0,1)',
      np.allclose(got_rms, rms, rtol=1e-9),
      [float(v) for v in got_rms], [float(v) for v in rms])

# ---- (a2) a one-element list ------------------------------------------------
try:
    spot = SpotDiagram(lens, wavelengths=[0.55])
    got = spot.rms_spot_radius()[-1]
    (_, _), rms = independent_spot(lens, spot.fields[-1], [0.55], 6,
                                   'hexapolar')
    check('SpotDiagram.rms_spot_radius(), wavelengths=[0.55]',
          np.allclose(got, rms, rtol=1e-9), got, rms)
except Exception as exc:  # noqa
    check('SpotDiagram.rms_spot_radius(), wavelengths=[0.55]', False,
          repr(exc), 'rms radius of the 0.55 um spot about its own centroid')

try:
    r = RmsSpotSizeVsField(lens, num_fields=3, wavelengths=[0.55])
    check('RmsSpotSizeVsField(wavelengths=[0.55])', True, r._spot_size, '')
except Exception as exc:  # noqa
    check('RmsSpotSizeVsField(wavelengths=[0.55])', False, repr(exc),
          'an array of 3 rms radii')

# ---- (b) RayFan with a list that does not contain the primary --------------
wl = [0.48, 0.65]
n = 5
try:
    fan = RayFan(lens, wavelengths=wl, num_points=n)
    got = fan.data[f'{fan.fields[-1]}'][f'{wl[0]}']['y']
except Exception as exc:  # noqa
    got = repr(exc)
# independent: fan referenced to the primary-wavelength chief ray
Hx, Hy = 0.0, 1.0
lens.trace_generic(Hx, Hy, 0.0, 0.0, lens.primary_wavelength)
y_chief = lens.surface_group.y[-1, 0]
Py = np.linspace(-1, 1, n)
lens.trace_generic(Hx, Hy, np.zeros(n), Py, wl[0])
expected = lens.surface_group.y[-1, :] - y_chief
ok = isinstance(got, np.ndarray) and np.allclose(got, expected, rtol=1e-9,
                                                  atol=1e-12)
check('RayFan(wavelengths=[0.48, 0.65]) y-fan at 0.48 um, field (0,1)',
      ok, got, expected)

if failures:
    print(f'\n{len(failures)} check(s) failed')
    sys.exit(1)
print('all checks passed')

"""C12 / 2 - GridDistortion(distortion_type='f-theta') uses (f*theta_x, f*theta_y) as reference grid.

For a rotationally symmetric lens the f-theta reference image point of a field direction is at the
radial distance f*theta from the axis, theta being the angle between the chief ray and the axis
(this is what Distortion(..., 'f-theta') uses along y).  Off the x/y axes the reference used by
GridDistortion is not on that circle, so the reported distortion of a grid node differs from the
f-theta distortion of the very same lens at the very same field angle (rotational symmetry).

Lens: Cooke triplet with fixed indices, object at infinity, fields 0/14/20 deg, EPD 10.
All expected numbers come from the small numpy ray tracer below.
"""
import sys
import numpy as np
from optiland import optic
from optiland.materials import IdealMaterial
from optiland.analysis import GridDistortion, Distortion

#        radius      thickness  index after
PRESC = [(22.01359, 3.25896, 1.6204), (-435.76044, 6.00755, 1.0),
         (-22.21328, 0.99997, 1.6200), (20.29192, 4.75041, 1.0),
         (79.68360, 2.95208, 1.6204), (-18.39533, 42.20778, 1.0)]
STOP = 3          # 0-based index into PRESC (4th surface)
MAXF = 20.0
N = 5             # grid nodes per axis

Z = np.concatenate([[0.0], np.cumsum([p[1] for p in PRESC])])   # vertices, image last


# ------------------------------------------------------------------ reference
def paraxial(y, u, z, upto=None):
    n = 1.0
    for j, (R, t, n2) in enumerate(PRESC[:upto]):
        y = y + u * (Z[j] - z)
        z = Z[j]
        u = (n * u - y * (n2 - n) / R) / n2
        n = n2
    return y, u, z


def entrance_pupil():
    a, _, _ = paraxial(1.0, 0.0, 0.0, STOP + 1)
    b, _, _ = paraxial(0.0, 1.0, 0.0, STOP + 1)
    return b / a          # z of the object-space image of the stop centre


EPL = entrance_pupil()


def chief_ray_image_point(thx_deg, thy_deg):
    """real chief ray (aimed at the paraxial entrance pupil centre); the object point of the field
    (thx, thy) lies at (+tan thx, -tan thy) * distance, as in optiland"""
    tx, ty = np.tan(np.radians(thx_deg)), np.tan(np.radians(thy_deg))
    d = np.array([-tx, ty, 1.0])
    d /= np.linalg.norm(d)
    p = np.array([0.0, 0.0, EPL]) - 50.0 * d
    n = 1.0
    for j, (R, t, n2) in enumerate(PRESC):
        c = 1.0 / R
        o = p - np.array([0.0, 0.0, Z[j]])
        b = 2 * c * o.dot(d) - 2 * d[2]
        cc = c * o.dot(o) - 2 * o[2]
        s = 2 * cc / (-b + np.sqrt(b * b - 4 * c * cc))
        p = p + s * d
        nrm = (p - np.array([0.0, 0.0, Z[j] + R])) / abs(R)
        cosi = nrm.dot(d)
        nrm, cosi = nrm * np.sign(cosi), abs(cosi)
        mu = n / n2
        d = mu * d + (np.sqrt(1 - mu**2 * (1 - cosi**2)) - mu * cosi) * nrm
        n = n2
    p = p + (Z[-1] - p[2]) / d[2] * d
    return p[0], p[1]


def focal_scale():
    """paraxial chief-ray image height per tan(field) on the actual image surface"""
    u = 1.0
    y, u1, z = paraxial(-u * (EPL - (-1.0)), u, -1.0)
    return y + u1 * (Z[-1] - z)


F = focal_scale()


def ref_node_distortion(hx, hy, kind):
    tx, ty = np.tan(np.radians(MAXF * hx)), np.tan(np.radians(MAXF * hy))
    rho = np.hypot(tx, ty)
    if kind == 'f-tan':
        h_ref = F * rho
    else:
        h_ref = F * np.arctan(rho)          # f * theta, theta = angle chief ray / axis
    xp, yp = -h_ref * tx / rho, h_ref * ty / rho
    xr, yr = chief_ray_image_point(MAXF * hx, MAXF * hy)
    return 100 * np.hypot(xr - xp, yr - yp) / np.hypot(xp, yp)


def ref_max(kind):
    e = np.linspace(-np.sqrt(2) / 2, np.sqrt(2) / 2, N)
    return max(ref_node_distortion(hx, hy, kind) for hx in e for hy in e
               if np.hypot(hx, hy) > 1e-9)


# -------------------------------------------------------------------- library
lens = optic.Optic()
lens.add_surface(index=0, radius=np.inf, thickness=np.inf)
for k, (R, t, n2) in enumerate(PRESC):
    lens.add_surface(index=k + 1, radius=R, thickness=t, material=IdealMaterial(n2),
                     is_stop=(k == STOP))
lens.add_surface(index=len(PRESC) + 1)
lens.set_aperture('EPD', 10.0)
lens.set_field_type('angle')
for f in (0, 14, MAXF):
    lens.add_field(y=f)
lens.add_wavelength(0.55, is_primary=True)

bad = False
for kind in ('f-tan', 'f-theta'):
    lib = GridDistortion(lens, num_points=N, distortion_type=kind).data['max_distortion']
    ref = ref_max(kind)
    print(f'{kind:8s} max grid distortion   library {lib:.6f} %   expected {ref:.6f} %')
    if not np.isclose(lib, ref, rtol=1e-6):
        bad = True

# the same statement without any reference grid: the corner node lies at the polar field angle
# atan(sqrt(2) * tan(20deg/sqrt(2))) = 19.61 deg, and the library's own 1-D f-theta distortion
# there is what a rotationally symmetric lens must show at the corner
corner = np.degrees(np.arctan(np.sqrt(2) * np.tan(np.radians(MAXF / np.sqrt(2)))))
d1 = Distortion(lens, num_points=2001, distortion_type='f-theta').data[0]
d_corner = np.interp(corner / MAXF, np.linspace(1e-10, 1, 2001), d1)
print(f'1-D f-theta distortion at the corner field angle {corner:.3f} deg: {d_corner:.6f} %')

if bad:
    print('VIOLATION: f-theta grid distortion is measured against (f*theta_x, f*theta_y) '
          'instead of the radial f*theta reference')
    sys.exit(1)
print('OK')
sys.exit(0)

"""C17 demo 6: PolarizedRays.update_intensity scales by the launch intensity only
in the unpolarized branch, so for rays launched with intensity != 1 the
unpolarized result is NOT the mean of two orthogonal polarized results.

Uses the public classes directly: PolarizedRays + SurfaceGroup.trace +
update_intensity (the same calls Optic.trace makes).
"""
import sys
import numpy as np
from optiland.optic import Optic
from optiland.materials import IdealMaterial
from optiland.rays import PolarizedRays, PolarizationState, create_polarization

lens = Optic()
lens.add_surface(index=0, thickness=np.inf)
lens.add_surface(index=1, thickness=5, radius=40,
                 material=IdealMaterial(n=1.5), is_stop=True)
lens.add_surface(index=2, thickness=37, radius=-40)
lens.add_surface(index=3)
lens.set_aperture('EPD', 10.0)
lens.set_field_type('angle')
lens.add_field(y=0)
lens.add_wavelength(0.55, is_primary=True)
lens.surface_group.set_fresnel_coatings()


def trace(state, i0):
    n = 5
    y = np.linspace(-4, 4, n)
    rays = PolarizedRays(np.zeros(n), y, np.full(n, -10.0),
                         np.zeros(n), np.full(n, 0.05),
                         np.full(n, np.sqrt(1 - 0.05**2)),
                         np.full(n, i0), np.full(n, 0.55))
    lens.surface_group.trace(rays)
    rays.update_intensity(state)
    return rays.i.copy()


pairs = [('H', 'V'), ('L+45', 'L-45'), ('RCP', 'LCP')]
failures = []
for i0 in (1.0, 0.25):
    unpol = trace(create_polarization('unpolarized'), i0)
    for a, b in pairs:
        mean = 0.5 * (trace(create_polarization(a), i0) +
                      trace(create_polarization(b), i0))
        dev = np.abs(unpol - mean).max()
        print(f'launch intensity {i0}: unpolarized = {unpol.round(6)}, '
              f'mean({a},{b}) = {mean.round(6)}, max diff = {dev:.3e}')
        if dev > 1e-9:
            failures.append(f'i0={i0}, pair ({a},{b}): diff {dev:.3e}')
    # an arbitrary (Ex, Ey, phase) pair
    s1 = PolarizationState(True, Ex=0.6, Ey=0.8, phase_x=0.3, phase_y=1.1)
    s2 = PolarizationState(True, Ex=0.8, Ey=-0.6, phase_x=0.3, phase_y=1.1)
    mean = 0.5 * (trace(s1, i0) + trace(s2, i0))
    dev = np.abs(unpol - mean).max()
    print(f'launch intensity {i0}: arbitrary orthogonal pair, max diff = {dev:.3e}')
    if dev > 1e-9:
        failures.append(f'i0={i0}, arbitrary pair: diff {dev:.3e}')

if failures:
    print('FAIL: unpolarized intensity != mean of orthogonal states:')
    for f in failures:
        print('  ', f)
    sys.exit(1)
print('OK')

"""C11 defect 3: a user supplied max_freq is taken as the diffraction cut-off.

GeometricMTF(max_freq=<number>) should only change the range of the frequency
axis. The diffraction-limited curve (and the diffraction scaling applied to
the geometric MTF) must still be (2/pi)(phi - cos phi sin phi) with
cos phi = nu / nu_cutoff, nu_cutoff = 1 / (wavelength x F-number).
"""
import sys
import numpy as np
from optiland.samples.objectives import CookeTriplet
from optiland.mtf import GeometricMTF


def ideal(nu, cutoff):
    phi = np.arccos(np.clip(nu / cutoff, 0, 1))
    return 2 / np.pi * (phi - np.cos(phi) * np.sin(phi))


lens = CookeTriplet()
wavelength = lens.primary_wavelength                      # 0.55 um
# independent cut-off from the real marginal ray: 2 sin U' / lambda
lens.trace_generic(0., 0., 0., 1., wavelength)
cutoff = 2 * abs(lens.surface_group.M[-1, 0]) / (wavelength * 1e-3)
print(f'cut-off from real marginal ray: {cutoff:.2f} cycles/mm '
      f'(paraxial 1/(lambda FNO) = '
      f'{1 / (wavelength * 1e-3 * lens.paraxial.FNO()):.2f})')

full = GeometricMTF(lens, fields=[(0, 0)], num_rays=64, num_points=256)
fail = False
for max_freq in (100.0, 2 * full.max_freq):
    part = GeometricMTF(lens, fields=[(0, 0)], num_rays=64, num_points=256,
                        max_freq=max_freq)
    expected_dl = ideal(part.freq, cutoff)
    err_dl = np.max(np.abs(part.diff_limited_mtf - expected_dl))
    k = np.argmax(np.abs(part.diff_limited_mtf - expected_dl))
    # second path through the API: the default (cut-off) run, interpolated
    expected_mtf = np.interp(part.freq, full.freq, full.mtf[0][0], right=0.0)
    err_mtf = np.max(np.abs(part.mtf[0][0] - expected_mtf))
    j = np.argmax(np.abs(part.mtf[0][0] - expected_mtf))
    print(f'max_freq={max_freq:7.2f}: diff_limited_mtf deviates by '
          f'{err_dl:.3f} (at {part.freq[k]:.1f} c/mm reported '
          f'{part.diff_limited_mtf[k]:.3f}, expected {expected_dl[k]:.3f}); '
          f'tangential MTF deviates from the default run by {err_mtf:.3f} '
          f'(at {part.freq[j]:.1f} c/mm reported {part.mtf[0][0][j]:.3f}, '
          f'expected {expected_mtf[j]:.3f})')
    above = part.freq > 1.02 * cutoff
    if np.any(above):
        print(f'    diffraction limit reported above the cut-off: up to '
              f'{np.max(part.diff_limited_mtf[above]):.3f} (must be 0)')
    if err_dl > 0.02 or err_mtf > 0.02:
        fail = True

if fail:
    print('FAIL: diffraction-limited curve / scaling follows max_freq, not '
          'the optical cut-off')
    sys.exit(1)
print('PASS')

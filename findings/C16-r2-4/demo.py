"""C16 / 4 - Optic.scale_system scales a RadialAperture object once per
surface that carries it: an aperture shared by the two faces of a lens is
scaled by factor**2, so rays outside the (scaled) aperture keep intensity 1."""
import sys
import warnings
import numpy as np

warnings.filterwarnings('ignore')
from optiland.optic import Optic
from optiland.materials import IdealMaterial
from optiland.physical_apertures import RadialAperture

WL, R_AP, EPD, S = 0.55, 5.0, 16.0, 2.0


def build(shared):
    ap1 = RadialAperture(r_max=R_AP, r_min=1.0)
    ap2 = ap1 if shared else RadialAperture(r_max=R_AP, r_min=1.0)
    o = Optic()
    o.add_surface(index=0, thickness=np.inf)
    o.add_surface(index=1, radius=50, thickness=4, is_stop=True,
                  material=IdealMaterial(1.5), aperture=ap1)
    o.add_surface(index=2, radius=-50, thickness=45, aperture=ap2)
    o.add_surface(index=3)
    o.set_aperture('EPD', EPD)
    o.set_field_type('angle')
    o.add_field(0)
    o.add_wavelength(WL, is_primary=True)
    return o


def expected(y_launch, scale):
    """On-axis collimated ray: it meets surface 1 at its launch height, the
    aperture there has radii scale * (1, 5) mm. (Surface 2 is met at a
    smaller height, so surface 1 decides.)"""
    r = np.abs(y_launch)
    return np.where((r > scale * R_AP) | (r < scale * 1.0), 0.0, 1.0)


Py = np.linspace(-1, 1, 9)
bad = False
for shared in (False, True):
    o = build(shared)
    for scale in (1.0, S):
        if scale != 1.0:
            o.scale_system(scale)
        o.trace(0.0, 0.0, WL, num_rays=9, distribution='line_y')
        y = Py * EPD * scale / 2
        got = o.surface_group.intensity[-1]
        exp = expected(y, scale)
        ok = np.array_equal(got, exp)
        ap = o.surface_group.surfaces[1].aperture
        print(f'shared aperture object: {shared!s:5}  scale {scale:g}  '
              f'aperture radii now ({ap.r_min:g}, {ap.r_max:g}), expected '
              f'({scale * 1.0:g}, {scale * R_AP:g})')
        print('   launch heights  :', y)
        print('   expected at image:', exp)
        print('   library at image :', got, '->', 'ok' if ok else 'VIOLATED')
        bad |= not ok

sys.exit(1 if bad else 0)

"""C08 defect 2: reflecting surfaces contribute nothing to the Seidel terms
(and an odd number of mirrors flips the sign of every refracting surface's
transverse term), because Aberrations uses optic.n() which does not change sign
on reflection, so (n' - n) = 0 at every mirror.

Independent path: classical Seidel surface sums (Welford) with the usual
reflecting convention n' = -n, evaluated on an own paraxial trace of the public
prescription, mapped to the library's fixed convention
    T_k = S_k / (2 n'_K u'_K),      S_lib = -sum(S_k)
(the mapping is exact for all-refracting systems, see the control case), and a
REAL marginal ray traced with optic.trace_generic for the small-aperture clause.
"""
import contextlib
import io
import sys
import numpy as np
from optiland import optic
from optiland.samples.microscopes import UVReflectingMicroscope


def prescription(o):
    sg = o.surface_group
    wl = o.primary_wavelength
    z = np.array([float(np.ravel(p)[0]) for p in sg.positions])
    R = np.array([float(r) for r in sg.radii])
    c = np.where(np.isinf(R), 0.0, 1.0 / R)
    n = np.array([float(np.ravel(v)[0]) for v in o.n(wl)])
    sign = 1.0
    ns = np.zeros_like(n)
    for k, s in enumerate(sg.surfaces):
        if getattr(s, 'is_reflective', False):
            sign = -sign              # n' = -n after each reflection
        ns[k] = sign * n[k]
    return z, c, ns


def ptrace(z, c, n, y1, u0):
    N = len(z)
    y = np.zeros(N)
    u = np.zeros(N)
    u[0] = u0
    y[1] = y1
    for k in range(1, N):
        if k > 1:
            y[k] = y[k - 1] + u[k - 1] * (z[k] - z[k - 1])
        u[k] = (n[k - 1] * u[k - 1] - y[k] * c[k] * (n[k] - n[k - 1])) / n[k]
    return y, u


def classical(o):
    z, c, n = prescription(o)
    ya_l, ua_l = [np.ravel(a) for a in o.paraxial.marginal_ray()]
    yb_l, ub_l = [np.ravel(a) for a in o.paraxial.chief_ray()]
    ya, ua = ptrace(z, c, n, ya_l[1], ua_l[0])
    yb, ub = ptrace(z, c, n, yb_l[1], ub_l[0])
    # the library's paraxial rays themselves are right (also through mirrors)
    assert np.allclose(ya[1:], ya_l[1:]) and np.allclose(ua, ua_l)
    assert np.allclose(yb[1:], yb_l[1:]) and np.allclose(ub, ub_l)
    H = n[0] * (yb[1] * ua[0] - ya[1] * ub[0])
    S = np.zeros((5, len(z) - 2))
    for k in range(1, len(z) - 1):
        n0, n1 = n[k - 1], n[k]
        A = n0 * (ua[k - 1] + ya[k] * c[k])
        Ab = n0 * (ub[k - 1] + yb[k] * c[k])
        dun = ua[k] / n1 - ua[k - 1] / n0
        d1n = 1 / n1 - 1 / n0
        S[0, k - 1] = -A * A * ya[k] * dun
        S[1, k - 1] = -A * Ab * ya[k] * dun
        S[2, k - 1] = -Ab * Ab * ya[k] * dun
        S[3, k - 1] = -H * H * c[k] * d1n
        S[4, k - 1] = -Ab * (Ab * Ab * ya[k] * (1 / n1**2 - 1 / n0**2)
                             + c[k] * d1n * yb[k] * (H - Ab * ya[k]))
    T = S / (2 * n[-1] * ua[-1])
    return T, -S.sum(axis=1)


def build(kind, epd):
    o = optic.Optic()
    o.add_surface(index=0, radius=np.inf, thickness=np.inf)
    if kind == 'refracting control':
        o.add_surface(index=1, radius=50, thickness=5, material='N-BK7',
                      is_stop=True)
        o.add_surface(index=2, radius=-80, thickness=60)
        o.add_surface(index=3)
    elif kind == 'spherical mirror R=-200':
        o.add_surface(index=1, radius=-200, thickness=-100,
                      material='mirror', is_stop=True)
        o.add_surface(index=2)
    elif kind == 'plano-convex lens + spherical mirror':
        o.add_surface(index=1, radius=np.inf, thickness=4, material='N-BK7',
                      is_stop=True)
        o.add_surface(index=2, radius=-400, thickness=100)
        o.add_surface(index=3, radius=-250, thickness=-95, material='mirror')
        o.add_surface(index=4)
    o.set_aperture(aperture_type='EPD', value=epd)
    o.set_field_type(field_type='angle')
    o.add_field(y=0)
    o.add_field(y=1)
    o.add_wavelength(value=0.55, is_primary=True)
    o.image_solve()           # image plane at the paraxial focus
    return o


np.set_printoptions(precision=6, linewidth=170)
names = ['TSC', 'CC', 'TAC', 'TPC', 'DC']
failures = 0
for kind in ['refracting control', 'spherical mirror R=-200',
             'plano-convex lens + spherical mirror', 'UVReflectingMicroscope']:
    with contextlib.redirect_stdout(io.StringIO()):
        o = UVReflectingMicroscope() if kind.startswith('UV') \
            else build(kind, 2.0)
    T, Ssum = classical(o)
    res = o.aberrations.third_order()
    lib = [np.ravel(res[i]) for i in (0, 2, 4, 6, 8)]
    libS = np.ravel(res[12])
    print('==', kind)
    bad = False
    for nm, a, b in zip(names, lib, T):
        ok = np.allclose(a, b, rtol=1e-7, atol=1e-13 * max(1, np.abs(b).max()))
        if not ok:
            bad = True
            print('  %-3s library  %s\n      expected %s' % (nm, a, b))
    okS = np.allclose(libS, Ssum, rtol=1e-7, atol=1e-16)
    print('  Seidel sums library  %s\n              expected %s' % (libS, Ssum))
    if not kind.startswith('UV'):
        # real marginal ray in the paraxial image plane (small aperture)
        o.trace_generic(0.0, 0.0, 0.0, 1.0, 0.55)
        y_real = float(o.surface_group.y[-1, 0])
        print('  real marginal-ray error %.6e ; sum(TSC) library %.6e ; '
              'sum(TSC) expected %.6e' % (y_real, lib[0].sum(), T[0].sum()))
        if abs(lib[0].sum() / y_real - 1) > 1e-2:
            bad = True
    if kind == 'refracting control':
        assert not bad and okS, 'control case must pass'
        print('  control passes (convention mapping confirmed)')
    elif bad or not okS:
        failures += 1
        print('  MISMATCH')

if failures:
    print('FAIL: %d reflecting systems violate the classical formulas'
          % failures)
    sys.exit(1)
print('OK')

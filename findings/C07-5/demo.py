"""C07 / built-in scaling operation.

Lens of planes and conics with angular fields, one element decentred
(dx = 0.5, dy = 1.5 mm on both of its surfaces).  Optic.scale_system(s) must
produce exactly the lens whose every length is multiplied by s, i.e.
   positions  ->  s * positions,  direction cosines unchanged,
   f2 -> s * f2.

Reference 1 (own law): s * (rays of the original lens).
Reference 2 (second path through the API): the prescription rebuilt by hand
with every length (radii, thicknesses, EPD, apertures, decentres) times s.
"""
import sys
import warnings
import numpy as np
from optiland.optic import Optic
from optiland.materials import IdealMaterial
from optiland.physical_apertures import RadialAperture

warnings.simplefilter('ignore')
WL = 0.55
S = 2.5


def build(s=1.0):
    o = Optic()
    o.add_surface(index=0, radius=np.inf, thickness=np.inf)
    o.add_surface(index=1, radius=40.0 * s, conic=-0.8, thickness=5.0 * s,
                  material=IdealMaterial(1.6),
                  aperture=RadialAperture(12.0 * s))
    o.add_surface(index=2, radius=-60.0 * s, conic=0.4, thickness=6.0 * s)
    o.add_surface(index=3, radius=np.inf, thickness=7.0 * s, is_stop=True)
    # decentred element (conic front, plane back)
    o.add_surface(index=4, radius=80.0 * s, conic=-1.0, thickness=4.0 * s,
                  material=IdealMaterial(1.5), dx=0.5 * s, dy=1.5 * s)
    o.add_surface(index=5, radius=np.inf, thickness=60.0 * s,
                  dx=0.5 * s, dy=1.5 * s)
    o.add_surface(index=6)
    o.set_aperture('EPD', 8.0 * s)
    o.set_field_type('angle')
    o.add_field(0.0)
    o.add_field(5.0)
    o.add_wavelength(WL, is_primary=True)
    return o


def observe(o):
    o.trace_generic(0.3, 1.0, 0.3, 0.7, WL)
    sg = o.surface_group
    pos = np.array([sg.x[1:, 0], sg.y[1:, 0], sg.z[1:, 0]])
    dirs = np.array([sg.L[1:, 0], sg.M[1:, 0], sg.N[1:, 0]])
    return pos, dirs, sg.opd[-1, 0]


orig = build()
p0, d0, opd0 = observe(orig)

manual = build(S)
pm, dm, opdm = observe(manual)

lib = build()
lib.scale_system(S)
pl, dl, opdl = observe(lib)

print('decentres after scale_system(%.1f): surface 4 (dx, dy) = (%s, %s), '
      'expected (%s, %s)' % (S, lib.surface_group.surfaces[4].geometry.cs.x,
                             lib.surface_group.surfaces[4].geometry.cs.y,
                             0.5 * S, 1.5 * S))
print('image point   s*original      :', S * p0[:, -1])
print('image point   hand-scaled lens:', pm[:, -1])
print('image point   scale_system    :', pl[:, -1])
print('image dir     original        :', d0[:, -1])
print('image dir     hand-scaled lens:', dm[:, -1])
print('image dir     scale_system    :', dl[:, -1])
print('path length   s*original %.9f  hand-scaled %.9f  scale_system %.9f'
      % (S * opd0, opdm, opdl))

ref_ok = (np.allclose(pm, S * p0, rtol=1e-10, atol=1e-10)
          and np.allclose(dm, d0, rtol=0, atol=1e-12))
print('hand-scaled lens obeys the scaling law:', ref_ok)
assert ref_ok

err_pos = np.abs(pl - S * p0).max()
err_dir = np.abs(dl - d0).max()
print('scale_system: max position error %.3e mm, max direction-cosine error '
      '%.3e (expected 0)' % (err_pos, err_dir))
assert err_pos < 1e-9 and err_dir < 1e-12, \
    'scale_system did not produce the scaled lens (decentres left unscaled)'
sys.exit(0)

"""C11 / 2 - FFTMTF is aliased when grid_size < 2 * num_rays.

An unaberrated circular pupil (paraboloid mirror, on axis, f/10).  The FFT MTF
must equal (2/pi)(phi - cos(phi) sin(phi)), phi = acos(f / cutoff), within
sampling error, and can never exceed it.  Valid inputs: grid_size >= num_rays.

Reference: the analytic diffraction-limited MTF at the frequencies the
library itself reports (np.arange(len(mtf)) * _get_mtf_units(), exactly
what FFTMTF.view() plots) and, independently of any frequency axis, the
geometric overlap of two unit discs shifted by k pupil samples.
"""
import sys
import warnings
import numpy as np
warnings.simplefilter('ignore')
from optiland import optic
from optiland.mtf import FFTMTF


def make():
    o = optic.Optic()
    o.add_surface(index=0, radius=np.inf, thickness=np.inf)
    o.add_surface(index=1, radius=-200.0, conic=-1.0, thickness=-100,
                  material='mirror', is_stop=True)
    o.add_surface(index=2)
    o.set_aperture(aperture_type='EPD', value=10.0)
    o.set_field_type(field_type='angle')
    o.add_field(y=0)
    o.add_wavelength(value=0.55, is_primary=True)
    return o


def diff_limit(r):
    phi = np.arccos(np.clip(r, 0, 1))
    return 2 / np.pi * (phi - np.cos(phi) * np.sin(phi))


o = make()
bad = False
TOL = 0.06     # generous: sampling error of a 64-sample pupil is ~0.013
for n, g in ((64, 256), (64, 128), (64, 64), (100, 128), (128, 128),
             (256, 256)):
    m = FFTMTF(o, num_rays=n, grid_size=g)
    t = np.asarray(m.mtf[0][0])
    freq = np.arange(len(t)) * m._get_mtf_units()     # as in view()
    ref_axis = diff_limit(freq / m.max_freq)
    # frequency-axis independent: sample k of the DFT of the PSF is the
    # autocorrelation of the pupil at a shift of k samples; the disc has a
    # diameter of (n - 1) samples
    ref_shift = diff_limit(np.arange(len(t)) / (n - 1))
    exc_axis = np.max(t - ref_axis)
    exc_shift = np.max(t - ref_shift)
    k = int(np.argmax(t - ref_shift))
    flag = exc_shift > TOL
    bad |= flag
    print(f'num_rays={n:4d} grid_size={g:4d}: max(MTF - diffraction limit) = '
          f'{exc_axis:+.3f} (library freq axis), {exc_shift:+.3f} (shift); '
          f'worst sample k={k}: MTF {t[k]:.3f} vs limit {ref_shift[k]:.3f}'
          f'{"   <-- VIOLATED" if flag else ""}')
if bad:
    print('VIOLATED: unaberrated MTF exceeds the diffraction limit '
          '(circular wrap-around of the pupil autocorrelation)')
    sys.exit(1)
print('ok')
sys.exit(0)

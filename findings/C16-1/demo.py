"""C16 demo 1: with a polarization state set on the Optic (no polarizing
coating anywhere), Optic.trace() throws away everything the scalar intensity
bookkeeping did: rays blocked by a physical aperture / central obscuration,
Beer-Lambert absorption and SimpleCoating transmittance all come back as
intensity 1.0 at the image surface, in rays.i and in the analyses.

Independent reference: own formula evaluated on the recorded ray
intersection points (aperture test in the surface frame, exp(-4 pi k d / lambda)
over the geometric segment length, product of coating transmittances).
Second API path: the same lens traced with polarization='ignore'.
"""
import sys
import numpy as np
from optiland.optic import Optic
from optiland.materials import IdealMaterial
from optiland.physical_apertures import RadialAperture
from optiland.coatings import SimpleCoating
from optiland.rays import PolarizationState
from optiland.analysis import SpotDiagram

WL = 0.55


def build(polarization):
    o = Optic()
    o.add_surface(index=0, thickness=np.inf)
    # front surface: annular aperture (central obscuration r<1, edge r>3),
    # absorbing glass behind it, simple AR coating T=0.95
    o.add_surface(index=1, thickness=5, radius=50, is_stop=True,
                  material=IdealMaterial(n=1.5, k=1e-6),
                  aperture=RadialAperture(r_max=3, r_min=1),
                  coating=SimpleCoating(0.95, 0.05))
    o.add_surface(index=2, thickness=90, radius=-50,
                  coating=SimpleCoating(0.9, 0.1))
    o.add_surface(index=3)
    o.set_aperture('EPD', 10)
    o.set_field_type('angle')
    o.add_field(0)
    o.add_wavelength(WL, is_primary=True)
    o.set_polarization(polarization)
    return o


def reference(o):
    """Own formula on the recorded intersection points (all surfaces here are
    un-tilted and centred, so global x, y are surface-frame x, y)."""
    sg = o.surface_group
    X, Y, Z = sg.x, sg.y, sg.z
    inten = np.ones(X.shape[1])
    for j in range(1, sg.num_surfaces):
        s = sg.surfaces[j]
        d = np.sqrt((X[j] - X[j-1])**2 + (Y[j] - Y[j-1])**2
                    + (Z[j] - Z[j-1])**2)
        k = sg.surfaces[j-1].material_post.k(WL)
        inten = inten * np.exp(-4 * np.pi * k * d * 1e3 / WL)
        if s.aperture is not None:
            r2 = X[j]**2 + Y[j]**2
            blocked = (r2 > s.aperture.r_max**2) | (r2 < s.aperture.r_min**2)
            inten = np.where(blocked, 0.0, inten)
        if s.coating is not None:
            inten = inten * s.coating.transmittance
    return inten


failures = []
states = {
    "unpolarized PolarizationState()": PolarizationState(),
    "linear x PolarizationState": PolarizationState(True, 1.0, 0.0, 0.0, 0.0),
}
ref_ignore = build('ignore').trace(0, 0, WL, num_rays=9, distribution='line_y').i
print("polarization='ignore'    rays.i =", np.round(ref_ignore, 5))

for name, state in states.items():
    o = build(state)
    rays = o.trace(0, 0, WL, num_rays=9, distribution='line_y')
    expected = reference(o)
    print(f"\n{name}")
    print("  heights at surface 1     =", o.surface_group.y[1])
    print("  expected (own formula)   =", np.round(expected, 5))
    print("  rays.i returned by trace =", np.round(rays.i, 5))
    print("  surface_group.intensity[-1] =",
          np.round(o.surface_group.intensity[-1], 5))
    print("  intensity recorded at surface 2 =",
          np.round(o.surface_group.intensity[2], 5))
    if not np.allclose(rays.i, expected, rtol=1e-9, atol=1e-12):
        failures.append(f"{name}: rays.i differs from own formula by up to "
                        f"{np.max(np.abs(rays.i - expected)):.3g}")
    if not np.allclose(expected, ref_ignore, rtol=1e-9, atol=1e-12):
        failures.append("reference formula disagrees with ignore-trace (?)")
    blocked = expected == 0
    if np.any(rays.i[blocked] != 0):
        failures.append(f"{name}: {np.sum(rays.i[blocked] != 0)} rays blocked "
                        "by the aperture have non-zero intensity at the image")
    if np.any(o.surface_group.intensity[-1] >
              o.surface_group.intensity[-2] + 1e-12):
        failures.append(f"{name}: intensity increases between surface 2 and "
                        "the image surface")
    sd = SpotDiagram(o, num_rings=3)
    n_nonzero = int(np.sum(sd.data[0][0][2] != 0))
    o_ref = build('ignore')
    n_expected = int(np.sum(SpotDiagram(o_ref, num_rings=3).data[0][0][2] != 0))
    print(f"  SpotDiagram: rays with non-zero intensity = {n_nonzero}, "
          f"expected {n_expected}")
    if n_nonzero != n_expected:
        failures.append(f"{name}: SpotDiagram reports {n_nonzero} transmitted "
                        f"rays, expected {n_expected}")

print()
if failures:
    print("PROPERTY C16 VIOLATED:")
    for f in failures:
        print("  -", f)
    sys.exit(1)
print("OK")

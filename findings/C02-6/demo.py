"""C02 defect 6: sag-defined surfaces on a flat base (radius = inf, which is the
factory DEFAULT for even_asphere / polynomial / chebyshev) and a standard
surface flattened with Optic.set_radius(np.inf, k) turn every ray into NaN.

Classic case: a Schmidt corrector plate (plane + r^4 term).
Independent reference: bracketing root finder on f(t) = z(t) - geometry.sag(x(t), y(t))
(the library's own sag evaluates fine with radius = inf) + own vector Snell law.
"""
import sys
import warnings
import numpy as np
from scipy.optimize import brentq
from optiland.optic import Optic
from optiland.materials import IdealMaterial

warnings.simplefilter('ignore')
WL = 0.55
fails = []


def build(first_kwargs):
    o = Optic()
    o.add_surface(index=0, radius=np.inf, thickness=np.inf)
    o.add_surface(index=1, thickness=3, material=IdealMaterial(n=1.5), is_stop=True, **first_kwargs)
    o.add_surface(index=2, radius=-80, thickness=100)
    o.add_surface(index=3)
    o.set_aperture('EPD', 10)
    o.set_field_type('angle')
    o.add_field(y=0)
    o.add_field(y=3)
    o.add_wavelength(WL, is_primary=True)
    return o


def reference_first_surface(o, rays):
    g = o.surface_group.surfaces[1].geometry
    out = []
    for i in range(rays.x.size):
        p0 = np.array([rays.x[i], rays.y[i], rays.z[i]])
        d = np.array([rays.L[i], rays.M[i], rays.N[i]])
        f = lambda t: (p0[2] + t * d[2]) - float(np.ravel(g.sag(np.array([p0[0] + t * d[0]]),
                                                                 np.array([p0[1] + t * d[1]])))[0])
        t = brentq(f, 0, 100, xtol=1e-14)
        out.append(p0 + t * d)
    return np.array(out)


Py = np.array([-1.0, -0.5, 0.0, 0.5, 1.0])
cases = {
    'even_asphere, default radius (Schmidt plate)': dict(surface_type='even_asphere', coefficients=[0.0, 1e-6]),
    'polynomial, default radius': dict(surface_type='polynomial', coefficients=[[0, 0, 1e-4], [0, 0, 0], [1e-4, 0, 0]]),
    'chebyshev, default radius': dict(surface_type='chebyshev', coefficients=[[0, 0, 1e-3], [0, 0, 0], [1e-3, 0, 0]],
                                      norm_x=20, norm_y=20),
}
for tag, kw in cases.items():
    o = build(kw)
    r0 = o.ray_generator.generate_rays(0.0, 1.0, np.zeros_like(Py), Py, WL)
    ref = reference_first_surface(o, r0)
    o.trace_generic(0.0, 1.0, np.zeros_like(Py), Py, WL)
    s1 = o.surface_group.surfaces[1]
    print(f'{tag}: geometry.radius = {s1.geometry.radius}')
    print('    independent hit  y =', np.round(ref[:, 1], 6), ' z =', np.round(ref[:, 2], 8))
    print('    library          y =', s1.y, ' z =', s1.z, ' N =', s1.N)
    if not np.allclose(s1.y, ref[:, 1], atol=1e-6, equal_nan=False):
        fails.append(tag)

# edit history: flatten a spherical surface
o = build(dict(radius=50.0))
o.trace_generic(0.0, 1.0, np.zeros_like(Py), Py, WL)
before = o.surface_group.surfaces[-1].y.copy()
o.set_radius(np.inf, 1)
o.trace_generic(0.0, 1.0, np.zeros_like(Py), Py, WL)
after = o.surface_group.surfaces[-1].y.copy()
p = build(dict(radius=np.inf))
p.trace_generic(0.0, 1.0, np.zeros_like(Py), Py, WL)
expected = p.surface_group.surfaces[-1].y
print('set_radius(np.inf, 1) on a sphere: image y =', after, '\n    same lens built flat     : image y =',
      np.round(expected, 6))
if not np.allclose(after, expected, atol=1e-9):
    fails.append('set_radius(np.inf) on StandardGeometry')

print()
if fails:
    print('FAIL: valid rays on flat-base surfaces are all reported as NaN:', *fails, sep='\n   ')
    sys.exit(1)
print('PASS')

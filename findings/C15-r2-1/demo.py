"""C15 / 1 - trials without compensators are evaluated with stale pickups.

A symmetric biconvex singlet whose rear radius is a pickup of the front radius
(R2 = -R1) is toleranced on R1.  The recorded operand values of a trial must be
the performance of the perturbed lens, i.e. of the lens R1 = value, R2 = -value.

Reference: thick-lens formula and an own exact meridional trace (numpy only).
"""
import sys
import warnings
import numpy as np

warnings.filterwarnings('ignore')

from optiland import optic
from optiland.materials import IdealMaterial
from optiland.tolerancing import (Tolerancing, SensitivityAnalysis,
                                  RangeSampler, ScalarSampler)
from optiland.tolerancing.monte_carlo import MonteCarlo

N = 1.5
T = 5.0
BFD = 45.0
R_NOM = 50.0
EPD = 10.0


def make_lens():
    o = optic.Optic()
    o.add_surface(index=0, thickness=np.inf)
    o.add_surface(index=1, thickness=T, radius=R_NOM, is_stop=True,
                  material=IdealMaterial(n=N))
    o.add_surface(index=2, thickness=BFD, radius=-R_NOM)
    o.add_surface(index=3)
    o.set_aperture('EPD', EPD)
    o.set_field_type('angle')
    o.add_field(0)
    o.add_wavelength(0.55, is_primary=True)
    # the rear surface follows the front surface: R2 = -R1
    o.pickups.add(1, 'radius', 2, scale=-1)
    return o


# ---------------------------------------------------------------- reference
def efl_thick(r1, r2):
    return 1.0 / ((N - 1) * (1 / r1 - 1 / r2 + (N - 1) * T / (N * r1 * r2)))


def refract(d, nrm, n1, n2):
    mu = n1 / n2
    cosi = -np.dot(d, nrm)
    sin2t = mu ** 2 * (1 - cosi ** 2)
    return mu * d + (mu * cosi - np.sqrt(1 - sin2t)) * nrm


def sphere_hit(p, d, zv, r):
    c = np.array([0.0, zv + r])
    oc = p - c
    b = np.dot(oc, d)
    disc = b * b - (np.dot(oc, oc) - r * r)
    s = -b - np.sqrt(disc) if r > 0 else -b + np.sqrt(disc)
    q = p + s * d
    nrm = (q - c) / r          # points against +z for both signs of r
    if nrm[1] > 0:
        nrm = -nrm
    return q, nrm


def marginal_height_at_image(r1, r2):
    """(y, z) meridional trace of the ray y = EPD / 2 parallel to the axis."""
    p = np.array([EPD / 2, -10.0])
    d = np.array([0.0, 1.0])
    p, nrm = sphere_hit(p, d, 0.0, r1)
    d = refract(d, nrm, 1.0, N)
    p, nrm = sphere_hit(p, d, T, r2)
    d = refract(d, nrm, N, 1.0)
    s = (T + BFD - p[1]) / d[1]
    return (p + s * d)[0]


# ------------------------------------------------------------------- checks
bad = 0


def check(label, value, got, expected, tol):
    global bad
    ok = abs(got - expected) <= tol
    print(f'{label:38s} R1={value:5.1f}  recorded={got: .6f}  '
          f'expected={expected: .6f}  {"ok" if ok else "VIOLATION"}')
    if not ok:
        bad += 1


def build(o, sampler):
    t = Tolerancing(o)
    t.add_operand('f2', {'optic': o})
    t.add_operand('real_y_intercept',
                  {'optic': o, 'surface_number': -1, 'Hx': 0, 'Hy': 0,
                   'Px': 0, 'Py': 1, 'wavelength': 0.55})
    t.add_perturbation('radius', sampler, surface_number=1)
    return t


# sanity: the nominal lens agrees with the reference
o = make_lens()
assert abs(o.paraxial.f2() - efl_thick(R_NOM, -R_NOM)) < 1e-9

# sensitivity analysis, no compensator
o = make_lens()
sa = SensitivityAnalysis(build(o, RangeSampler(45.0, 55.0, 3)))
sa.run()
df = sa.get_results()
for _, row in df.iterrows():
    v = row['perturbation_value']
    check('sensitivity  f2', v, row['0: f2'], efl_thick(v, -v), 1e-6)
    check('sensitivity  real y intercept', v, row['1: real y intercept'],
          marginal_height_at_image(v, -v), 1e-6)

# Monte Carlo, no compensator
o = make_lens()
mc = MonteCarlo(build(o, ScalarSampler(45.0)))
mc.run(2)
df = mc.get_results()
for _, row in df.iterrows():
    v = row['Radius of Curvature, Surface 1']
    check('monte carlo  f2', v, row['0: f2'], efl_thick(v, -v), 1e-6)
    check('monte carlo  real y intercept', v, row['1: real y intercept'],
          marginal_height_at_image(v, -v), 1e-6)

# for information: what the stale lens (R2 left at -50) would give
print('f2 of the lens R1=45, R2=-50 (pickup ignored):',
      efl_thick(45.0, -50.0))

sys.exit(1 if bad else 0)

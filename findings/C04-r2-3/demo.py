"""C04 / 3 - set_index() on the surface in front of a mirror leaves the old
medium behind the mirror.

Mangin mirror: front surface (glass), back surface = mirror, front surface
again.  A mirror is an index sign reversal: the medium behind it is the medium
in front of it.  After optic.set_index(1.7, 1) the paraxial data must be those
of a Mangin mirror made of n = 1.7 glass.  Reference: independent y-nu trace
with n = [1, 1.7, -1.7, -1, -1].
"""
import sys
import numpy as np
from optiland.optic import Optic
from optiland.materials import IdealMaterial

R = [np.inf, -100.0, -150.0, -100.0, np.inf]
t = [np.inf, 5.0, -5.0, -80.0]
EPD = 10.0
FIELD = 5.0


def build(n_glass):
    o = Optic()
    o.add_surface(index=0, thickness=np.inf)
    o.add_surface(index=1, radius=R[1], thickness=t[1],
                  material=IdealMaterial(n_glass), is_stop=True)
    o.add_surface(index=2, radius=R[2], thickness=t[2], material='mirror')
    o.add_surface(index=3, radius=R[3], thickness=t[3])
    o.add_surface(index=4)
    o.set_aperture('EPD', EPD)
    o.set_field_type('angle')
    o.add_field(0.0)
    o.add_field(FIELD)
    o.add_wavelength(0.55, is_primary=True)
    return o


def ynu(n_glass, y, u):
    """y-nu trace from surface 1; mirror = index sign reversal."""
    n = [1.0, n_glass, -n_glass, -1.0, -1.0]
    ys, us = [], []
    for j in (1, 2, 3):
        if j > 1:
            y = y + u * t[j - 1]
        u = (n[j - 1] * u - y * (n[j] - n[j - 1]) / R[j]) / n[j]
        ys.append(y)
        us.append(u)
    ys.append(y + u * t[3])
    return np.array(ys), np.array(us), n


optic = build(1.5)
optic.set_index(1.7, 1)          # change the Mangin glass

ya_ref, ua_ref, n = ynu(1.7, EPD / 2, 0.0)
yb_ref, ub_ref, _ = ynu(1.7, 0.0, np.tan(np.deg2rad(FIELD)))
f2_ref = abs(-(EPD / 2) / ua_ref[-1])
F2_ref = -ya_ref[-1] / ua_ref[-1]

P = optic.paraxial
ya, ua = [np.ravel(a) for a in P.marginal_ray()]
yb, ub = [np.ravel(a) for a in P.chief_ray()]
fresh = build(1.7).paraxial

fail = False


def cmp(name, got, exp):
    global fail
    ok = np.allclose(got, exp, rtol=1e-9, atol=1e-9)
    print(f'{name}:\n   library  = {np.asarray(got)}\n   expected = '
          f'{np.asarray(exp)}   {"ok" if ok else "VIOLATION"}')
    fail |= not ok


print('indices after the edit, optic.n() =', optic.n())
cmp('f2 (edited lens vs y-nu reference)', P.f2(), f2_ref)
cmp('f2 (edited lens vs lens built with n=1.7)', P.f2(), fresh.f2())
cmp('F2', P.F2(), F2_ref)
cmp('marginal ray heights (surfaces 1..image)', ya[1:], ya_ref)
cmp('marginal ray slopes (after surfaces 1..3)', ua[1:4], ua_ref)
cmp('chief ray heights (surfaces 1..image)', yb[1:], yb_ref)
# Lagrange invariant at each surface from the returned rays, with the signed
# indices of the intended prescription
H = np.array([n[j] * (yb[j] * ua[j] - ya[j] * ub[j]) for j in (1, 2, 3)])
cmp('Lagrange invariant at surfaces 1..3', H, H[0] * np.ones(3))

sys.exit(1 if fail else 0)

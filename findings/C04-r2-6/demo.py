"""C04 / 6 - EPD() (and FNO()) are negative for an objectNA aperture when the
entrance pupil lies on the far side of the object.

Plano-convex lens f = 100, stop 150 behind it (beyond the rear focal point):
the entrance pupil is real and lies 297 in front of the lens, i.e. *behind*
the object, which is 150 in front of the lens.  The entrance pupil diameter is
2 * |marginal ray height in the entrance pupil plane| > 0 and the F-number
f / EPD > 0.  Reference: independent y-nu trace.
"""
import sys
import numpy as np
from optiland.optic import Optic
from optiland.materials import IdealMaterial

NA = 0.05
o = Optic()
o.add_surface(index=0, thickness=150.0)
o.add_surface(index=1, radius=np.inf, thickness=4.0,
              material=IdealMaterial(1.5))
o.add_surface(index=2, radius=-50.0, thickness=150.0)
o.add_surface(index=3, thickness=200.0, is_stop=True)
o.add_surface(index=4)
o.set_aperture('objectNA', NA)
o.set_field_type('object_height')
o.add_field(0.0)
o.add_field(5.0)
o.add_wavelength(0.55, is_primary=True)

# ---- independent reference --------------------------------------------------
n_g = 1.5
# image of the stop centre through S2 then S1, traced backwards
y, u = 0.0, 1.0                    # at the stop, slope in the air before it
y = y - u * 150.0                  # back to S2
u = (1.0 * u + y * (1.0 - n_g) / (-50.0)) / n_g     # un-refract at S2
y = y - u * 4.0                    # back to S1
u = (n_g * u + 0.0) / 1.0          # un-refract at the plane S1
epl_ref = -y / u                   # z of the entrance pupil (S1 at z = 0)
u0 = np.tan(np.arcsin(NA))         # marginal ray from the axial object point
y_ep = u0 * (epl_ref - (-150.0))   # its height in the entrance pupil plane
epd_ref = 2 * abs(y_ep)
# focal length: parallel ray y = 1
uu = (0.0 - 1.0 * (1.0 - n_g) / (-50.0)) / 1.0
f_ref = abs(-1.0 / uu)
fno_ref = f_ref / epd_ref

P = o.paraxial
fail = False
for name, got, exp in [('EPL', P.EPL(), epl_ref), ('EPD', P.EPD(), epd_ref),
                       ('FNO', P.FNO(), fno_ref)]:
    ok = abs(got - exp) <= 1e-9 * (1 + abs(exp))
    print(f'{name}: library = {got:.9f}   expected = {exp:.9f}   '
          f'{"ok" if ok else "VIOLATION"}')
    fail |= not ok
sys.exit(1 if fail else 0)

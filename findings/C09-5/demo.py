import sys
import warnings
import numpy as np

warnings.filterwarnings('ignore')

from optiland.optic import Optic
from optiland.materials import IdealMaterial
from optiland.wavefront import Wavefront, OPD
from optiland.distribution import create_distribution

TOL = 1e-6   # waves; the reference reproduces the library to ~1e-9 on
             # configurations that are not affected by the defect


# ---------------------------------------------------------------------------
# Independent reference.  Only the GEOMETRY of the library's real ray trace is
# used (intersection points and direction cosines recorded on each surface).
# Optical paths, the object-space wavefront, the reference sphere and the leg
# from the image surface to the sphere are recomputed from first principles:
#   path = n_obj * (P0 . d0)                      (plane wavefront through the
#                                                  origin, infinite object only)
#        + sum_k n_k * (P_k - P_{k-1}) . d_{k-1}  (signed segment lengths)
#        + n_img * s                              (signed leg image -> sphere)
#   OPD  = (path_chief - path_ray) / wavelength
# ---------------------------------------------------------------------------
def _geometry(optic):
    surfs = optic.surface_group.surfaces
    P = np.stack([np.array([s.x, s.y, s.z]) for s in surfs])
    D = np.stack([np.array([s.L, s.M, s.N]) for s in surfs])
    return P, D


def _path_to_image(optic, wavelength):
    P, D = _geometry(optic)
    surfs = optic.surface_group.surfaces
    path = np.zeros(P.shape[2])
    if optic.object_surface.is_infinite:
        n_obj = surfs[0].material_post.n(wavelength)
        path += n_obj * np.sum(P[0] * D[0], axis=0)
    for k in range(1, len(surfs)):
        n = surfs[k].material_pre.n(wavelength)
        path += n * np.sum((P[k] - P[k - 1]) * D[k - 1], axis=0)
    # direction in which the rays ARRIVE at the image surface (= direction
    # after the last optical surface); whatever is declared behind the image
    # surface is irrelevant
    return path, P[-1], D[-2]


def _leg_to_sphere(optic, wavelength, Pimg, Dimg, C, R, E):
    n_img = optic.image_surface.material_pre.n(wavelength)
    rel = Pimg - C[:, None]
    b = np.sum(rel * Dimg, axis=0)
    c = np.sum(rel * rel, axis=0) - R**2
    root = np.sqrt(b**2 - c)
    s1, s2 = -b - root, -b + root
    d1 = np.linalg.norm(Pimg + s1 * Dimg - E[:, None], axis=0)
    d2 = np.linalg.norm(Pimg + s2 * Dimg - E[:, None], axis=0)
    s = np.where(d1 <= d2, s1, s2)      # the cap that contains the exit pupil
    return n_img * s


def reference_exit_pupil_z(optic):
    """z of the paraxial exit pupil: own y-u trace (primary wavelength) from
    the centre of the stop through the surfaces behind it; the image surface
    itself has no optical effect."""
    surfs = optic.surface_group.surfaces
    w = optic.primary_wavelength
    zpos = [float(np.ravel(p)[0]) for p in optic.surface_group.positions]
    k0 = optic.surface_group.stop_index
    y, u, z = 0.0, 0.1, zpos[k0]
    for k in range(k0 + 1, len(surfs) - 1):
        y += u * (zpos[k] - z)
        z = zpos[k]
        radius = surfs[k].geometry.radius
        if surfs[k].is_reflective:
            u = -u - 2 * y / radius
        else:
            n1 = surfs[k].material_pre.n(w)
            n2 = surfs[k].material_post.n(w)
            u = (n1 * u - y * (n2 - n1) / radius) / n2
    return z - y / u


def reference_opd(optic, field, wavelength, distribution):
    """OPD (waves) of exactly the rays the library traces for `distribution`"""
    Hx, Hy = field
    E = np.array([0.0, 0.0, reference_exit_pupil_z(optic)])

    optic.trace_generic(float(Hx), float(Hy), 0.0, 0.0, wavelength)
    pc, Pc, Dc = _path_to_image(optic, wavelength)
    C = Pc[:, 0].copy()
    R = np.linalg.norm(C - E)
    pc = pc + _leg_to_sphere(optic, wavelength, Pc, Dc, C, R, E)

    optic.trace(Hx, Hy, wavelength, None, distribution)
    pr, Pr, Dr = _path_to_image(optic, wavelength)
    pr = pr + _leg_to_sphere(optic, wavelength, Pr, Dr, C, R, E)
    return (pc[0] - pr) / (wavelength * 1e-3)


def compare(optic, label, num_rays=6, distribution='hexapolar'):
    """max |library - reference| over all fields / wavelengths (waves)"""
    wf = Wavefront(optic, num_rays=num_rays, distribution=distribution)
    worst = 0.0
    scale = 0.0
    for i, f in enumerate(wf.fields):
        for j, w in enumerate(wf.wavelengths):
            ref = reference_opd(optic, f, w, wf.distribution)
            lib = wf.data[i][j][0]
            dev = np.max(np.abs(lib - ref))
            print(f'  {label}: field Hy={f[1]:+.3f} wl={w:.4f}um  '
                  f'max|OPD_ref|={np.max(np.abs(ref)):10.4f}  '
                  f'max|OPD_lib|={np.max(np.abs(lib)):10.4f}  '
                  f'max|lib-ref|={dev:.3e} waves')
            worst = max(worst, dev)
            scale = max(scale, np.max(np.abs(ref)))
    return worst, scale


GLASS = IdealMaterial(n=1.5168)


def lens(vig):
    """finite conjugates, object-height fields 0 / 5 / 10 mm along y;
    `vig` = vignetting factors (vx = vy) of the three fields"""
    o = Optic()
    o.add_surface(index=0, thickness=150)
    o.add_surface(index=1, thickness=5, radius=60, material=GLASS)
    o.add_surface(index=2, thickness=10, radius=-60)
    o.add_surface(index=3, thickness=90, is_stop=True)
    o.add_surface(index=4)
    o.set_aperture('EPD', 12)
    o.set_field_type('object_height')
    for y, v in zip((0, 5, 10), vig):
        o.add_field(y=y, vx=v, vy=v)
    o.add_wavelength(0.55, is_primary=True)
    o.image_solve()
    return o


V = 0.3
print('C09 demo 5: pupil samples of a field with vignetting factor', V)
vig = lens((0.0, 0.0, V))
twin = lens((0.0, 0.0, 0.0))
wl, field, nfan = 0.55, (0, 1), 11

print('reference reproduces the library on both lenses (same rays):')
c1, _ = compare(twin, 'twin')
c2, _ = compare(vig, 'vig ')

# where do the rays of the nominal y fan cross the paraxial entrance pupil?
fan = create_distribution('line_y')
fan.generate_points(nfan)
w_vig = Wavefront(vig, fields=[field], wavelengths=[wl], num_rays=nfan,
                  distribution=fan)
vig.trace(*field, wl, None, fan)
s0 = vig.surface_group.surfaces[0]
y0, z0, M0, N0 = s0.y.copy(), s0.z.copy(), s0.M.copy(), s0.N.copy()
EPL, EPD = vig.paraxial.EPL(), vig.paraxial.EPD()
py_crossed = (y0 + (EPL - z0) * M0 / N0) / (EPD / 2)
print('\nnominal Py of the fan           :', np.round(fan.y, 3))
print('documented sample Py*(1-vy)      :', np.round(fan.y * (1 - V), 3))
print('entrance-pupil crossing, library :', np.round(py_crossed, 3),
      ' = Py*(1-vy)^2')


def twin_fan(py):
    d = create_distribution('line_y')
    d.generate_points(nfan)
    d.y = np.asarray(py, dtype=float)
    return Wavefront(twin, fields=[field], wavelengths=[wl], num_rays=nfan,
                     distribution=d).data[0][0][0]


lib = w_vig.data[0][0][0]
expected = twin_fan(fan.y * (1 - V))
squared = twin_fan(fan.y * (1 - V)**2)
print('\nOPD fan, vignetted lens (library)          :', np.round(lib, 3))
print('OPD of the twin lens at Py*(1-vy) (expected):', np.round(expected, 3))
print('OPD of the twin lens at Py*(1-vy)^2         :', np.round(squared, 3))
dev = np.max(np.abs(lib - expected))
print(f'max |library - expected| = {dev:.3f} waves '
      f'(max |library - squared| = {np.max(np.abs(lib - squared)):.1e})')

assert max(c1, c2) < TOL
assert np.max(np.abs(py_crossed - fan.y * (1 - V))) < 1e-9, (
    'the fan of a field with vignetting factor v is launched at Py*(1-v)^2: '
    'Optic.trace and RayGenerator.generate_rays both compress the pupil')
assert dev < TOL

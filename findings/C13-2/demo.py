"""C13 demo 2: a sensitivity (or Monte-Carlo) tolerance analysis with a
refractive-index perturbation leaves the lens with a different glass: the
catalogue material is replaced by a dispersion-free IdealMaterial, although
the analysis "resets the system to its nominal state" when it finishes.

Run:  PYTHONPATH=/tmp/hunt/C13 /venv/bin/python demo.py
"""
import json
import warnings
import numpy as np

warnings.filterwarnings('ignore')

from optiland.samples.objectives import CookeTriplet
from optiland.tolerancing.core import Tolerancing
from optiland.tolerancing.sensitivity_analysis import SensitivityAnalysis
from optiland.tolerancing.perturbation import RangeSampler


def frozen(lens):
    return json.dumps(lens.to_dict(), sort_keys=True)


def marginal_heights(lens):
    """image height of the on-axis full-aperture ray for every wavelength"""
    return np.array([lens.trace_generic(0.0, 0.0, 0.0, 1.0, w).y[0]
                     for w in lens.wavelengths.get_wavelengths()])


# independent reference: identical lens on which no analysis is run
reference = CookeTriplet()
y_ref = marginal_heights(reference)
n_ref = np.array([reference.n(w)[1]
                  for w in reference.wavelengths.get_wavelengths()])

lens = CookeTriplet()
before = frozen(lens)
assert np.array_equal(marginal_heights(lens), y_ref)

# ---- the analysis: index of the first element, +-0.001 about nominal,
#      evaluated at the primary wavelength
pw = lens.primary_wavelength
n0 = float(lens.n(pw)[1])
tol = Tolerancing(lens)
tol.add_operand('f2', {'optic': lens})
tol.add_perturbation('index', RangeSampler(n0 - 1e-3, n0 + 1e-3, 3),
                     surface_number=1, wavelength=pw)
SensitivityAnalysis(tol).run()

after = frozen(lens)
y_after = marginal_heights(lens)
n_after = np.array([lens.n(w)[1] for w in lens.wavelengths.get_wavelengths()])

print('wavelengths (um)                 :', lens.wavelengths.get_wavelengths())
print('glass after surface 1, expected  :',
      type(reference.surface_group.surfaces[1].material_post).__name__,
      reference.surface_group.surfaces[1].material_post.name)
print('glass after surface 1, observed  :',
      type(lens.surface_group.surfaces[1].material_post).__name__,
      lens.surface_group.surfaces[1].material_post.to_dict())
print('index of element 1, expected     :', n_ref)
print('index of element 1, observed     :', n_after)
print('marginal ray height, expected    :', y_ref)
print('marginal ray height, observed    :', y_after)
print('deviation (mm)                   :', y_after - y_ref)
print('to_dict() unchanged by analysis  :', before == after)

assert before == after, \
    'SensitivityAnalysis.run() changed the lens prescription'
assert np.array_equal(y_after, y_ref), \
    'ray trace changed after the tolerance analysis'

"""C11 / 1 - finite object + field type 'angle': spurious wavefront tilt.

A slow (about f/50) biconvex singlet images a point of a FINITE object plane.
The field is given as an angle (valid for finite objects: the ray generator
and paraxial module both support it).  The wavefront is referred to a sphere
centred on the chief-ray image point, so the Strehl ratio must be ~1.

Reference: own OPD computation from the traced rays (numpy only):
  W = [OPL(chief) - OPL(ray)] to the reference sphere, Strehl = |<exp(i2piW)>|^2
"""
import sys
import warnings
import numpy as np
warnings.simplefilter('ignore')
from optiland import optic
from optiland.psf import FFTPSF
from optiland.distribution import create_distribution

WL = 0.55
N_GLASS = 1.5


def make():
    from optiland import materials
    o = optic.Optic()
    glass = materials.IdealMaterial(n=N_GLASS)
    o.add_surface(index=0, radius=np.inf, thickness=200)
    o.add_surface(index=1, radius=100.0, thickness=5, material=glass,
                  is_stop=True)
    o.add_surface(index=2, radius=-100.0, thickness=196.0)
    o.add_surface(index=3)
    o.set_aperture(aperture_type='EPD', value=4.0)
    o.set_field_type(field_type='angle')
    o.add_field(y=0)
    o.add_field(y=2.0)
    o.add_wavelength(value=WL, is_primary=True)
    o.update_paraxial()
    o.image_solve()
    return o


def reference_strehl(o, field, num_rays):
    """Own reference-sphere OPD from the ray data (no library wavefront code)"""
    sg = o.surface_group
    # exit pupil: image of the stop (surface 1 vertex) through the lens,
    # own y-nu trace of a ray leaving the stop centre with slope 0.1
    y, u, n = 0.0, 0.1, 1.0
    c1, c2, t = 1 / 100.0, -1 / 100.0, 5.0
    u = (n * u - y * c1 * (N_GLASS - n)) / N_GLASS
    y = y + u * t
    u2 = (N_GLASS * u - y * c2 * (1.0 - N_GLASS)) / 1.0
    z_xp = sg.positions[2, 0] - y / u2       # global z of the exit pupil

    def opl_to_sphere(xc, yc, zc, R):
        x, yy, z = sg.x[-1], sg.y[-1], sg.z[-1]
        L, M, N = sg.L[-2], sg.M[-2], sg.N[-2]
        # go back from the image point along the ray to the sphere
        dx, dy, dz = x - xc, yy - yc, z - zc
        b = -(L * dx + M * dy + N * dz)
        c = dx**2 + dy**2 + dz**2 - R**2
        t = -b + np.sqrt(b**2 - c)          # distance travelled backwards
        return sg.opd[-1] - t               # image medium is air

    o.trace_generic(*field, 0.0, 0.0, WL)
    xc, yc, zc = sg.x[-1, 0], sg.y[-1, 0], sg.z[-1, 0]
    R = np.sqrt(xc**2 + yc**2 + (zc - z_xp)**2)
    ref = opl_to_sphere(xc, yc, zc, R)[0]
    d = create_distribution('uniform')
    d.generate_points(num_rays)
    o.trace(*field, WL, None, d)
    W = (ref - opl_to_sphere(xc, yc, zc, R)) / (WL * 1e-3)
    return np.abs(np.mean(np.exp(2j * np.pi * W)))**2, np.ptp(W)


o = make()
bad = False
for field in [(0.0, 0.0), (0.0, 1.0)]:
    s_ref, pv_ref = reference_strehl(o, field, 64)
    p = FFTPSF(o, field, WL, num_rays=64, grid_size=256)
    s_lib = p.strehl_ratio()
    pv_lib = np.ptp(p.data[0][0][0])
    print(f'field {field}: Strehl library {s_lib:.4f}  reference {s_ref:.4f}'
          f' | OPD PV library {pv_lib:.3f} waves  reference {pv_ref:.3f}')
    if abs(s_lib - s_ref) > 0.02:
        bad = True
if bad:
    print('VIOLATED: Strehl of a finite-conjugate point given as an angle '
          'field is wrong (spurious plane-wave tilt term in the OPD)')
    sys.exit(1)
print('ok')
sys.exit(0)

"""C11 defect 1: zero padding drops a row/column when grid_size - num_rays is odd.

A stigmatic system (on-axis paraboloid) has an unaberrated pupil, so its
Strehl ratio must be 1 and its PSF must be the squared modulus of the
grid_size x grid_size DFT of the sampled pupil, whatever the parity of
num_rays.
"""
import sys
import numpy as np
from optiland import optic
from optiland.psf import FFTPSF


def paraboloid():
    lens = optic.Optic()
    lens.add_surface(index=0, thickness=np.inf)
    lens.add_surface(index=1, radius=-200, conic=-1, thickness=-100,
                     material='mirror', is_stop=True)
    lens.add_surface(index=2)
    lens.set_aperture('EPD', 20)
    lens.set_field_type('angle')
    lens.add_field(y=0)
    lens.add_wavelength(0.55, is_primary=True)
    return lens


def reference_psf(num_rays, grid_size):
    """|DFT|^2 of the unaberrated sampled pupil on a grid_size^2 grid,
    peak scaled to 100 (own implementation, no optiland code)."""
    x = np.linspace(-1, 1, num_rays)
    X, Y = np.meshgrid(x, x)
    pupil = (X**2 + Y**2 <= 1).astype(complex)
    big = np.zeros((grid_size, grid_size), dtype=complex)
    big[:num_rays, :num_rays] = pupil          # position only changes phase
    psf = np.abs(np.fft.fftshift(np.fft.fft2(big)))**2
    return psf / psf.max() * 100


failures = []
lens = paraboloid()
for num_rays, grid_size in [(64, 256), (65, 256), (33, 64), (64, 255)]:
    psf = FFTPSF(lens, (0, 0), 0.55, num_rays=num_rays, grid_size=grid_size)
    ref = reference_psf(num_rays, grid_size)
    strehl = psf.strehl_ratio()
    ok_shape = psf.psf.shape == (grid_size, grid_size)
    ok_strehl = abs(strehl - 1) < 1e-6
    ok_pix = ok_shape and np.allclose(psf.psf, ref, atol=1e-6)
    print(f'num_rays={num_rays:3d} grid_size={grid_size:4d}: psf.shape='
          f'{psf.psf.shape} (expected {(grid_size, grid_size)}), '
          f'strehl_ratio()={strehl:.6f} (expected 1.000000), '
          f'pixelwise equal to |DFT|^2: {ok_pix}')
    if not (ok_shape and ok_strehl and ok_pix):
        failures.append((num_rays, grid_size))

if failures:
    print('FAIL: unaberrated pupil, but Strehl != 1 / PSF has wrong size for',
          failures)
    sys.exit(1)
print('PASS')

"""C12 / defect 4: rays that were blocked (intensity 0) by an obscuration or a
physical aperture still enter the centroid, the RMS radius and the geometric
radius of SpotDiagram / EncircledEnergy / RmsSpotSizeVsField and the
rms_spot_size operand, with full weight.

Run:  PYTHONPATH=/tmp/hunt/C12 /venv/bin/python demo.py
"""
import sys
import numpy as np
from optiland.optic import Optic
from optiland.physical_apertures import RadialAperture
from optiland.samples.telescopes import HubbleTelescope
from optiland.analysis import SpotDiagram, EncircledEnergy
from optiland.optimization.operand.ray import RayOperand

failures = []


def check(name, got, exp, rtol=1e-6):
    ok = np.allclose(got, exp, rtol=rtol, atol=1e-12)
    print(f'[{"ok" if ok else "FAIL"}] {name}\n       observed: {got}\n'
          f'       expected: {exp}')
    if not ok:
        failures.append(name)


def transmitted_stats(lens, field, wl, num_rings, dist):
    """centroid / rms / geometric radius of the rays that reach the image."""
    rays = lens.trace(field[0], field[1], wl, num_rings, dist)
    x, y, i = rays.x, rays.y, rays.i
    keep = i > 0
    cx = np.sum(i[keep] * x[keep]) / np.sum(i[keep])
    cy = np.sum(i[keep] * y[keep]) / np.sum(i[keep])
    r2 = (x[keep] - cx)**2 + (y[keep] - cy)**2
    return (cx, cy), np.sqrt(np.mean(r2)), np.sqrt(np.max(r2)), \
        int(keep.sum()), keep.size


def clipped_singlet():
    """f/2.5 singlet, stop in front; a 6 mm clear radius on the rear surface
    removes the strongly aberrated outer zone of the beam."""
    lens = Optic()
    lens.add_surface(index=0, radius=np.inf, thickness=np.inf)
    lens.add_surface(index=1, radius=np.inf, thickness=2, is_stop=True)
    lens.add_surface(index=2, radius=30, thickness=6, material='N-BK7')
    lens.add_surface(index=3, radius=-200, thickness=47,
                     aperture=RadialAperture(r_max=6.0))
    lens.add_surface(index=4)
    lens.set_aperture('EPD', 20.0)
    lens.set_field_type('angle')
    lens.add_field(0)
    lens.add_field(3)
    lens.add_wavelength(0.55, is_primary=True)
    return lens


for name, lens in [('HubbleTelescope (shipped sample, central obscuration)',
                    HubbleTelescope()),
                   ('singlet with a clipping rear aperture',
                    clipped_singlet())]:
    print('=====', name)
    wl = lens.primary_wavelength
    spot = SpotDiagram(lens, num_rings=8, distribution='hexapolar')
    k = len(spot.fields) - 1
    field = spot.fields[k]
    (cx, cy), rms, geo, nkeep, ntot = transmitted_stats(lens, field, wl, 8,
                                                        'hexapolar')
    print(f'field {field}: {nkeep} of {ntot} rays transmitted')
    check('SpotDiagram.centroid()', np.array(spot.centroid()[k]), (cx, cy))
    check('SpotDiagram.rms_spot_radius()', spot.rms_spot_radius()[k][0], rms)
    check('SpotDiagram.geometric_spot_radius()',
          spot.geometric_spot_radius()[k][0], geo)
    check('RayOperand.rms_spot_size()',
          RayOperand.rms_spot_size(lens, -1, field[0], field[1], 8, wl,
                                   'hexapolar'), rms)
    ee = EncircledEnergy(lens, num_rays=8, distribution='hexapolar')
    check('EncircledEnergy.centroid()', np.array(ee.centroid()[k]), (cx, cy))

if failures:
    print(f'\n{len(failures)} check(s) failed')
    sys.exit(1)
print('all checks passed')

"""C18 / 4 - catalogue data files are UTF-8 but are opened with the locale's default
encoding, so in a process whose preferred encoding is not UTF-8 most catalogue
entries cannot be loaded at all (UnicodeDecodeError).

The child process below is an ordinary Python run in the POSIX "C" locale with
UTF-8 mode off (what one gets e.g. from cron / a minimal container with
PYTHONUTF8=0, or - with cp1252 instead of ascii - from Python < 3.15 on Windows).
It loads N-BK7 and beta-BBO and prints n_d; the parent compares with its own
evaluation of the dispersion formulas printed in the data files.
"""
import os
import subprocess
import sys
import numpy as np

CHILD = r'''
import io, contextlib, locale, sys
from optiland.materials import Material
print("ENC", locale.getpreferredencoding(False))
for name, ref in [("N-BK7 (SCHOTT)", None), ("BaB2O4", "Tamosauskas-o")]:
    try:
        with contextlib.redirect_stdout(io.StringIO()):
            m = Material(name, ref)
        print("N", name, repr(float(m.n(0.5875618))))
    except Exception as e:
        print("EXC", name, type(e).__name__, str(e)[:90])
'''


def formula2(c, w):
    s = 1 + c[0]
    for i in range(1, len(c), 2):
        s += c[i] * w**2 / (w**2 - c[i + 1])
    return np.sqrt(s)


# coefficients copied from glass/schott/N-BK7.yml (formula 2) and
# main/BaB2O4/Tamosauskas-o.yml (formula 2)
expected = {
    'N-BK7 (SCHOTT)': formula2([0, 1.03961212, 0.00600069867, 0.231792344,
                                0.0200179144, 1.01046945, 103.560653],
                               0.5875618),
    'BaB2O4': formula2([0, 0.90291, 0.003926, 0.83155, 0.018786,
                        0.76536, 60.01], 0.5875618),
}

env = dict(os.environ)
env.update({'LC_ALL': 'C', 'LANG': 'C', 'PYTHONUTF8': '0',
            'PYTHONCOERCECLOCALE': '0'})
env.pop('PYTHONIOENCODING', None)
out = subprocess.run([sys.executable, '-c', CHILD], env=env,
                     capture_output=True, text=True, encoding='utf-8',
                     errors='replace')
print(out.stdout.strip())
if out.returncode != 0:
    print(out.stderr[-400:])

bad = 0
seen = set()
for line in out.stdout.splitlines():
    if line.startswith('EXC'):
        bad += 1
    if line.startswith('N '):
        for key, val in expected.items():
            if key in line:
                got = float(line.rsplit(' ', 1)[1])
                seen.add(key)
                print(f"{key}: library n_d = {got:.9f}, data-file formula = "
                      f"{val:.9f}")
                if abs(got - val) > 1e-9:
                    bad += 1
missing = set(expected) - seen
for key in missing:
    print(f"{key}: expected n_d = {expected[key]:.9f}, library returned nothing")
if bad or missing or out.returncode != 0:
    print("FAIL")
    sys.exit(1)
print("OK")
sys.exit(0)

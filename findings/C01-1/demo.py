"""C01 defect 1: Optic.image_solve() misplaces the image when the image space
is not air (image surface added with the default material).

Independent check: a hand-written y-nu paraxial trace of the marginal ray
through the prescription (read back from the public observers) gives the
paraxial focus; image_solve() must put the image vertex there, i.e. the
marginal ray height on the image surface must be 0.
"""
import sys
import numpy as np
from optiland.optic import Optic
from optiland.materials import IdealMaterial

N_GLASS, N_IMAGE_SPACE = 1.5, 1.33   # e.g. a lens focusing into water

lens = Optic()
lens.add_surface(index=0, thickness=np.inf)
lens.add_surface(index=1, radius=50, thickness=5,
                 material=IdealMaterial(N_GLASS), is_stop=True)
lens.add_surface(index=2, radius=-50, thickness=60,
                 material=IdealMaterial(N_IMAGE_SPACE))
lens.add_surface(index=3)            # image surface, default arguments
lens.set_aperture('EPD', 10)
lens.set_field_type('angle')
lens.add_field(0)
lens.add_wavelength(0.55, is_primary=True)

lens.image_solve()

# ---- independent y-nu trace (infinite object, marginal ray y = EPD/2) ----
z = lens.surface_group.positions.ravel()
R = lens.surface_group.radii
n = lens.n(0.55)
y, u = 10 / 2, 0.0
for k in (1, 2):                      # the two refracting surfaces
    if k > 1:
        y = y + u * (z[k] - z[k - 1])
    u = (n[k - 1] * u - y * (n[k] - n[k - 1]) / R[k]) / n[k]
z_focus = z[2] - y / u                # where the ray crosses the axis
y_at_image = y + u * (z[3] - z[2])    # height on the image vertex plane

ya, ua = lens.paraxial.marginal_ray()
print('image vertex after image_solve() :', z[3])
print('paraxial focus (own y-nu trace)  :', z_focus)
print('marginal ray height at image, own trace      :', y_at_image)
print('marginal ray height at image, optic.paraxial :', ya[-1][0])
print('expected height at image                     : 0')

ok = abs(z[3] - z_focus) < 1e-9 * abs(z_focus) and abs(ya[-1][0]) < 1e-9
if not ok:
    print('FAIL: image_solve() did not move the image to the paraxial focus '
          '(error %.4f mm; applied shift / required shift = %.4f = 1/n_image)'
          % (z[3] - z_focus, (z[3] - 65.0) / (z_focus - 65.0)))
assert ok

"""C10 / defect 2: ZernikeFit stops on scipy's ABSOLUTE gradient tolerance
(gtol=1e-8, the least_squares default) although the problem is linear and
scale free.  For small-valued data (|z| * n_points <~ 1e-8, e.g. a wavefront
or surface error expressed in metres / millimetres instead of waves) the very
first optimality test  max|J^T f| < 1e-8  succeeds at the initial guess and
the "fit" returns all-zero coefficients.

Expected: data that are an exact combination of the first N terms give back
those coefficients; fit(s*z) == s*fit(z) for every s.
"""
import numpy as np
from optiland.zernike import (ZernikeFit, ZernikeFringe, ZernikeStandard,
                              ZernikeNoll)
from optiland.distribution import create_distribution

CLS = {'fringe': ZernikeFringe, 'standard': ZernikeStandard,
       'noll': ZernikeNoll}
failures = []
rng = np.random.default_rng(0)

for dist, n in (('hexapolar', 15), ('hexapolar', 6), ('uniform', 9)):
    d = create_distribution(dist)
    d.generate_points(n)
    x, y = d.x, d.y
    r, p = np.hypot(x, y), np.arctan2(y, x)
    for kind in ('fringe', 'standard', 'noll'):
        N = 11
        c = rng.uniform(0.5, 1.5, size=N) * rng.choice([-1, 1], size=N)
        z1 = CLS[kind](list(c)).poly(r, p)          # exact combination
        ref = np.array(ZernikeFit(x, y, z1, kind, N).coeffs)
        for s in (1.0, 1e-6, 1e-9, 1e-10, 1e-11, 1e-12):
            got = np.array(ZernikeFit(x, y, s * z1, kind, N).coeffs)
            err = np.max(np.abs(got - s * c)) / (s * np.max(np.abs(c)))
            print(f'{dist}({len(x)} pts) {kind:8s} N={N} s={s:5.0e}: '
                  f'got[:3]={np.array2string(got[:3], precision=3)} '
                  f'expected[:3]={np.array2string(s*c[:3], precision=3)} '
                  f'rel.err={err:.2e}')
            if err > 1e-9:
                failures.append(f'{dist}/{len(x)}pts {kind} s={s:g}: '
                                f'rel.err {err:.2e} (all coefficients zero: '
                                f'{bool(np.all(got == 0))})')

print()
if failures:
    print('PROPERTY VIOLATED (coefficients not recovered / fit not '
          'homogeneous in the data):')
    for f in failures:
        print('  ', f)
assert not failures
print('ok')

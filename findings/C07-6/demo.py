"""C07 / dummy-surface clause, insertion as an EDIT of an existing lens.

The same prescription table (surface 1 -> 2 mm glass -> dummy plane -> 3 mm of
the same glass -> surface 2 ...) is produced in three ways:

  B  built from scratch, surfaces added in order 0..N          (reference)
  C2 existing lens, then  add_surface(index=2, dummy, thickness=3)
                          set_thickness(2.0, 1)
  C3 existing lens, then  set_thickness(2.0, 1)
                          add_surface(index=2, dummy, thickness=3)

The dummy separates equal media, so all three must reproduce the rays of the
original lens A (no dummy).  Independent expectation for the vertex positions:
cumulative sum of the thickness column of the table.
"""
import sys
import warnings
import numpy as np
from optiland.optic import Optic
from optiland.materials import IdealMaterial

warnings.simplefilter('ignore')
WL = 0.55
GLASS = IdealMaterial(1.6)

ORIGINAL = [
    dict(radius=np.inf, thickness=np.inf),
    dict(radius=40.0, thickness=5.0, material=GLASS),
    dict(radius=-60.0, thickness=6.0),
    dict(radius=np.inf, thickness=7.0, is_stop=True),
    dict(radius=80.0, thickness=4.0, material=IdealMaterial(1.5)),
    dict(radius=-45.0, thickness=60.0),
    dict(),
]
DUMMY = dict(radius=np.inf, thickness=3.0, material=GLASS)   # glass | glass
T1_NEW = 2.0                                                # 2 + 3 = 5

WITH_DUMMY = [dict(r) for r in ORIGINAL]
WITH_DUMMY[1]['thickness'] = T1_NEW
WITH_DUMMY.insert(2, DUMMY)


def build(rows):
    o = Optic()
    for i, row in enumerate(rows):
        o.add_surface(index=i, **row)
    o.set_aperture('EPD', 8.0)
    o.set_field_type('angle')
    o.add_field(0.0)
    o.add_field(5.0)
    o.add_wavelength(WL, is_primary=True)
    return o


def image_ray(o):
    r = o.trace_generic(0.0, 1.0, 0.3, 0.7, WL)
    return np.array([r.x[0], r.y[0], r.L[0], r.M[0], r.N[0], r.opd[0]])


expected_pos = np.concatenate(
    [[-np.inf], np.cumsum([0.0] + [r.get('thickness', 0.0)
                                   for r in WITH_DUMMY[1:-1]])])

A = build(ORIGINAL)
ref = image_ray(A)
print('A  original lens              image ray', ref)

B = build(WITH_DUMMY)
print('B  built in order             positions', B.surface_group.positions.ravel())
print('                              image ray', image_ray(B))

C2 = build(ORIGINAL)
C2.add_surface(index=2, **DUMMY)
C2.set_thickness(T1_NEW, 1)
print('C2 add_surface, set_thickness positions', C2.surface_group.positions.ravel())
print('                              image ray', image_ray(C2))

C3 = build(ORIGINAL)
C3.set_thickness(T1_NEW, 1)
C3.add_surface(index=2, **DUMMY)
print('C3 set_thickness, add_surface positions', C3.surface_group.positions.ravel())
print('                              image ray', image_ray(C3))
print('expected (cumulative thickness) positions', expected_pos)

assert np.allclose(image_ray(B), ref, atol=1e-9), 'reference build broken'
assert np.allclose(B.surface_group.positions.ravel()[1:], expected_pos[1:])

bad = []
for name, o in (('C2', C2), ('C3', C3)):
    pos_ok = np.allclose(o.surface_group.positions.ravel()[1:], expected_pos[1:])
    ray_ok = np.allclose(image_ray(o), ref, atol=1e-9)     # NaN -> False
    print(f'{name}: positions as prescribed: {pos_ok}; rays unchanged by the '
          f'dummy: {ray_ok}; max |d ray| = '
          f'{np.abs(image_ray(o) - ref).max()}')
    if not (pos_ok and ray_ok):
        bad.append(name)
assert not bad, ('inserting a dummy surface between equal media into an '
                 'existing lens changed the system: ' + ', '.join(bad))
sys.exit(0)

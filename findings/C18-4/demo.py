"""C18 defect 4: a catalogue entry whose data file gives BOTH a dispersion
formula and a 'tabulated nk' block cannot be loaded at all.

Entry: organic/(C6H9NO)n - polyvinylpyrrolidone/Konig.yml  (two catalogue
rows: 'König et al. 2014: n,k 0.375–1.0 µm' and 'PVP - Polyvinylpyrrolidone').
The file's formula 5 (Cauchy) and its nk table describe the same curve, to 1.3e-5
(rounded coefficients); either one is accepted as the expected index.

Independent path: own Cauchy evaluation and own linear interpolation of the
file's table.
"""
import csv
import os
import traceback

import numpy as np
import yaml

import optiland
from optiland.materials import Material
from optiland.materials.material_file import MaterialFile

DB = os.path.join(os.path.dirname(os.path.dirname(optiland.__file__)),
                  'database')
FILE = 'organic/(C6H9NO)n - polyvinylpyrrolidone/Konig.yml'

with open(os.path.join(DB, 'catalog_nk.csv'), newline='',
          encoding='utf-8') as f:
    rows = [r for r in csv.DictReader(f) if r['filename'] == FILE]
print('catalogue rows for this file:')
for r in rows:
    print('   ', r['name'], '|', r['min_wavelength'], '-', r['max_wavelength'])
assert len(rows) == 2

with open(os.path.join(DB, 'data-nk', FILE), encoding='utf-8') as f:
    data = yaml.safe_load(f)
print('DATA block types:', [b['type'] for b in data['DATA']])
c = [float(x) for x in data['DATA'][0]['coefficients'].split()]
tab = np.array([[float(x) for x in ln.split()]
                for ln in data['DATA'][1]['data'].strip().splitlines()])

ws = np.linspace(0.375, 1.0, 26)            # the table nodes
n_formula = c[0] + c[1] * ws**c[2] + c[3] * ws**c[4]
n_table = np.interp(ws, tab[:, 0], tab[:, 1])
k_table = np.interp(ws, tab[:, 0], tab[:, 2])
print('formula vs table in the file: max |dn| =',
      np.max(np.abs(n_formula - n_table)))
assert np.max(np.abs(n_formula - n_table)) < 2e-5   # same curve (rounded)

failures = []
for label, build in (
        ('MaterialFile(path)',
         lambda: MaterialFile(os.path.join(DB, 'data-nk', FILE))),
        (f"Material({rows[0]['name']!r})", lambda: Material(rows[0]['name'])),
        (f"Material({rows[1]['name']!r})", lambda: Material(rows[1]['name']))):
    try:
        m = build()
        n = m.n(ws)
        k = m.k(ws)
        dn = min(np.max(np.abs(n - n_formula)), np.max(np.abs(n - n_table)))
        dk = np.max(np.abs(k - k_table))
        print(f'{label}: max|dn|={dn:.3g} max|dk|={dk:.3g}')
        if dn > 1e-9 or dk > 1e-12:
            failures.append(label)
    except Exception as e:           # noqa
        print(f'{label}: raised {type(e).__name__}: {e}')
        print(f'    expected n(0.5)={n_formula[5]:.8f}, k(0.5)={k_table[5]:.6g}')
        failures.append(label)

assert not failures, f'catalogue entry cannot be evaluated: {failures}'

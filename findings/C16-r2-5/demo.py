"""C16 / 5 - the OPD map shown by OPD.view() is the OPD multiplied by the ray
intensity: a coating or an absorbing glass, which only change the intensity,
rescale the reported wavefront."""
import sys
import warnings
import numpy as np

warnings.filterwarnings('ignore')
import matplotlib
matplotlib.use('Agg')
from optiland.optic import Optic
from optiland.materials import IdealMaterial
from optiland.coatings import SimpleCoating
from optiland.wavefront import OPD

WL = 0.55


def build(T=None, k=0.0):
    o = Optic()
    o.add_surface(index=0, thickness=np.inf)
    o.add_surface(index=1, radius=40, thickness=5, is_stop=True,
                  material=IdealMaterial(1.5, k),
                  coating=SimpleCoating(T, 1 - T) if T else None)
    o.add_surface(index=2, radius=-200, thickness=66,
                  coating=SimpleCoating(T, 1 - T) if T else None)
    o.add_surface(index=3)
    o.set_aperture('EPD', 12)
    o.set_field_type('angle')
    o.add_field(0)
    o.add_wavelength(WL, is_primary=True)
    return o


def opd_map(optic):
    opd = OPD(optic, (0, 0), WL)
    z = opd._generate_opd_map(64)['z']        # what OPD.view() draws
    samples = opd.data[0][0][0]               # OPD of the traced rays, waves
    inten = opd.data[0][0][1]
    return z, samples, inten


z_ref, s_ref, _ = opd_map(build())            # bare, lossless lens
pv_ref = np.nanmax(z_ref) - np.nanmin(z_ref)

bad = False
for name, optic in [('T = 0.9 coating on both faces', build(T=0.9)),
                    ('absorbing glass k = 1e-5', build(k=1e-5))]:
    z, s, inten = opd_map(optic)
    # the geometry is unchanged, so the optical path differences are too
    same_paths = np.allclose(s, s_ref, atol=1e-9)
    pv = np.nanmax(z) - np.nanmin(z)
    ratio = z / z_ref
    ok = np.allclose(z, z_ref, atol=1e-6, equal_nan=True)
    print(f'{name}: ray OPD samples equal to the bare lens: {same_paths}; '
          f'ray intensities {inten.min():.3f} .. {inten.max():.3f}')
    print(f'   OPD map peak-to-valley: library {pv:.3f} waves, expected '
          f'{pv_ref:.3f} waves (PV of the ray samples '
          f'{s.max() - s.min():.3f}); map / expected = '
          f'{np.nanmin(ratio):.3f} .. {np.nanmax(ratio):.3f}'
          f'  -> {"ok" if ok else "VIOLATED"}')
    bad |= not ok

sys.exit(1 if bad else 0)

"""C18 defect 1: exact-name lookup returns an entry with a different name.

Independent path: read database/catalog_nk.csv with the csv module, take rows
whose `name` column equals the query exactly, evaluate the Sellmeier formula
of that row's YAML file by hand, and compare with what Material(...) returns.
"""
import csv
import io
import contextlib
import os
import sys

import numpy as np
import yaml

import optiland
from optiland.materials import Material

ROOT = os.path.join(os.path.dirname(os.path.dirname(optiland.__file__)),
                    'database')
with open(os.path.join(ROOT, 'catalog_nk.csv'), newline='',
          encoding='utf-8') as f:
    ROWS = list(csv.DictReader(f))


def own_index(filename, w):
    """n(w) from the YAML file, formulas 1/2/3 and tables only (own code)."""
    with open(os.path.join(ROOT, 'data-nk', filename), encoding='utf-8') as f:
        data = yaml.safe_load(f)
    for blk in data['DATA']:
        t = blk['type']
        if t.startswith('formula'):
            c = [float(x) for x in blk['coefficients'].split()]
            if t == 'formula 1':
                return np.sqrt(1 + c[0] + sum(
                    c[i] * w**2 / (w**2 - c[i + 1]**2)
                    for i in range(1, len(c) - 1, 2)))
            if t == 'formula 2':
                return np.sqrt(1 + c[0] + sum(
                    c[i] * w**2 / (w**2 - c[i + 1])
                    for i in range(1, len(c) - 1, 2)))
            if t == 'formula 3':
                return np.sqrt(c[0] + sum(
                    c[i] * w**c[i + 1] for i in range(1, len(c) - 1, 2)))
            if t == 'formula 5':
                return c[0] + sum(
                    c[i] * w**c[i + 1] for i in range(1, len(c) - 1, 2))
        if t in ('tabulated n', 'tabulated nk'):
            arr = np.array([[float(x) for x in ln.split()]
                            for ln in blk['data'].strip().splitlines()])
            o = np.argsort(arr[:, 0], kind='stable')
            return np.interp(w, arr[o, 0], arr[o, 1])
    raise RuntimeError('unsupported file ' + filename)


# (query name, vendor reference or None)
QUERIES = [
    ('SF6', None), ('BAF2', None), ('SF5', None), ('SF10', None),
    ('SF11', None), ('BAF10', None),
    ('SF5', 'schott'), ('SF10', 'schott'), ('SF11', 'schott'),
    ('SF5', 'hikari'),
    # controls: these work
    ('SF6', 'schott'), ('SF2', 'schott'),
]

failures = []
for name, ref in QUERIES:
    exact = [r for r in ROWS if r['name'] == name and
             (ref is None or ref.lower() in r['filename'].lower())]
    assert exact, f'catalogue has no row named {name!r}'   # query is derivable
    with contextlib.redirect_stdout(io.StringIO()) as out:
        m = Material(name, ref)
    warned = 'Warning' in out.getvalue()
    got_name = m.material_data['name']
    got_file = m.material_data['filename']
    w = 0.65
    n_lib = float(m.n(w))
    n_exp = [float(own_index(r['filename'], w)) for r in exact]
    ok = got_name == name
    print(f'Material({name!r}, {ref!r}): returned name={got_name!r} '
          f'file={got_file!r} n(0.65)={n_lib:.6f}; exact-name rows: '
          f'{[(r["filename"], round(x, 6)) for r, x in zip(exact, n_exp)]} '
          f'"no exact match" warning printed: {warned} -> '
          f'{"ok" if ok else "WRONG ENTRY"}')
    if not ok:
        failures.append((name, ref, got_name, n_lib, n_exp))

print()
print(f'{len(failures)} of {len(QUERIES)} exact-name queries returned an '
      f'entry whose name differs from the query')
for name, ref, got, n_lib, n_exp in failures:
    print(f'   {name!r:8} ref={ref!r:9} got {got!r}; n(0.65) {n_lib:.6f} '
          f'expected one of {[round(x, 6) for x in n_exp]}')
assert not failures, 'exact-name lookup returned a differently named entry'

"""C12 / defect 3: GridDistortion.data['max_distortion'] is garbage (141 %, or
NaN) whenever num_points is odd, because the grid then contains the on-axis
node, whose relative distortion is evaluated as 0/0 (round-off / round-off).

Run:  PYTHONPATH=/tmp/hunt/C12 /venv/bin/python demo.py
"""
import sys
import warnings
import numpy as np
from optiland.samples.objectives import CookeTriplet, ReverseTelephoto
from optiland.analysis import GridDistortion
from optiland.optimization.operand.ray import RayOperand

warnings.simplefilter('ignore')
failures = []


def independent_max_distortion(lens, n, wl):
    """max over the grid nodes of |r_real - r_paraxial| / |r_paraxial| (in %),
    nodes traced one by one through RayOperand; the on-axis node (paraxial
    image height exactly zero, distortion undefined) carries no distortion."""
    theta_max = np.radians(lens.fields.max_field)
    eps = 1e-7
    f = (RayOperand.y_intercept(lens, -1, 0.0, eps, 0.0, 0.0, wl)
         / np.tan(eps * theta_max))
    ext = np.linspace(-np.sqrt(2) / 2, np.sqrt(2) / 2, n)
    worst = 0.0
    for hx in ext:
        for hy in ext:
            if abs(hx) < 1e-12 and abs(hy) < 1e-12:
                continue
            xr = RayOperand.x_intercept(lens, -1, hx, hy, 0.0, 0.0, wl)
            yr = RayOperand.y_intercept(lens, -1, hx, hy, 0.0, 0.0, wl)
            # same sign convention as the library: +Hx images to -f*tan
            xp = -f * np.tan(hx * theta_max)
            yp = f * np.tan(hy * theta_max)
            worst = max(worst, 100 * np.hypot(xr - xp, yr - yp)
                        / np.hypot(xp, yp))
    return worst


for cls in [CookeTriplet, ReverseTelephoto]:
    lens = cls()
    wl = lens.primary_wavelength
    for n in [10, 11, 5]:
        got = GridDistortion(lens, num_points=n).data['max_distortion']
        exp = independent_max_distortion(lens, n, wl)
        ok = np.isclose(got, exp, rtol=1e-3)
        print(f'[{"ok" if ok else "FAIL"}] {cls.__name__} num_points={n}: '
              f'max_distortion observed {got!r}, expected {exp!r}')
        if not ok:
            failures.append((cls.__name__, n))

if failures:
    print(f'\n{len(failures)} check(s) failed: {failures}')
    sys.exit(1)
print('all checks passed')

"""C11 / 6 - FFTMTF.view(add_reference=True) draws the diffraction limit with
the user's max_freq as if it were the cut-off.

Unaberrated paraboloid f/10 at 0.55 um: cut-off 1/(lambda F) = 181.8 c/mm.
The user asks for a plot up to 90 c/mm: FFTMTF(o, max_freq=90).
The reference curve must still be (2/pi)(phi - cos phi sin phi) with
phi = acos(f / 181.8); the MTF of the lens must not exceed it.
"""
import sys
import warnings
import numpy as np
warnings.simplefilter('ignore')
import matplotlib
matplotlib.use('Agg')
import matplotlib.pyplot as plt
from optiland import optic
from optiland.mtf import FFTMTF

WL, EPD, FL = 0.55, 10.0, 100.0


def make():
    o = optic.Optic()
    o.add_surface(index=0, radius=np.inf, thickness=np.inf)
    o.add_surface(index=1, radius=-2 * FL, conic=-1.0, thickness=-FL,
                  material='mirror', is_stop=True)
    o.add_surface(index=2)
    o.set_aperture(aperture_type='EPD', value=EPD)
    o.set_field_type(field_type='angle')
    o.add_field(y=0)
    o.add_wavelength(value=WL, is_primary=True)
    return o


def diff_limit(f, cutoff):
    phi = np.arccos(np.clip(f / cutoff, 0, 1))
    return 2 / np.pi * (phi - np.cos(phi) * np.sin(phi))


cutoff = 1 / (WL * 1e-3 * FL / EPD)
bad = False
for max_freq in ('cutoff', 90.0, 400.0):
    plt.close('all')
    m = FFTMTF(make(), num_rays=64, grid_size=256, max_freq=max_freq)
    m.view(add_reference=True)
    ax = plt.gcf().axes[0]
    lines = {ln.get_label(): ln for ln in ax.lines}
    ref_line = lines['Diffraction Limit']
    tan_line = [ln for lab, ln in lines.items() if 'Tangential' in lab][0]
    f = np.asarray(ref_line.get_xdata())
    ref_lib = np.asarray(ref_line.get_ydata())
    mtf = np.asarray(tan_line.get_ydata())
    ref = diff_limit(f, cutoff)
    sel = f <= min(cutoff, ax.get_xlim()[1])
    dev = np.max(np.abs(ref_lib - ref)[sel])
    exc = np.max((mtf - ref_lib)[sel])
    k = int(np.argmax(np.abs(ref_lib - ref) * sel))
    flag = dev > 0.02 or exc > 0.02
    bad |= flag
    print(f'max_freq={max_freq}: plotted "Diffraction Limit" at '
          f'{f[k]:.1f} c/mm = {ref_lib[k]:.3f}, expected {ref[k]:.3f} '
          f'(cut-off {cutoff:.1f} c/mm); max deviation {dev:.3f}; '
          f'max(MTF - plotted limit) = {exc:+.3f}'
          f'{"   <-- VIOLATED" if flag else ""}')
if bad:
    print('VIOLATED: reference curve is not the diffraction limit; the '
          'unaberrated MTF lies above / far below it')
    sys.exit(1)
print('ok')
sys.exit(0)

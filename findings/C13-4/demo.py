"""C13 demo 4: the transverse ray error reported by RayFan for one
(field, wavelength) depends on what else is listed in the same call: if the
wavelength occurs twice in the list (explicit list, or a lens that carries the
same wavelength twice), the chief-ray offset is subtracted twice and the whole fan is shifted by the chief-ray height.

Run:  PYTHONPATH=/tmp/hunt/C13 /venv/bin/python demo.py
"""
import warnings
import numpy as np

warnings.filterwarnings('ignore')

from optiland.samples.objectives import CookeTriplet
from optiland.analysis import RayFan

lens = CookeTriplet()
w = lens.primary_wavelength
field = (0.0, 1.0)
n = 11

# independent computation of the quantity: y(Py) - y(chief) from trace_generic
Py = np.linspace(-1, 1, n)
z = np.zeros(n)
rays = lens.trace_generic(z + field[0], z + field[1], z, Py, w)
own = rays.y - rays.y[n // 2]

single = RayFan(lens, fields=[field], wavelengths=[w], num_points=n)
double = RayFan(lens, fields=[field], wavelengths=[w, w], num_points=n)
ey_single = single.data[f'{field}'][f'{w}']['y']
ey_double = double.data[f'{field}'][f'{w}']['y']

print('chief ray height at the image            : %.6f mm' % rays.y[n // 2])
print('own  ey(Py)        :', np.round(own, 6))
print('RayFan, [w]        :', np.round(ey_single, 6))
print('RayFan, [w, w]     :', np.round(ey_double, 6))
print('max |RayFan[w]   - own| : %.3e mm' % np.max(np.abs(ey_single - own)))
print('max |RayFan[w,w] - own| : %.3e mm' % np.max(np.abs(ey_double - own)))
print('ey at Py=0, expected 0, observed (list [w, w]) : %.6f mm'
      % ey_double[n // 2])

assert np.allclose(ey_single, own, atol=1e-12)
assert np.allclose(ey_double, ey_single, atol=1e-12), \
    'ray-fan data of wavelength w changed because w is listed twice: ' \
    'shift %.6f mm' % (ey_double[n // 2] - ey_single[n // 2])

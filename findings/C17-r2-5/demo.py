"""C17 / 5 - Fresnel *reflection*: the p coefficient enters the Jones matrix with
the wrong sign for the output basis (s, k1 x s) used by the trace.  At normal
incidence the reflected field is not r * E_in: 'L+45' light comes back as
'L-45' (the orthogonal state), and for nearly normal rays the reflected field
jumps with the azimuth of the ray.

Reference (textbook Fresnel, numpy only), with s = k0 x k1 / |..|,
p_i = k0 x s, p_r = k1 x s:
    E_r = r_s (E.s) s + r_p (E.p_i) p_r
    r_s = (n1 ci - n2 ct) / (n1 ci + n2 ct),  r_p = (n2 ci - n1 ct) / (n2 ci + n1 ct)
which gives E_r = ((n1-n2)/(n1+n2)) E_in at normal incidence (isotropy) and
E_r -> -E_in at grazing incidence.  States are compared through the fidelity
|<E_ref|E_lib>|^2 / (|E_ref|^2 |E_lib|^2), which is blind to any global phase
or sign convention: 1 = same polarization state, 0 = orthogonal state.
"""
import sys
import warnings
import numpy as np
from optiland.optic import Optic
from optiland.coatings import FresnelCoating
from optiland.materials import IdealMaterial
from optiland.rays import create_polarization, PolarizationState
from optiland.surfaces.standard_surface import Surface
from optiland.geometries import Plane
from optiland.coordinate_system import CoordinateSystem

warnings.filterwarnings('ignore')
n1, n2 = 1.0, 1.5
air, glass = IdealMaterial(n=n1), IdealMaterial(n=n2)

o = Optic()
o.add_surface(index=0, thickness=np.inf)
# an uncoated glass face used in reflection (ghost / beam-sampler geometry)
face = Surface(Plane(CoordinateSystem(z=0.0)), air, glass, is_stop=True,
               is_reflective=True, coating=FresnelCoating(air, glass))
o.add_surface(new_surface=face, index=1, thickness=-10)
o.add_surface(index=2)
o.surface_group.surfaces[2].geometry.cs.z = -10.0
o.surface_group.surfaces[2].material_pre = air
o.surface_group.surfaces[2].material_post = air
o.set_aperture('EPD', 2)
o.set_field_type('angle')
o.add_field(y=0)
o.add_field(y=60)
o.add_wavelength(0.55, is_primary=True)


def launch(d, st):
    p = np.cross(d, [1., 0., 0.])
    p /= np.linalg.norm(p)
    s = np.cross(p, d)
    return st.Ex * np.exp(1j * st.phase_x) * s + st.Ey * np.exp(1j * st.phase_y) * p


def reference(d, E):
    nrm = np.array([0., 0., 1.])
    ci = abs(d @ nrm)
    ct = np.sqrt(1 - (n1 / n2)**2 * (1 - ci**2))
    d1 = d - 2 * (d @ nrm) * nrm
    s = np.cross(d, d1)
    if np.linalg.norm(s) < 1e-14:
        s = np.cross(d, [1., 0., 0.])
    s /= np.linalg.norm(s)
    rs = (n1 * ci - n2 * ct) / (n1 * ci + n2 * ct)
    rp = (n2 * ci - n1 * ct) / (n2 * ci + n1 * ct)
    return rs * (E @ s) * s + rp * (E @ np.cross(d, s)) * np.cross(d1, s)


states = {k: create_polarization(k) for k in
          ('H', 'V', 'L+45', 'L-45', 'RCP', 'LCP')}
states['arbitrary'] = PolarizationState(True, 0.3, -0.8, 0.4, 2.0)

bad = False
# (Hx, Hy): normal incidence, two azimuths at 0.06 deg, two azimuths at 36/60 deg
cases = [(0, 0), (0, 1e-3), (6e-4, 8e-4), (0, 1), (0.6, 0.8)]
for Hx, Hy in cases:
    for name, st in states.items():
        o.set_polarization(st)
        rays = o.trace(Hx, Hy, 0.55, num_rays=1, distribution='line_y')
        d = np.array([rays._L0[0], rays._M0[0], rays._N0[0]])
        E0 = launch(d, st)
        E_lib = rays.get_output_field(E0[np.newaxis, :])[0]
        E_ref = reference(d, E0)
        inten = float(rays.i[0])
        fid = abs(np.vdot(E_ref, E_lib))**2 / (
            np.vdot(E_ref, E_ref).real * np.vdot(E_lib, E_lib).real)
        ok = fid > 1 - 1e-9 and abs(inten - np.vdot(E_ref, E_ref).real) < 1e-9
        if not ok:
            bad = True
        if name in ('L+45', 'RCP'):
            print(f'H=({Hx:g},{Hy:g}) {name:9s} R_lib={inten:.5f} '
                  f'R_ref={np.vdot(E_ref, E_ref).real:.5f}  '
                  f'E_lib={np.round(E_lib, 4)}  E_ref={np.round(E_ref, 4)}  '
                  f'fidelity={fid:.4f}  {"ok" if ok else "VIOLATION"}')

# ---- the same slip without any coating: a plain mirror ('mirror' material,
# identity Jones matrix in the (s, k1 x s) basis).  An ideal mirror returns
# E_r = -E_in + 2 (E_in.n) n, i.e. -E_in at normal incidence: the same state.
m = Optic()
m.add_surface(index=0, thickness=np.inf)
m.add_surface(index=1, thickness=-10, material='mirror', is_stop=True)
m.add_surface(index=2)
m.set_aperture('EPD', 2)
m.set_field_type('angle')
m.add_field(y=0)
m.add_field(y=1)
m.add_wavelength(0.55, is_primary=True)
nrm = np.array([0., 0., 1.])
for Hx, Hy in [(0, 0), (0, 1e-2), (6e-3, 8e-3)]:
    for name in ('L+45', 'RCP'):
        st = states[name]
        m.set_polarization(st)
        rays = m.trace(Hx, Hy, 0.55, num_rays=1, distribution='line_y')
        d = np.array([rays._L0[0], rays._M0[0], rays._N0[0]])
        E0 = launch(d, st)
        E_lib = rays.get_output_field(E0[np.newaxis, :])[0]
        E_ref = -E0 + 2 * (E0 @ nrm) * nrm
        fid = abs(np.vdot(E_ref, E_lib))**2 / (
            np.vdot(E_ref, E_ref).real * np.vdot(E_lib, E_lib).real)
        ok = fid > 1 - 1e-9
        bad |= not ok
        print(f'plain mirror H=({Hx:g},{Hy:g}) {name:5s} '
              f'E_lib={np.round(E_lib, 4)}  E_ref={np.round(E_ref, 4)}  '
              f'fidelity={fid:.4f}  {"ok" if ok else "VIOLATION"}')

sys.exit(1 if bad else 0)

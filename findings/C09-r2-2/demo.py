"""C09 / 2 - reference sphere / pupil sampling ignore the r^2 term of an even
asphere (paraxial trace uses geometry.radius only).

The even asphere `radius=inf, coefficients=[0.01]` has the sag 0.01 r^2, i.e.
it IS the paraboloid `radius=50, conic=-1`.  Two set-ups of the same singlet
(object at infinity, field 10 deg along y, EPD 10):
  A  stop 10 mm in front of the lens  -> the exit pupil is the image of the
     stop through the lens,
  B  stop on the rear lens surface    -> the entrance pupil is the image of
     the stop through the aspheric front surface.
The reported OPD is compared with an independent computation (own y-nu trace
for the pupils with the vertex curvature 1/R + 2*c1, own real ray trace of the
conic, own reference sphere).
"""
import sys
import numpy as np
from optiland.optic import Optic
from optiland.materials import IdealMaterial
from optiland.wavefront import Wavefront
from optiland.distribution import create_distribution

WL, EPD, FIELD, NG = 0.55, 10.0, 10.0, 1.5
# z, vertex radius, conic, index after
SURFS = [(0.0, np.inf, 0.0, 1.0), (10.0, 50.0, -1.0, NG), (15.0, -60.0, 0.0, 1.0)]
ZIMG = 70.0


def build(stop):
    lens = Optic()
    lens.add_surface(index=0, thickness=np.inf)
    lens.add_surface(index=1, radius=np.inf, thickness=10, is_stop=(stop == 1))
    lens.add_surface(index=2, surface_type='even_asphere', radius=np.inf,
                     coefficients=[0.01], thickness=5,
                     material=IdealMaterial(NG))
    lens.add_surface(index=3, radius=-60, thickness=55, is_stop=(stop == 3))
    lens.add_surface(index=4)
    lens.set_aperture('EPD', EPD)
    lens.set_field_type('angle')
    lens.add_field(0.0)
    lens.add_field(FIELD)
    lens.add_wavelength(WL, is_primary=True)
    return lens


def ynu_forward(y, u, z, first):
    """own paraxial trace from (y, u) at z through surfaces first.. to image"""
    n = 1.0 if first == 0 else SURFS[first - 1][3]
    for zs, R, k, n2 in SURFS[first:]:
        y += u * (zs - z)
        z = zs
        u = (n * u - y * (n2 - n) / R) / n2
        n = n2
    return y + u * (ZIMG - z), u


def exit_pupil_z(stop):      # stop: index into SURFS
    if stop == len(SURFS) - 1:
        return SURFS[stop][0]
    y, u = ynu_forward(0.0, 0.1, SURFS[stop][0], stop + 1)
    return ZIMG - y / u


def entrance_pupil_z(stop):
    y, u, z = 0.0, 0.1, SURFS[stop][0]
    for j in range(stop - 1, -1, -1):
        zs, R, k, n_after = SURFS[j]
        n_before = 1.0 if j == 0 else SURFS[j - 1][3]
        y += u * (zs - z)
        z = zs
        u = (n_after * u - y * (n_before - n_after) / R) / n_before
    return z - y / u


def real_trace(P, d, opl):
    n = 1.0
    for zs, R, k, n2 in SURFS:
        if np.isinf(R):
            t = (zs - P[:, 2]) / d[:, 2]
            P = P + t[:, None] * d
            nrm = np.tile([0.0, 0.0, 1.0], (len(P), 1))
        else:
            c = 1 / R
            o = P - [0, 0, zs]
            A = c * (d[:, 0]**2 + d[:, 1]**2 + (1 + k) * d[:, 2]**2)
            B = 2 * c * (o[:, 0] * d[:, 0] + o[:, 1] * d[:, 1]
                         + (1 + k) * o[:, 2] * d[:, 2]) - 2 * d[:, 2]
            C = c * (o[:, 0]**2 + o[:, 1]**2 + (1 + k) * o[:, 2]**2) - 2 * o[:, 2]
            t = 2 * C / (-B + np.sqrt(B * B - 4 * A * C))
            P = P + t[:, None] * d
            q = P - [0, 0, zs]
            nrm = np.stack([c * q[:, 0], c * q[:, 1],
                            c * (1 + k) * q[:, 2] - 1], axis=1)
            nrm /= np.linalg.norm(nrm, axis=1)[:, None]
        opl = opl + n * t
        cosi = np.sum(nrm * d, axis=1)
        nrm = nrm * np.sign(cosi)[:, None]
        cosi = np.abs(cosi)
        mu = n / n2
        d = mu * d + (np.sqrt(1 - mu**2 * (1 - cosi**2)) - mu * cosi)[:, None] * nrm
        n = n2
    t = (ZIMG - P[:, 2]) / d[:, 2]
    return P + t[:, None] * d, d, opl + n * t


def reference_opd(px, py, stop):
    epl, zxp = entrance_pupil_z(stop), exit_pupil_z(stop)
    f = np.radians(FIELD)
    d0 = np.array([0.0, np.sin(f), np.cos(f)])

    def run(px, py):
        px = np.atleast_1d(np.asarray(px, float))
        py = np.atleast_1d(np.asarray(py, float))
        P = np.stack([px * EPD / 2, py * EPD / 2, np.full_like(px, epl)], 1)
        return real_trace(P, np.tile(d0, (len(px), 1)), P @ d0)

    Pc, dc, oc = run(0.0, 0.0)
    centre = Pc[0]
    rad = np.linalg.norm(centre - [0, 0, zxp])

    def sph(P, d, o):
        q = P - centre
        b = np.sum(q * d, axis=1)
        return o - b - np.sqrt(b * b - np.sum(q * q, axis=1) + rad**2)

    P, d, o = run(px, py)
    return (sph(Pc, dc, oc) - sph(P, d, o)) / (WL * 1e-3), epl, zxp - ZIMG


dist = create_distribution('hexapolar')
dist.generate_points(3)
bad = False
for name, stop in (('A (stop in front)', 1), ('B (stop on rear surface)', 3)):
    lens = build(stop)
    lib = Wavefront(lens, fields=[(0.0, 1.0)], wavelengths=[WL], num_rays=3,
                    distribution=dist).data[0][0][0]
    ref, epl, xpl = reference_opd(dist.x, dist.y, stop - 1)
    err = np.max(np.abs(lib - ref))
    print(f'{name}: EPL library {lens.paraxial.EPL():.6f} expected {epl:.6f};'
          f' XPL library {lens.paraxial.XPL():.6f} expected {xpl:.6f};'
          f' f2 library {lens.paraxial.f2():.4f} expected 55.3846')
    print(f'    max |OPD library - OPD expected| = {err:.4e} waves '
          f'(max |OPD| {np.max(np.abs(ref)):.3f})')
    if err > 1e-4:
        bad = True
if bad:
    print('VIOLATED: the reference sphere does not reach the paraxial exit '
          'pupil / the pupil samples are not those of the paraxial entrance '
          'pupil')
    sys.exit(1)
print('property holds')
sys.exit(0)

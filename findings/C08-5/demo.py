"""C08 defect 5: the per-surface operand wrappers AberrationOperand.TSC ... TchC
index the term arrays with `surface_number` instead of `surface_number - 1`.
The arrays returned by optic.aberrations.TSC() etc. hold surfaces 1 .. N-2
(slot 0 = surface 1; the object surface 0 has no entry), so
AberrationOperand.X(optic, k) returns the contribution of surface k+1, raises
IndexError for the last lens surface, and returns surface 1 for k = 0 (object).

Independent path: the all-in-one call optic.aberrations.third_order() and an
own classical evaluation of TSC for a given surface number, where "surface
number" has the meaning it has everywhere else in the library
(optic.set_radius(value, surface_number), surface_group.surfaces[k],
RayOperand surface_number, variables): 0 = object, 1 = first lens surface.
"""
import contextlib
import io
import sys
import numpy as np
from optiland import optic
from optiland.optimization.operand import AberrationOperand, Operand

with contextlib.redirect_stdout(io.StringIO()):
    o = optic.Optic()
    o.add_surface(index=0, radius=np.inf, thickness=np.inf)
    o.add_surface(index=1, radius=50, thickness=5, material='N-BK7',
                  is_stop=True)
    o.add_surface(index=2, radius=-60, thickness=2, material=('SF1', 'schott'))
    o.add_surface(index=3, radius=-300, thickness=90)
    o.add_surface(index=4)
    o.set_aperture(aperture_type='EPD', value=10)
    o.set_field_type(field_type='angle')
    o.add_field(y=0)
    o.add_field(y=3)
    o.add_wavelength(value=0.4861)
    o.add_wavelength(value=0.5876, is_primary=True)
    o.add_wavelength(value=0.6563)


def tsc_of_surface(o, k):
    """Smith's TSC of surface k (k = index in surface_group.surfaces)."""
    sg = o.surface_group
    z = np.array([float(np.ravel(p)[0]) for p in sg.positions])
    R = np.array([float(r) for r in sg.radii])
    c = np.where(np.isinf(R), 0.0, 1.0 / R)
    n = np.array([float(np.ravel(v)[0]) for v in o.n()])
    N = len(z)
    y = np.zeros(N)
    u = np.zeros(N)
    y[1] = o.aperture.value / 2
    for j in range(1, N):
        if j > 1:
            y[j] = y[j - 1] + u[j - 1] * (z[j] - z[j - 1])
        u[j] = (n[j - 1] * u[j - 1] - y[j] * c[j] * (n[j] - n[j - 1])) / n[j]
    i = u[k - 1] + y[k] * c[k]
    return (n[k - 1] * (n[k] - n[k - 1]) * y[k] * (u[k] + i) * i * i
            / (2 * n[k] * n[-1] * u[-1]))


names = ['TSC', 'SC', 'CC', 'TCC', 'TAC', 'AC', 'TPC', 'PC', 'DC',
         'TAchC', 'LchC', 'TchC']
allin = dict(zip(names, [np.ravel(a) for a in o.aberrations.third_order()]))
nsurf = o.surface_group.num_surfaces          # 5: object, 3 lens, image
failures = 0
print('surface  classical TSC   third_order()[k-1]   AberrationOperand.TSC(o,k)'
      '   Operand("TSC", surface_number=k)')
for k in range(1, nsurf - 1):
    own = tsc_of_surface(o, k)
    assert np.isclose(own, allin['TSC'][k - 1], rtol=1e-9)
    try:
        got = float(AberrationOperand.TSC(o, k))
    except IndexError as e:
        got = 'IndexError'
    try:
        op = Operand('TSC', 0.0, 1.0, {'optic': o, 'surface_number': k})
        got2 = float(op.value)
    except IndexError:
        got2 = 'IndexError'
    print('   %d     %+.6e    %+.6e        %-22s     %s'
          % (k, own, allin['TSC'][k - 1], got, got2))
    if got == 'IndexError' or not np.isclose(got, own, rtol=1e-9):
        failures += 1

# all twelve wrappers share the indexing
bad = []
for nm in names:
    f = getattr(AberrationOperand, nm)
    for k in range(1, nsurf - 1):
        try:
            v = float(f(o, k))
            if not np.isclose(v, allin[nm][k - 1], rtol=1e-9, atol=0):
                bad.append((nm, k))
        except IndexError:
            bad.append((nm, k))
print('wrapper/surface pairs disagreeing with third_order():', len(bad),
      'of', len(names) * (nsurf - 2))
print('AberrationOperand.TSC(o, 0)  (object surface, has no term) ->',
      float(AberrationOperand.TSC(o, 0)), '= term of surface 1')
if failures or bad:
    print('FAIL: AberrationOperand.X(optic, k) returns the term of surface '
          'k+1 (IndexError for the last lens surface)')
    sys.exit(1)
print('OK')

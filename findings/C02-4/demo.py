"""C02 defect 4: zero or negative propagation distances are rejected
(`t < 0 -> inf/nan`) or lose their sign (`np.linalg.norm`) in every
`distance()` implementation.

(a) two coincident spherical surfaces (thickness 0, e.g. a dummy/stop surface
    lying on the first lens surface): rounding makes t = -1e-15 for some rays,
    the near root is thrown away and the ray is sent to the FAR side of the
    sphere (finite point, z ~ 2R, not on the sag surface);
(b) a dummy plane followed by a negative thickness (virtual propagation back
    to a lens surface): sphere -> far-side root, even asphere -> propagates
    +|t| instead of -|t|;
(c) bundled sample Microscope20x: its own image_solve() puts the image plane
    0.196 mm in front of the last surface; Plane.distance turns every ray into
    NaN positions (with finite direction cosines).

Independent check: the recorded point, expressed in the surface frame, must
satisfy z = sag(x, y); and it must equal my own line/sphere intersection
(root on the vertex cap, signed distance allowed).
"""
import sys
import warnings
import numpy as np
from optiland.optic import Optic
from optiland.materials import IdealMaterial
from optiland.samples.microscopes import Microscope20x

warnings.simplefilter('ignore')
WL = 0.55
fails = []


def sphere_cap_hit(p0, d, R, zv):
    """Intersection of p0 + t d with the sphere of radius R, vertex (0,0,zv);
    returns the root whose z is closest to the vertex plane (either sign of t)."""
    p = p0 - np.array([0, 0, zv])
    b = 2 * (np.sum(p * d, 1) - R * d[:, 2])
    c = np.sum(p * p, 1) - 2 * R * p[:, 2]
    disc = np.sqrt(b * b - 4 * c)
    t = np.stack([(-b + disc) / 2, (-b - disc) / 2], 1)
    z = p[:, 2:3] + t * d[:, 2:3]
    pick = np.argmin(np.abs(z), 1)
    t = t[np.arange(len(t)), pick]
    return p0 + t[:, None] * d, t


def report(tag, o, k, R):
    S = o.surface_group.surfaces
    s, sp = S[k], S[k - 1]
    zv = float(np.ravel(s.geometry.cs.z)[0])
    P = np.stack([s.x, s.y, s.z], 1)
    p0 = np.stack([sp.x, sp.y, sp.z], 1)
    d = np.stack([sp.L, sp.M, sp.N], 1)
    ref, t = sphere_cap_hit(p0, d, R, zv)
    fin = np.all(np.isfinite(P), 1)
    sag = s.geometry.sag(P[:, 0], P[:, 1])
    off = np.abs((P[:, 2] - zv) - sag)
    off = np.where(fin & ~np.isfinite(off), np.inf, off)
    n_bad = int(np.sum(fin & (off > 1e-6)))
    n_lost = int(np.sum(~fin & np.all(np.isfinite(ref), 1)))
    worst = float(np.nanmax(np.where(fin, off, 0)))
    print(f'{tag}\n    rays: {len(P)}, finite but off the surface: {n_bad} '
          f'(worst |z - sag| = {worst:.3f} mm), valid rays reported non-finite: {n_lost}; '
          f'signed distance of the true hit: [{t.min():.2e}, {t.max():.2e}] mm')
    if n_bad:
        i = int(np.argmax(np.where(fin, off, 0)))
        print(f'    e.g. ray {i}: library z = {P[i, 2]:.4f}, independent z = {ref[i, 2]:.6f}')
    if n_bad or n_lost:
        fails.append(tag)


def base():
    o = Optic()
    o.add_surface(index=0, radius=np.inf, thickness=np.inf)
    return o


def finish(o, idx):
    o.add_surface(index=idx, radius=-50, thickness=80)
    o.add_surface(index=idx + 1)
    o.set_aperture('EPD', 10)
    o.set_field_type('angle')
    o.add_field(y=0)
    o.add_field(y=5)
    o.add_wavelength(WL, is_primary=True)
    o.trace(0, 1, WL, num_rays=8, distribution='hexapolar')
    return o


glass = IdealMaterial(n=1.5)

# (a) coincident surfaces, thickness 0
for R in (50.0, -50.0):
    o = base()
    o.add_surface(index=1, radius=R, thickness=0, is_stop=True)      # dummy stop on the lens surface
    o.add_surface(index=2, radius=R, thickness=4, material=glass)
    finish(o, 3)
    report(f'(a) two coincident spheres R={R:+.0f}, thickness 0', o, 2, R)

# (a') plane stop in contact with the vertex of a surface whose rim lies behind the stop plane
o = base()
o.add_surface(index=1, radius=np.inf, thickness=0, is_stop=True)
o.add_surface(index=2, radius=-50.0, thickness=4, material=glass)
finish(o, 3)
report("(a') plane stop at thickness 0 in front of R=-50", o, 2, -50.0)

# (b) negative thickness (virtual propagation)
for stype, kw in (('standard', {}), ('even_asphere', dict(coefficients=[0.0]))):
    o = base()
    o.add_surface(index=1, radius=np.inf, thickness=10, is_stop=True)
    o.add_surface(index=2, radius=np.inf, thickness=-5)
    o.add_surface(index=3, surface_type=stype, radius=50.0, thickness=4, material=glass, **kw)
    finish(o, 4)
    report(f'(b) dummy plane, thickness -5, then {stype} R=+50', o, 3, 50.0)

# (c) bundled sample
m = Microscope20x()
w = m.primary_wavelength
m.trace(0, 0, w, num_rays=6, distribution='hexapolar')
img, last = m.surface_group.surfaces[-1], m.surface_group.surfaces[-2]
zi = float(np.ravel(img.geometry.cs.z)[0])
t = (zi - last.z) / last.N                      # independent: line/plane intersection
y_ref = last.y + t * last.M
n_nan = int(np.sum(~np.isfinite(img.y)))
print(f'(c) Microscope20x: image plane z = {zi:.4f}, last surface z = '
      f'{float(np.ravel(last.geometry.cs.z)[0]):.4f}; rays NaN at image: {n_nan}/{img.y.size}; '
      f'direction cosines still finite: {bool(np.all(np.isfinite(img.N)))}; '
      f'independent image heights exist, rms = {np.sqrt(np.mean(y_ref**2)):.2e} mm')
if n_nan:
    fails.append('(c) Microscope20x')

print()
if fails:
    print('FAIL:', *fails, sep='\n   ')
    sys.exit(1)
print('PASS')

"""C10 / defect 3: the default coefficient vector of ZernikeStandard /
ZernikeFringe / ZernikeNoll is ONE shared list object (mutable default
argument).  Editing the coefficients of one default-constructed polynomial
(`z.coeffs[k] = v`, the natural way to set a single term) silently changes
every other default-constructed instance of that class, past and future.

Property clause: "Evaluating a coefficient vector is linear in the
coefficients".  A freshly constructed polynomial is documented as "all zeros
(36 elements)", so by linearity it must evaluate to 0 everywhere, and two
instances must evaluate independently:  poly_a + poly_b == poly(c_a + c_b).
"""
import numpy as np
from optiland.zernike import ZernikeStandard, ZernikeFringe, ZernikeNoll

r = np.array([0.0, 0.3, 0.7, 1.0])
phi = np.array([0.0, 0.4, 2.0, 4.0])
failures = []

for cls in (ZernikeStandard, ZernikeFringe, ZernikeNoll):
    a = cls()                 # "all zeros"
    b = cls()                 # another, independent, all-zero polynomial
    a.coeffs[4] = 2.0         # a := 2 * Z_4
    b.coeffs[7] = -1.0        # b := -1 * Z_7
    # independent reference through the explicit-argument path of the API
    ca = [0.0] * 36; ca[4] = 2.0
    cb = [0.0] * 36; cb[7] = -1.0
    ref_a = cls(ca).poly(r, phi)
    ref_b = cls(cb).poly(r, phi)
    got_a = a.poly(r, phi)
    got_b = b.poly(r, phi)
    fresh = cls()             # a brand-new default instance
    got_fresh = fresh.poly(r, phi) * np.ones_like(r)
    print(cls.__name__)
    print('  a = 2*Z_4      : got', np.round(got_a, 6), ' expected',
          np.round(ref_a, 6))
    print('  b = -Z_7       : got', np.round(got_b, 6), ' expected',
          np.round(ref_b, 6))
    print('  fresh cls()    : got', np.round(got_fresh, 6),
          ' expected all zeros;  coeffs[:8] =', fresh.coeffs[:8])
    print('  a.coeffs is b.coeffs is fresh.coeffs:',
          a.coeffs is b.coeffs is fresh.coeffs)
    if not np.allclose(got_a, ref_a, atol=1e-12):
        failures.append(f'{cls.__name__}: a polluted by b '
                        f'(max dev {np.max(np.abs(got_a - ref_a)):.3g})')
    if not np.allclose(got_b, ref_b, atol=1e-12):
        failures.append(f'{cls.__name__}: b polluted by a '
                        f'(max dev {np.max(np.abs(got_b - ref_b)):.3g})')
    if not np.allclose(got_fresh, 0.0, atol=1e-12):
        failures.append(f'{cls.__name__}: fresh zero polynomial evaluates to '
                        f'{np.max(np.abs(got_fresh)):.3g}')

print()
if failures:
    print('PROPERTY VIOLATED:')
    for f in failures:
        print('  ', f)
assert not failures
print('ok')

"""Equivalence digest for change 1 (field_curvature.py helper extraction).

Prints exact (bit-level) digests of the FieldCurvature results for a set of
sample lenses, wavelength lists, sample counts and parabasal deltas, plus a
digest of the ray data left on the lens afterwards (side effects).
"""
import hashlib
import warnings

import numpy as np

from optiland import analysis
from optiland.samples.objectives import (CookeTriplet, DoubleGauss,
                                         ReverseTelephoto, TessarLens,
                                         Telephoto, PetzvalLens)
from optiland.samples.simple import (Edmund_49_847, AsphericSinglet,
                                     CementedAchromat)
from optiland.samples.lithography import UVProjectionLens
from optiland.samples.eyepieces import EyepieceErfle
from optiland.samples.telescopes import HubbleTelescope

warnings.simplefilter('ignore')


def digest(*arrays):
    h = hashlib.sha1()
    for a in arrays:
        a = np.ascontiguousarray(np.asarray(a, dtype=np.float64))
        h.update(repr(a.shape).encode())
        h.update(a.tobytes())
    return h.hexdigest()


def lens_state(lens):
    sg = lens.surface_group
    return digest(sg.x, sg.y, sg.z, sg.L, sg.M, sg.N, sg.intensity)


LENSES = [CookeTriplet, DoubleGauss, ReverseTelephoto, TessarLens, Telephoto,
          PetzvalLens, Edmund_49_847, AsphericSinglet, CementedAchromat,
          UVProjectionLens, EyepieceErfle, HubbleTelescope]

for cls in LENSES:
    lens = cls()
    own = lens.wavelengths.get_wavelengths()
    cases = [('all', 128), ('all', 1), ('all', 2), ('all', 7),
             ([own[0] * 1.07], 5), ([0.45, 0.5876, 0.7], 16), ([], 4)]
    for wavelengths, num_points in cases:
        label = f'{cls.__name__} wl={wavelengths} n={num_points}'
        try:
            fc = analysis.FieldCurvature(lens, wavelengths=wavelengths,
                                         num_points=num_points)
        except Exception as exc:  # must be the same exception both ways
            print(label, 'EXC', type(exc).__name__, exc)
            continue
        flat = [arr for pair in fc.data for arr in pair]
        print(label, len(fc.data), [a.shape for a in flat], digest(*flat),
              lens_state(lens))
        if flat:
            print('   first', repr(flat[0][:3].tolist()),
                  repr(flat[1][:3].tolist()))

    # direct calls of the two private entry points with other deltas
    fc = analysis.FieldCurvature(lens, num_points=9)
    for delta in (1e-5, 1e-3, 1e-7, 0.0):
        t = fc._intersection_parabasal_tangential(own[0], delta=delta)
        st = lens_state(lens)
        s = fc._intersection_parabasal_sagittal(own[-1], delta)
        print(f'{cls.__name__} delta={delta}', digest(t), st, digest(s),
              lens_state(lens))
    print(sorted(k for k in vars(fc)), sorted(
        n for n in dir(type(fc)) if n.startswith('_intersection')))

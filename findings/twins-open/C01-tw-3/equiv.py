"""Equivalence digest for C01-tw-3 (SurfaceFactory geometry dispatch table).

Creates surfaces of every type through Optic.add_surface with every subset
pattern of keyword arguments that matters for the filter (expected, unexpected
for that type, unknown), unknown / unhashable / non-string surface types,
failures that happen before the type check (index, material), object surfaces
of every type, then edits the lenses (radius / conic / asphere coefficient /
thickness / index) and traces rays.  Prints exact geometry state (repr of
floats is round-trip exact), sag values and traced ray data as sha1.
"""
import hashlib
import inspect
import warnings

import numpy as np

import optiland.samples.eyepieces as s_eye
import optiland.samples.infrared as s_ir
import optiland.samples.lithography as s_lith
import optiland.samples.microscopes as s_mic
import optiland.samples.objectives as s_obj
import optiland.samples.simple as s_simple
import optiland.samples.telescopes as s_tel
from optiland.optic import Optic
from optiland.physical_apertures import RadialAperture
from optiland.surfaces.surface_factory import SurfaceFactory

warnings.filterwarnings('ignore')
np.seterr(all='ignore')

SHA = hashlib.sha1()


def arr(v):
    a = np.asarray(v, dtype=np.float64)
    SHA.update(a.tobytes())
    return f'{a.shape}:{hashlib.sha1(a.tobytes()).hexdigest()[:12]}'


def geom(g):
    items = []
    for key in sorted(vars(g)):
        val = vars(g)[key]
        if key == 'cs':
            val = {k: repr(v) for k, v in vars(val).items()}
        elif isinstance(val, (list, np.ndarray)):
            val = (type(val).__name__, str(getattr(val, 'dtype', '')),
                   np.asarray(val, dtype=float).tolist())
        else:
            val = (type(val).__name__, repr(val))
        items.append((key, val))
    xs = np.array([0.0, 0.5, -1.25, 2.0])
    ys = np.array([0.0, -0.75, 0.3, 1.5])
    try:
        sag = arr(g.sag(xs, ys))
    except Exception as e:  # noqa
        sag = f'{type(e).__name__}'
    return type(g).__name__, items, 'sag', sag


def describe(tag, lens):
    print(tag)
    for k, s in enumerate(lens.surface_group.surfaces):
        print('   ', k, type(s).__name__, geom(s.geometry),
              'stop', s.is_stop, 'refl', getattr(s, 'is_reflective', None),
              'aperture', type(s.aperture).__name__,
              'coating', type(getattr(s, 'coating', None)).__name__,
              'bsdf', getattr(s, 'bsdf', None))


def attempt(tag, fn):
    try:
        r = fn()
        print(tag, 'ok', r)
    except Exception as e:  # noqa
        print(tag, 'EXC', type(e).__name__, str(e))


def trace_digest(tag, lens):
    try:
        rays = lens.trace(Hx=0, Hy=0.7, wavelength=0.55, num_rays=5,
                          distribution='hexapolar')
        print(tag, 'trace', arr(rays.x), arr(rays.y), arr(rays.z),
              arr(rays.L), arr(rays.M), arr(rays.N), arr(rays.opd))
    except Exception as e:  # noqa
        print(tag, 'trace EXC', type(e).__name__, str(e))


# 1. every sample lens --------------------------------------------------------
for module in (s_simple, s_obj, s_eye, s_ir, s_lith, s_mic, s_tel):
    for name, cls in sorted(inspect.getmembers(module, inspect.isclass)):
        if cls.__module__ != module.__name__:
            continue
        lens = cls()
        describe(f'sample {name}', lens)
        ya, ua = lens.paraxial.marginal_ray()
        print('    marginal', arr(ya), arr(ua))

# 2. each surface type with every relevant keyword pattern --------------------
ALL_KW = dict(radius=42.0, conic=-0.6,
              coefficients=None,  # filled per type
              tol=1e-8, max_iter=37, norm_x=9.0, norm_y=7.5,
              aperture=RadialAperture(r_max=6.0), dx=0.2, dy=-0.1, rx=0.01,
              ry=-0.02, bogus=123, coating='fresnel', bsdf=None)
COEFFS = {
    'standard': [1e-3],
    'even_asphere': [1e-4, -2e-7, 5e-10],
    'polynomial': [[0, 1e-3, 2e-5], [3e-3, -1e-5, 0]],
    'chebyshev': [[0.0, 1e-3], [2e-3, -4e-4]],
}
KEYSETS = [
    (),
    ('radius',),
    ('conic',),
    ('radius', 'conic'),
    ('radius', 'conic', 'coefficients'),
    ('radius', 'coefficients', 'tol', 'max_iter'),
    ('radius', 'conic', 'coefficients', 'tol', 'max_iter', 'norm_x',
     'norm_y'),
    ('radius', 'norm_x'),
    ('radius', 'conic', 'aperture', 'dx', 'dy', 'rx', 'ry'),
    ('radius', 'bogus', 'coating'),
    tuple(ALL_KW),
]

for stype in ('standard', 'even_asphere', 'polynomial', 'chebyshev'):
    for keys in KEYSETS:
        kw = {k: (COEFFS[stype] if k == 'coefficients' else ALL_KW[k])
              for k in keys}
        for obj_type in ('standard', stype):
            lens = Optic()
            lens.add_surface(index=0, surface_type=obj_type, thickness=np.inf,
                             **{k: v for k, v in kw.items()
                                if k in ('radius', 'conic', 'coefficients')})
            lens.add_surface(index=1, surface_type=stype, thickness=3.0,
                             material='N-BK7', is_stop=True, **kw)
            lens.add_surface(index=2, surface_type=stype, thickness=20.0,
                             material='mirror', **kw)
            lens.add_surface(index=3)
            lens.set_aperture('EPD', 4.0)
            lens.set_field_type('angle')
            lens.add_field(y=0)
            lens.add_field(y=1.5)
            lens.add_wavelength(0.55, is_primary=True)
            tag = f'{stype} obj={obj_type} keys={keys}'
            describe(tag, lens)
            trace_digest(tag, lens)
            # the setters the property is about, on the created geometry
            lens.set_radius(-55.5, 1)
            lens.set_conic(0.25, 1)
            lens.set_thickness(4.5, 1)
            lens.set_index(1.6, 1)
            attempt(tag + ' set_asphere_coeff',
                    lambda: lens.set_asphere_coeff(3e-6, 1, 0))
            lens.set_radius(np.inf, 2)
            lens.set_radius(80.0, 2)
            describe(tag + ' edited', lens)
            trace_digest(tag + ' edited', lens)

# 3. unknown / odd surface types and failures in front of the type check -----
lens = Optic()
lens.add_surface(index=0, thickness=10.0)
lens.add_surface(index=1, thickness=2.0, radius=12.0, material='N-BK7')
for stype in ('Standard', 'sphere', '', None, 0, 1.5, ('standard',),
              ['standard'], {'standard': 1}, np.str_('standard'),
              np.str_('chebyshev'), b'standard'):
    attempt(f'surface_type={stype!r}',
            lambda stype=stype: lens.add_surface(index=2, surface_type=stype,
                                                 thickness=1.0, radius=5.0))
describe('after odd surface types', lens)
attempt('bad type and bad index',
        lambda: lens.add_surface(index=99, surface_type='nope'))
attempt('bad type and bad material',
        lambda: lens.add_surface(index=2, surface_type='nope',
                                 material='NOT-A-GLASS-XYZ'))
attempt('bad type and unsupported material object',
        lambda: lens.add_surface(index=2, surface_type='nope', material=1.5))
attempt('good type and unsupported material object',
        lambda: lens.add_surface(index=2, surface_type='standard',
                                 material=1.5))
attempt('bad type and bad thickness idx0',
        lambda: lens.add_surface(index=0, surface_type='nope',
                                 thickness='x'))
attempt('bad coefficients',
        lambda: lens.add_surface(index=2, surface_type='polynomial',
                                 radius=10.0, coefficients='abc'))
attempt('radius None',
        lambda: lens.add_surface(index=2, surface_type='standard',
                                 radius=None))
describe('after failing adds', lens)
print('last_thickness',
      repr(lens.surface_group.surface_factory.last_thickness))

# 4. the factory called directly; the helpers stay reachable -----------------
factory = lens.surface_group.surface_factory
for name in ('_configure_standard_geometry',
             '_configure_even_asphere_geometry',
             '_configure_polynomial_geometry',
             '_configure_chebyshev_geometry'):
    print(name, callable(getattr(factory, name)),
          callable(getattr(SurfaceFactory, name)))
surf = factory.create_surface('even_asphere', 2, True, 'air', 1.0,
                              radius=7.0, coefficients=[1e-3], tol=1e-3,
                              max_iter=3)
print('direct', type(surf).__name__, geom(surf.geometry), surf.is_stop)
print('instance attributes', sorted(vars(factory)))

print('sha1', SHA.hexdigest())
